// units/tags/assoc.rs — the association tag of a sticky index (yrs/src/sticky_index.rs)

/*@extract yrs/src/sticky_index.rs | - | enum Assoc @*/

/// wire format: the literals `-1` / `0` are i32 values, written as signed var-ints
pub open spec fn enc_assoc(a: Assoc) -> Seq<u8> {
    match a {
        Assoc::Before => enc_i64(-1i64),
        Assoc::After => enc_i64(0i64),
    }
}

/// what `Assoc::decode` computes on ANY byte string (an i8 var-int; every non-negative value means After)
pub open spec fn dec_assoc(s: Seq<u8>) -> Option<(Assoc, nat)> {
    match <i8 as VarInt>::dec(s) {
        None => None,
        Some((t, k)) => Some((if t >= 0 { Assoc::After } else { Assoc::Before }, k)),
    }
}

impl Assoc {
    /*@extract yrs/src/sticky_index.rs | impl Encode for Assoc | fn encode | label=assoc_encode
    @sig
        ensures final(encoder).out() == old(encoder).out() + enc_assoc(*self),
    @*/

    /*@extract yrs/src/sticky_index.rs | impl Decode for Assoc | fn decode | label=assoc_decode
    @ret res
    @sig
        requires
            old(decoder).wf(),
        ensures
            final(decoder).wf(),
            match dec_assoc(old(decoder).rest()) {
                Some((a, k)) => res is Ok && res->Ok_0 == a && k <= old(decoder).rest().len() && final(decoder).rest() == old(decoder).rest().skip(k as int),
                None => res is Err,
            },
            suffix_of(old(decoder).rest(), final(decoder).rest()),
    @start
        proof {
            let s0 = decoder.rest();
            lemma_suffix_skip(s0, 0);
            if <i8 as VarInt>::dec(s0) is Some {
                <i8 as VarInt>::law_dec_bounded(s0);
                lemma_suffix_skip(s0, <i8 as VarInt>::dec(s0)->Some_0.1);
            }
        }
    @*/
}

/// C09 for Assoc
pub proof fn theorem_assoc_round_trip(a: Assoc, tail: Seq<u8>)
    ensures
        dec_assoc(enc_assoc(a) + tail) == Some((a, enc_assoc(a).len())),
{
    match a {
        Assoc::Before => { <i8 as VarInt>::law_dec_enc(-1i8, tail); },
        Assoc::After => { <i8 as VarInt>::law_dec_enc(0i8, tail); },
    }
}
