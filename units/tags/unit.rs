// unit `tags` — message framing of the sync protocol (yrs/src/sync/protocol.rs: Message / SyncMessage) and the
// sticky-index association tag (yrs/src/sticky_index.rs: Assoc) on top of the lib0 layer (units/lib0_common/*).
// Serves C09 (byte-level round trip: decoding what `encode` appended, followed by any tail, returns the message and
// leaves the tail) and C10 / C18 (the decoders are total on all byte strings and dispatch on the tag as specified).
//
// Slicing / rewrites (all logged in the evidence):
//   * `impl Encode for X` / `impl Decode for X` bodies are pulled into inherent impls (`X::encode`, `X::decode`); the traits
//     `Encoder` / `Decoder` are sliced to their supertraits `Write` / `Read` (no other method is used by these bodies)
//   * `read::Error` -> `Error` (path spelling);  `buf.into()` -> `buf.to_vec()` (Verus knows no contract for
//     `<Vec<u8> as From<&[u8]>>::from`, and an assume_specification for it is rejected as "signature does not match")
//   * `StateVector`, `AwarenessUpdate`: OPAQUE stand-ins; `encode_v1` / `decode_v1` are trusted stand-ins whose results are
//     the uninterpreted functions sv_enc / sv_dec, au_enc / au_dec with ONE assumed law each (A-SV, A-AU below)
//   * strings: `write_string` AND `read_string` have the real bodies (str's bytes = uninterpreted `utf8`).  `read_string` is
//     `let buf = self.read_buf()?; std::str::from_utf8(buf).map_err(|_| Error::UnexpectedValue)` since /repo 6f5f4d8 (before:
//     `unsafe { from_utf8_unchecked(..) }`, DESIGN A9 -- invalid UTF-8 decoded "successfully"); the real closure is kept and
//     annotated (@closure).  ONE trusted std stand-in: `vx_from_utf8` for `std::str::from_utf8` (SUB, logged): Ok exactly for
//     `valid_utf8(bytes)` and then the string `from_utf8(bytes)` (both uninterpreted).  Assumed laws: A-STR
//     from_utf8(utf8(s)) == s, A-STR2 valid_utf8(utf8(s)).  Spec decoder of a string: `dec_str` (None for invalid UTF-8).
#![allow(unused_imports, unused_variables, unused_mut, dead_code, unused_parens, unused_braces, unused_assignments)]
use vstd::prelude::*;
use vstd::slice::*;
use std::convert::TryInto;

verus! {

/*@rules R10 SUB(from=read::Error;;to=Error) SUB(from=buf.into();;to=buf.to_vec()) @*/

/*@include units/lib0_common/base.rs @*/

/*@include units/lib0_common/spec.rs @*/

/*@include units/lib0_common/varint.rs @*/

// ---------------------------------------------------------------------------------------------
// trusted environment of the framing code
// ---------------------------------------------------------------------------------------------
/// std `slice::to_vec`: "Copies self into a new Vec" (element-wise clone)
pub assume_specification<T: Clone>[ <[T]>::to_vec ](s: &[T]) -> (r: Vec<T>)
    ensures
        r@.len() == s@.len(),
        forall|i: int| 0 <= i < s@.len() ==> cloned(s@[i], #[trigger] r@[i]),
;

/// for bytes, an element-wise clone is a copy
pub proof fn lemma_to_vec_u8(s: Seq<u8>)
    ensures
        forall|r: Vec<u8>| (#[trigger] r@).len() == s.len() && (forall|i: int| 0 <= i < s.len() ==> cloned(s[i], #[trigger] r@[i])) ==> r@ == s,
{
    assert forall|r: Vec<u8>| (#[trigger] r@).len() == s.len() && (forall|i: int| 0 <= i < s.len() ==> cloned(s[i], #[trigger] r@[i])) implies r@ == s by {
        assert(r@ =~= s);
    }
}

pub trait Encoder: Write {}

pub trait Decoder: Read {}

#[verifier::external_body] pub struct StateVector { opaque: () }

#[verifier::external_body] pub struct AwarenessUpdate { opaque: () }

pub uninterp spec fn sv_enc(x: StateVector) -> Seq<u8>;
pub uninterp spec fn sv_dec(b: Seq<u8>) -> Option<StateVector>;
pub uninterp spec fn au_enc(x: AwarenessUpdate) -> Seq<u8>;
pub uninterp spec fn au_dec(b: Seq<u8>) -> Option<AwarenessUpdate>;

/// A-SV (ASSUMED law, an axiom spelled as an external_body proof fn so that the trust scanner lists it):
/// the ONE assumption about StateVector: decode_v1(encode_v1(x)) == Ok(x)
#[verifier::external_body] pub proof fn law_sv_round_trip(x: StateVector)
    ensures sv_dec(sv_enc(x)) == Some(x),
{
}

/// A-AU (ASSUMED law): the ONE assumption about AwarenessUpdate: decode_v1(encode_v1(x)) == Ok(x)
#[verifier::external_body] pub proof fn law_au_round_trip(x: AwarenessUpdate)
    ensures au_dec(au_enc(x)) == Some(x),
{
}

impl StateVector {
    #[verifier::external_body] pub fn encode_v1(&self) -> (r: Vec<u8>)
        ensures r@ == sv_enc(*self),
    {
        unimplemented!()
    }

    #[verifier::external_body] pub fn decode_v1(data: &[u8]) -> (r: Result<StateVector, Error>)
        ensures
            match sv_dec(data@) {
                Some(x) => r is Ok && r->Ok_0 == x,
                None => r is Err,
            },
    {
        unimplemented!()
    }
}

impl AwarenessUpdate {
    #[verifier::external_body] pub fn encode_v1(&self) -> (r: Vec<u8>)
        ensures r@ == au_enc(*self),
    {
        unimplemented!()
    }

    #[verifier::external_body] pub fn decode_v1(data: &[u8]) -> (r: Result<AwarenessUpdate, Error>)
        ensures
            match au_dec(data@) {
                Some(x) => r is Ok && r->Ok_0 == x,
                None => r is Err,
            },
    {
        unimplemented!()
    }
}

/// the UTF-8 bytes of a string / the string `std::str::from_utf8` makes of a VALID byte buffer / validity of a byte buffer
pub uninterp spec fn utf8(s: Seq<char>) -> Seq<u8>;
pub uninterp spec fn from_utf8(b: Seq<u8>) -> Seq<char>;
pub uninterp spec fn valid_utf8(b: Seq<u8>) -> bool;

/// A-STR (ASSUMED law): decoding the UTF-8 bytes of a string gives the string back
#[verifier::external_body] pub proof fn law_utf8_round_trip(s: Seq<char>)
    ensures from_utf8(utf8(s)) == s,
{
}

/// A-STR2 (ASSUMED law): the bytes of a string (what `write_string` writes: `str::as_bytes`) are valid UTF-8 (a `str` is
/// valid UTF-8 by its type invariant)
#[verifier::external_body] pub proof fn law_utf8_valid(s: Seq<char>)
    ensures valid_utf8(utf8(s)),
{
}

impl VxBytes for str {
    open spec fn bytes(&self) -> Seq<u8> {
        utf8(self@)
    }

    /// std `str::as_bytes` (trusted: names the bytes of the string)
    #[verifier::external_body] fn as_ref(&self) -> (r: &[u8]) {
        self.as_bytes()
    }
}

pub trait WriteStr: Write {
    /*@extract yrs/src/encoding/write.rs | trait Write: Sized | fn write_string
    @sig
        ensures final(self).out() == old(self).out() + enc_buf(utf8(str@)),
    @*/
}

impl<W: Write> WriteStr for W {}

/// std `core::str::Utf8Error`: opaque stand-in (never inspected: the real closure is `|_| Error::UnexpectedValue`)
pub struct Utf8ErrorStandIn;

/// TRUSTED std stand-in (A9'): `std::str::from_utf8` -- "Converts a slice of bytes to a string slice. ... Returns Err if the
/// slice is not UTF-8": Ok exactly for the valid byte strings, and then the string those bytes spell
#[verifier::external_body] pub fn vx_from_utf8(buf: &[u8]) -> (r: Result<&str, Utf8ErrorStandIn>)
    ensures
        r is Ok <==> valid_utf8(buf@),
        r is Ok ==> r->Ok_0@ == from_utf8(buf@),
{
    std::str::from_utf8(buf).map_err(|_| Utf8ErrorStandIn)
}

/// what `Read::read_string` computes on ANY byte string: a length-prefixed buffer that must be valid UTF-8.
/// None = Err (truncated / over-long length prefix, or invalid UTF-8), Some((chars, k)) = the string from the first k bytes
pub open spec fn dec_str(s: Seq<u8>) -> Option<(Seq<char>, nat)> {
    match dec_buf(s) {
        None => None,
        Some((b, k)) => if valid_utf8(b) { Some((from_utf8(b), k)) } else { None },
    }
}

pub trait ReadStr: Read {
    // the REAL body of `Read::read_string` (extension-trait position like read_buf, see units/lib0_common/base.rs SLICING)
    /*@extract yrs/src/encoding/read.rs | trait Read: Sized | fn read_string | rules=SUB(from=std::str::from_utf8(buf);;to=vx_from_utf8(buf))
    @ret res
    @sig
        requires
            old(self).wf(),
        ensures
            final(self).wf(),
            suffix_of(old(self).rest(), final(self).rest()),
            match dec_buf(old(self).rest()) {
                Some((b, k)) => k <= old(self).rest().len() && final(self).rest() == old(self).rest().skip(k as int)
                    && (valid_utf8(b) ==> res is Ok && res->Ok_0@ == from_utf8(b))
                    && (!valid_utf8(b) ==> res is Err && res->Err_0 is UnexpectedValue),
                None => res is Err,
            },
    @closure 1 `|_e: Utf8ErrorStandIn| -> (vx_e: Error)`
        ensures vx_e is UnexpectedValue,
    @*/
}

impl<R: Read> ReadStr for R {}

/*@include units/tags/proto.rs @*/

/*@include units/tags/assoc.rs @*/

} // verus!
fn main() {}
