// unit `tags` — message framing of the sync protocol (yrs/src/sync/protocol.rs: Message / SyncMessage) and the
// sticky-index association tag (yrs/src/sticky_index.rs: Assoc) on top of the lib0 layer (units/lib0_common/*).
// Serves C09 (byte-level round trip: decoding what `encode` appended, followed by any tail, returns the message and
// leaves the tail) and C10 / C18 (the decoders are total on all byte strings and dispatch on the tag as specified).
//
// Slicing / rewrites (all logged in the evidence):
//   * `impl Encode for X` / `impl Decode for X` bodies are pulled into inherent impls (`X::encode`, `X::decode`); the traits
//     `Encoder` / `Decoder` are sliced to their supertraits `Write` / `Read` (no other method is used by these bodies)
//   * `read::Error` -> `Error` (path spelling);  `buf.into()` -> `buf.to_vec()` (Verus knows no contract for
//     `<Vec<u8> as From<&[u8]>>::from`, and an assume_specification for it is rejected as "signature does not match")
//   * `StateVector`, `AwarenessUpdate`: OPAQUE stand-ins; `encode_v1` / `decode_v1` are trusted stand-ins whose results are
//     the uninterpreted functions sv_enc / sv_dec, au_enc / au_dec with ONE assumed law each (A-SV, A-AU below)
//   * strings: `write_string` has the real body (str's bytes = uninterpreted `utf8`); `read_string` is a TRUSTED stand-in
//     (the real body is `unsafe { from_utf8_unchecked(..) }`, DESIGN A9) returning `from_utf8` of the buffer; assumed law A-STR
#![allow(unused_imports, unused_variables, unused_mut, dead_code, unused_parens, unused_braces, unused_assignments)]
use vstd::prelude::*;
use vstd::slice::*;
use std::convert::TryInto;

verus! {

/*@rules R10 SUB(from=read::Error;;to=Error) SUB(from=buf.into();;to=buf.to_vec()) @*/

/*@include units/lib0_common/base.rs @*/

/*@include units/lib0_common/spec.rs @*/

/*@include units/lib0_common/varint.rs @*/

// ---------------------------------------------------------------------------------------------
// trusted environment of the framing code
// ---------------------------------------------------------------------------------------------
/// std `slice::to_vec`: "Copies self into a new Vec" (element-wise clone)
pub assume_specification<T: Clone>[ <[T]>::to_vec ](s: &[T]) -> (r: Vec<T>)
    ensures
        r@.len() == s@.len(),
        forall|i: int| 0 <= i < s@.len() ==> cloned(s@[i], #[trigger] r@[i]),
;

/// for bytes, an element-wise clone is a copy
pub proof fn lemma_to_vec_u8(s: Seq<u8>)
    ensures
        forall|r: Vec<u8>| (#[trigger] r@).len() == s.len() && (forall|i: int| 0 <= i < s.len() ==> cloned(s[i], #[trigger] r@[i])) ==> r@ == s,
{
    assert forall|r: Vec<u8>| (#[trigger] r@).len() == s.len() && (forall|i: int| 0 <= i < s.len() ==> cloned(s[i], #[trigger] r@[i])) implies r@ == s by {
        assert(r@ =~= s);
    }
}

pub trait Encoder: Write {}

pub trait Decoder: Read {}

#[verifier::external_body] pub struct StateVector { opaque: () }

#[verifier::external_body] pub struct AwarenessUpdate { opaque: () }

pub uninterp spec fn sv_enc(x: StateVector) -> Seq<u8>;
pub uninterp spec fn sv_dec(b: Seq<u8>) -> Option<StateVector>;
pub uninterp spec fn au_enc(x: AwarenessUpdate) -> Seq<u8>;
pub uninterp spec fn au_dec(b: Seq<u8>) -> Option<AwarenessUpdate>;

/// A-SV (ASSUMED law, an axiom spelled as an external_body proof fn so that the trust scanner lists it):
/// the ONE assumption about StateVector: decode_v1(encode_v1(x)) == Ok(x)
#[verifier::external_body] pub proof fn law_sv_round_trip(x: StateVector)
    ensures sv_dec(sv_enc(x)) == Some(x),
{
}

/// A-AU (ASSUMED law): the ONE assumption about AwarenessUpdate: decode_v1(encode_v1(x)) == Ok(x)
#[verifier::external_body] pub proof fn law_au_round_trip(x: AwarenessUpdate)
    ensures au_dec(au_enc(x)) == Some(x),
{
}

impl StateVector {
    #[verifier::external_body] pub fn encode_v1(&self) -> (r: Vec<u8>)
        ensures r@ == sv_enc(*self),
    {
        unimplemented!()
    }

    #[verifier::external_body] pub fn decode_v1(data: &[u8]) -> (r: Result<StateVector, Error>)
        ensures
            match sv_dec(data@) {
                Some(x) => r is Ok && r->Ok_0 == x,
                None => r is Err,
            },
    {
        unimplemented!()
    }
}

impl AwarenessUpdate {
    #[verifier::external_body] pub fn encode_v1(&self) -> (r: Vec<u8>)
        ensures r@ == au_enc(*self),
    {
        unimplemented!()
    }

    #[verifier::external_body] pub fn decode_v1(data: &[u8]) -> (r: Result<AwarenessUpdate, Error>)
        ensures
            match au_dec(data@) {
                Some(x) => r is Ok && r->Ok_0 == x,
                None => r is Err,
            },
    {
        unimplemented!()
    }
}

/// the UTF-8 bytes of a string / the string `from_utf8_unchecked` makes of a byte buffer
pub uninterp spec fn utf8(s: Seq<char>) -> Seq<u8>;
pub uninterp spec fn from_utf8(b: Seq<u8>) -> Seq<char>;

/// A-STR (ASSUMED law): decoding the UTF-8 bytes of a string gives the string back
#[verifier::external_body] pub proof fn law_utf8_round_trip(s: Seq<char>)
    ensures from_utf8(utf8(s)) == s,
{
}

impl VxBytes for str {
    open spec fn bytes(&self) -> Seq<u8> {
        utf8(self@)
    }

    /// std `str::as_bytes` (trusted: names the bytes of the string)
    #[verifier::external_body] fn as_ref(&self) -> (r: &[u8]) {
        self.as_bytes()
    }
}

pub trait WriteStr: Write {
    /*@extract yrs/src/encoding/write.rs | trait Write: Sized | fn write_string
    @sig
        ensures final(self).out() == old(self).out() + enc_buf(utf8(str@)),
    @*/
}

impl<W: Write> WriteStr for W {}

pub trait ReadStr: Read {
    /// TRUSTED stand-in for `Read::read_string` (real body: `unsafe { from_utf8_unchecked(self.read_buf()?) }`, not
    /// ingestible and undefined behaviour on non-UTF-8 input, DESIGN A9): read_buf + the uninterpreted conversion
    #[verifier::external_body] fn read_string(&mut self) -> (res: Result<&str, Error>)
        requires
            old(self).wf(),
        ensures
            final(self).wf(),
            match dec_buf(old(self).rest()) {
                Some((b, k)) => res is Ok && res->Ok_0@ == from_utf8(b) && k <= old(self).rest().len() && final(self).rest() == old(self).rest().skip(k as int),
                None => res is Err && suffix_of(old(self).rest(), final(self).rest()),
            },
    {
        unimplemented!()
    }
}

impl<R: Read> ReadStr for R {}

/*@include units/tags/proto.rs @*/

/*@include units/tags/assoc.rs @*/

} // verus!
fn main() {}
