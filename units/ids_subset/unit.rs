// unit `ids_subset` — IdRanges<T> (yrs/src/ids.rs, yrs/src/id_set.rs) under contract.  Serves C16.
// Function bodies are pulled from /repo on every run by vx/extract.py; this file holds only the
// abstraction (view / canonical form), the contracts and the proof hints.
#![allow(unused_imports, unused_variables, unused_mut, dead_code, unused_parens, unused_braces)]
use vstd::prelude::*;

verus! {

/*@rules R1 R2(elem=(Range<u32>, T)) R3 R4 R5 R6 R9 R10 @*/

pub mod vx_base {
    use vstd::prelude::*;
    use core::ops::Range;
    use vstd::std_specs::cmp::PartialEqSpec;

/*@include units/ids_common/base.rs @*/
}

pub mod vx_ids {
    use vstd::prelude::*;
    use core::ops::Range;
    use vstd::std_specs::cmp::PartialEqSpec;
    use super::vx_base::*;

    broadcast use vx_clone_axioms;

/*@include units/ids_common/spec.rs @*/

    // ------------------------------------------------------------------------------------------
    // lemmas of this unit
    // ------------------------------------------------------------------------------------------
    /// `c` is not covered when every entry before index `k` ends at or before `c` and the entry at `k`
    /// (if there is one) starts after `c`
    pub proof fn lemma_gap_uncovered<T>(s: Seq<Ent<T>>, k: int, c: int)
        requires
            sorted(s),
            nonempty(s),
            0 <= k <= s.len(),
            forall|i: int| 0 <= i < k ==> (#[trigger] s[i]).0.end <= c,
            k < s.len() ==> c < s[k].0.start,
        ensures
            !covers(s, c),
    {
        if covers(s, c) {
            let j = idx_of(s, c);
            assert(0 <= j < s.len() && inr(s[j].0, c));
            if j < k {
                assert(s[j].0.end <= c);
            } else if j > k {
                assert(s[k].0.end <= s[j].0.start);
                assert(s[k].0.start < s[k].0.end);
            }
        }
    }

    /// dropping the first entry of a canonical sequence
    pub proof fn lemma_tail<T: Merge>(s: Seq<Ent<T>>)
        requires
            canon(s),
            s.len() > 0,
        ensures
            canon(s.subrange(1, s.len() as int)),
            forall|c: int| covers(s.subrange(1, s.len() as int), c) <==> covers(s, c) && !inr(s[0].0, c),
            forall|c: int| covers(s.subrange(1, s.len() as int), c) ==> #[trigger] val_at(s.subrange(1, s.len() as int), c) == val_at(s, c),
    {
        let t = s.subrange(1, s.len() as int);
        assert forall|i: int| 0 <= i < t.len() implies (#[trigger] t[i]).0.start < t[i].0.end by {
            assert(t[i] == s[i + 1]);
        }
        assert forall|i: int, j: int| 0 <= i < j < t.len() implies (#[trigger] t[i]).0.end <= (#[trigger] t[j]).0.start by {
            assert(t[i] == s[i + 1] && t[j] == s[j + 1]);
        }
        assert forall|i: int| 0 <= i < t.len() implies (#[trigger] t[i]).1.wf() by {
            assert(t[i] == s[i + 1]);
        }
        assert forall|i: int| 0 <= i < t.len() - 1 && (#[trigger] t[i]).0.end == t[i + 1].0.start implies !t[i].1.eq_spec(&t[i + 1].1) by {
            assert(t[i] == s[i + 1] && t[i + 1] == s[i + 1 + 1]);
        }
        assert forall|c: int| covers(t, c) <==> covers(s, c) && !inr(s[0].0, c) by {
            if covers(t, c) {
                let k = idx_of(t, c);
                assert(inr(t[k].0, c));
                assert(t[k] == s[k + 1]);
                assert(inr(s[k + 1].0, c));
                assert(s[0].0.end <= s[k + 1].0.start);
            }
            if covers(s, c) && !inr(s[0].0, c) {
                let k = idx_of(s, c);
                assert(inr(s[k].0, c));
                assert(t[k - 1] == s[k]);
                assert(inr(t[k - 1].0, c));
            }
        }
        assert forall|c: int| covers(t, c) implies #[trigger] val_at(t, c) == val_at(s, c) by {
            let k = idx_of(t, c);
            assert(inr(t[k].0, c));
            assert(t[k] == s[k + 1]);
            lemma_idx_unique(s, k + 1, c);
        }
    }

    /// the value hypothesis of `lemma_canon_unique` is symmetric
    pub proof fn lemma_val_eq_sym<T: Merge>(a: Seq<Ent<T>>, b: Seq<Ent<T>>)
        requires
            vals_wf(a),
            vals_wf(b),
            forall|c: int| covers(a, c) <==> covers(b, c),
            forall|c: int| covers(a, c) ==> #[trigger] val_at(a, c).eq_spec(&val_at(b, c)),
        ensures
            forall|c: int| covers(b, c) ==> #[trigger] val_at(b, c).eq_spec(&val_at(a, c)),
    {
        assert forall|c: int| covers(b, c) implies #[trigger] val_at(b, c).eq_spec(&val_at(a, c)) by {
            assert(covers(a, c));
            let i = idx_of(a, c);
            let j = idx_of(b, c);
            assert(0 <= i < a.len() && inr(a[i].0, c));
            assert(0 <= j < b.len() && inr(b[j].0, c));
            assert(a[i].1.wf() && b[j].1.wf());
            assert(val_at(a, c).eq_spec(&val_at(b, c)));
            a[i].1.law_eq_sym(&b[j].1);
        }
    }

    /// a sequence without entries covers nothing, so a canonical sequence with the same clocks is empty too
    pub proof fn lemma_empty_unique<T>(a: Seq<Ent<T>>, b: Seq<Ent<T>>)
        requires
            a.len() == 0,
            nonempty(b),
            forall|c: int| covers(b, c) ==> covers(a, c),
        ensures
            b.len() == 0,
    {
        if b.len() > 0 {
            let c = b[0].0.start as int;
            assert(inr(b[0].0, c));
            assert(covers(b, c));
            assert(covers(a, c));
            let k = idx_of(a, c);
            assert(0 <= k < a.len());
        }
    }

    /// the least covered clock is the start of the first entry
    pub proof fn lemma_first_start_le<T>(a: Seq<Ent<T>>, b: Seq<Ent<T>>)
        requires
            ranges_ok(a),
            ranges_ok(b),
            a.len() > 0,
            b.len() > 0,
            forall|c: int| covers(b, c) ==> covers(a, c),
        ensures
            a[0].0.start <= b[0].0.start,
    {
        let c = b[0].0.start as int;
        assert(inr(b[0].0, c));
        assert(covers(b, c));
        assert(covers(a, c));
        let k = idx_of(a, c);
        assert(0 <= k < a.len() && inr(a[k].0, c));
        if k > 0 {
            assert(a[0].0.end <= a[k].0.start);
            assert(a[0].0.start < a[0].0.end);
        }
    }

    /// the first entry of `a` reaches at least as far as the first entry of `b`: otherwise the clock
    /// `a[0].end` is covered (it lies in `b[0]`), so `a[1]` starts there, and coalescing forces a value change
    /// that `b[0]` does not have
    pub proof fn lemma_first_end_ge<T: Merge>(a: Seq<Ent<T>>, b: Seq<Ent<T>>)
        requires
            canon(a),
            canon(b),
            a.len() > 0,
            b.len() > 0,
            a[0].0.start == b[0].0.start,
            forall|c: int| covers(b, c) ==> covers(a, c),
            forall|c: int| covers(a, c) ==> #[trigger] val_at(a, c).eq_spec(&val_at(b, c)),
            forall|c: int| covers(b, c) ==> #[trigger] val_at(b, c).eq_spec(&val_at(a, c)),
        ensures
            a[0].0.end >= b[0].0.end,
    {
        if a[0].0.end < b[0].0.end {
            let e = a[0].0.end as int;
            assert(a[0].0.start < a[0].0.end);
            // e and e - 1 both lie in b[0]
            assert(inr(b[0].0, e));
            assert(inr(b[0].0, e - 1));
            lemma_idx_unique(b, 0, e);
            lemma_idx_unique(b, 0, e - 1);
            // e - 1 lies in a[0]
            assert(inr(a[0].0, e - 1));
            lemma_idx_unique(a, 0, e - 1);
            // e is covered by a, and the covering entry must be a[1], starting exactly at e
            assert(covers(a, e));
            let k = idx_of(a, e);
            assert(0 <= k < a.len() && inr(a[k].0, e));
            assert(k != 0);
            assert(a[0].0.end <= a[k].0.start);
            if k > 1 {
                assert(a[0].0.end <= a[1].0.start);
                assert(a[1].0.start < a[1].0.end);
                assert(a[1].0.end <= a[k].0.start);
            }
            assert(k == 1);
            lemma_idx_unique(a, 1, e);
            assert(a[0].0.end == a[1].0.start);
            assert(!a[0].1.eq_spec(&a[1].1));
            // but a[0].1 == b[0].1 == a[1].1
            assert(val_at(a, e - 1).eq_spec(&val_at(b, e - 1)));
            assert(val_at(b, e).eq_spec(&val_at(a, e)));
            assert(a[0].1.eq_spec(&b[0].1));
            assert(b[0].1.eq_spec(&a[1].1));
            assert(a[0].1.wf() && b[0].1.wf() && a[1].1.wf());
            a[0].1.law_eq_trans(&b[0].1, &a[1].1);
        }
    }

    /// Canonical forms are unique: two canonical sequences that cover the same clocks with `==`-equal values
    /// have the same ranges and entry-wise `==`-equal values.  (This is what makes "equal sets compare and
    /// encode equal" true.)
    pub proof fn lemma_canon_unique<T: Merge>(a: Seq<Ent<T>>, b: Seq<Ent<T>>)
        requires
            canon(a),
            canon(b),
            forall|c: int| covers(a, c) <==> covers(b, c),
            forall|c: int| covers(a, c) ==> #[trigger] val_at(a, c).eq_spec(&val_at(b, c)),
        ensures
            a.len() == b.len(),
            forall|i: int| 0 <= i < a.len() ==> (#[trigger] a[i]).0 == b[i].0 && a[i].1.eq_spec(&b[i].1),
        decreases a.len(),
    {
        if a.len() == 0 {
            lemma_empty_unique(a, b);
        } else if b.len() == 0 {
            lemma_empty_unique(b, a);
        } else {
            lemma_val_eq_sym(a, b);
            // first entries: same start, same end, equal values
            lemma_first_start_le(a, b);
            lemma_first_start_le(b, a);
            lemma_first_end_ge(a, b);
            lemma_first_end_ge(b, a);
            let s = a[0].0.start as int;
            assert(a[0].0.start < a[0].0.end);
            assert(a[0].0 == b[0].0);
            assert(inr(a[0].0, s) && inr(b[0].0, s));
            lemma_idx_unique(a, 0, s);
            lemma_idx_unique(b, 0, s);
            assert(val_at(a, s).eq_spec(&val_at(b, s)));
            assert(a[0].1.eq_spec(&b[0].1));
            // the rest, by induction
            let a1 = a.subrange(1, a.len() as int);
            let b1 = b.subrange(1, b.len() as int);
            lemma_tail(a);
            lemma_tail(b);
            assert forall|c: int| covers(a1, c) <==> covers(b1, c) by {
                assert(covers(a1, c) <==> covers(a, c) && !inr(a[0].0, c));
                assert(covers(b1, c) <==> covers(b, c) && !inr(b[0].0, c));
                assert(covers(a, c) <==> covers(b, c));
                assert(inr(a[0].0, c) == inr(b[0].0, c));
            }
            assert forall|c: int| covers(a1, c) implies #[trigger] val_at(a1, c).eq_spec(&val_at(b1, c)) by {
                assert(covers(b1, c));
                assert(val_at(a1, c) == val_at(a, c));
                assert(val_at(b1, c) == val_at(b, c));
                assert(val_at(a, c).eq_spec(&val_at(b, c)));
            }
            lemma_canon_unique(a1, b1);
            assert forall|i: int| 0 <= i < a.len() implies (#[trigger] a[i]).0 == b[i].0 && a[i].1.eq_spec(&b[i].1) by {
                if i > 0 {
                    assert(a1[i - 1] == a[i]);
                    assert(b1[i - 1] == b[i]);
                }
            }
        }
    }

    /// for `T = ()` (IdRange / IdSet): canonical sequences covering the same clocks are identical
    pub proof fn lemma_canon_unique_unit(a: Seq<Ent<()>>, b: Seq<Ent<()>>)
        requires
            canon(a),
            canon(b),
            forall|c: int| covers(a, c) <==> covers(b, c),
        ensures
            a =~= b,
    {
        axiom_unit_eq();
        assert forall|c: int| covers(a, c) implies #[trigger] val_at(a, c).eq_spec(&val_at(b, c)) by {}
        lemma_canon_unique(a, b);
        assert forall|i: int| 0 <= i < a.len() implies a[i] == b[i] by {
            assert(a[i].0 == b[i].0);
            assert(a[i].1 == b[i].1);
        }
    }

    impl IdRanges<()> {
        /*@extract yrs/src/id_set.rs | impl IdRanges<()> | fn subset_of | rules=INLINE(file=yrs/src/ids.rs;;container=impl<T: Merge> IdRanges<T>;;fn=iter;;body=self.0.iter();;call=.iter();;to=.0.iter())
        @ret r
        @sig
            requires canon(self@), canon(other@),
            ensures r == (forall|c: int| covers(self@, c) ==> covers(other@, c)),
        @loop 1
            invariant
                canon(self@),
                canon(other@),
                vx_i <= self.0.len(),
                forall|k: int, c: int| 0 <= k < vx_i && #[trigger] inr(self@[k].0, c) ==> covers(other@, c),
            decreases self.0.len() - vx_i,
        @before 1 `stmt:return`
            proof {
                // is_range_covered said "no": pick the uncovered clock of `range`; it is covered by self
                let c = choose|c: int| inr(*range, c) && !covers(other@, c);
                assert(inr(*range, c) && !covers(other@, c));
                assert(inr(self@[vx_i - 1].0, c));
                assert(covers(self@, c));
            }
        @before 1 `stmt:expr true`
            proof {
                assert forall|c: int| covers(self@, c) implies covers(other@, c) by {
                    let k = idx_of(self@, c);
                    assert(inr(self@[k].0, c));
                }
            }
        @*/

        /*@extract yrs/src/id_set.rs | impl IdRanges<()> | fn is_range_covered | rules=INLINE(file=yrs/src/ids.rs;;container=impl<T: Merge> IdRanges<T>;;fn=iter;;body=self.0.iter();;call=.iter();;to=.0.iter())
        @ret r
        @sig
            requires canon(other@),
            ensures r == (forall|c: int| inr(*range, c) ==> covers(other@, c)),
        @loop 1
            invariant
                canon(other@),
                vx_i <= other.0.len(),
                range.start <= current < range.end,
                // everything of `range` below `current` is covered
                forall|c: int| range.start <= c < current ==> covers(other@, c),
                // the entries already passed end at or before `current`
                forall|k: int| 0 <= k < vx_i ==> (#[trigger] other@[k]).0.end <= current,
            decreases other.0.len() - vx_i,
        @before 2 `stmt:return`
            proof {
                lemma_gap_uncovered(other@, vx_i - 1, current as int);
                assert(inr(*range, current as int));
            }
        @before 1 `stmt:assign current`
            proof {
                assert forall|c: int| range.start <= c < other_range.end implies covers(other@, c) by {
                    if c >= current {
                        assert(inr(other@[vx_i - 1].0, c));
                    }
                }
            }
        @before 1 `stmt:expr current`
            proof {
                lemma_gap_uncovered(other@, other@.len() as int, current as int);
                assert(inr(*range, current as int));
            }
        @*/
    }
}

} // verus!
fn main() {}
