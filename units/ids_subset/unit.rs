// unit `ids_subset` — IdRanges<T> (yrs/src/ids.rs, yrs/src/id_set.rs) under contract.  Serves C16.
// Function bodies are pulled from /repo on every run by vx/extract.py; this file holds only the
// abstraction (view / canonical form), the contracts and the proof hints.
#![allow(unused_imports, unused_variables, unused_mut, dead_code, unused_parens, unused_braces)]
use vstd::prelude::*;

verus! {

/*@rules R1 R2(elem=(Range<u32>, T)) R3 R4 R5 R6 R9 R10 @*/

pub mod vx_base {
    use vstd::prelude::*;
    use core::ops::Range;
    use vstd::std_specs::cmp::PartialEqSpec;

/*@include units/ids_common/base.rs @*/
}

pub mod vx_ids {
    use vstd::prelude::*;
    use core::ops::Range;
    use vstd::std_specs::cmp::PartialEqSpec;
    use super::vx_base::*;

    broadcast use vx_clone_axioms;

/*@include units/ids_common/spec.rs @*/

    impl IdRanges<()> {
        /*@extract yrs/src/id_set.rs | impl IdRanges<()> | fn subset_of | rules=INLINE(file=yrs/src/ids.rs;;container=impl<T: Merge> IdRanges<T>;;fn=iter;;body=self.0.iter();;call=.iter();;to=.0.iter())
        @ret r
        @sig
            requires canon(self@), canon(other@),
            ensures r == (forall|c: int| covers(self@, c) ==> covers(other@, c)),
        @loop 1
            decreases self.0.len() - vx_i,
        @*/

        /*@extract yrs/src/id_set.rs | impl IdRanges<()> | fn is_range_covered | rules=INLINE(file=yrs/src/ids.rs;;container=impl<T: Merge> IdRanges<T>;;fn=iter;;body=self.0.iter();;call=.iter();;to=.0.iter())
        @ret r
        @sig
            requires canon(other@),
            ensures r == (forall|c: int| inr(*range, c) ==> covers(other@, c)),
        @loop 1
            decreases other.0.len() - vx_i,
        @*/
    }
}

} // verus!
fn main() {}
