// unit `upd` -- the DOCUMENT-FREE update functions (yrs/src/update.rs, yrs/src/block.rs).  Serves C08 (kernel only).
//
// C08: "Operating on encoded updates without a document is equivalent to operating through one: ... applying
// diff_updates(u, sv) to a document whose state vector is sv has the same effect as applying u; and
// encode_state_vector_from_update(u) equals the state vector of an empty document after applying u whenever u is gap-free
// from clock 0 for every client it mentions."
// The public functions live in yrs/src/alt.rs and are thin wrappers (decode, call, encode):
//   encode_state_vector_from_update_v1/v2(u)  = Update::decode(u)?.state_vector().encode()
//   diff_updates_v1/v2(u, sv)                 = Update::decode(u)?.encode_diff(&StateVector::decode(sv)?, &mut encoder)
// This unit puts the functions in the middle under contract, on the decoded value:
//
//   Update::state_vector         WHOLE FUNCTION.  for every client c: sv_get(result, c) == sv_upper(blocks_of(u, c)): if the
//                                list of c starts at clock 0, the end clock of the maximal prefix without a Skip, else 0.
//                                `lemma_sv_upper_meaning`: under the representation invariant this is the end of the gap-free
//                                prefix from clock 0 (every clock below it is carried, the prefix is maximal; for a list
//                                without Skip that starts at 0 it is the end clock of the last block).
//   Update::state_vector_lower   WHOLE FUNCTION.  sv_get(result, c) == clock of the first non-skip block of c (0 if none).
//   Update::encode_diff          WHOLE FUNCTION (five statements re-spelled, see REWRITES).  There is a listing `es` of client
//                                sections with `sel_listing(es, u, remote)`:
//                                  * a client has a section iff some non-skip block of its list ends after the remote clock r,
//                                  * the section's blocks are exactly the suffix of the list from the FIRST such block on,
//                                  * its offset is max(r - first.clock, 0),
//                                  * sections are ordered by client id, highest first, no client twice,
//                                and the tokens appended to the encoder are exactly `emit_update(log, es, delete_set)`:
//                                  Var(#sections), then per section Var(#blocks) Client(c) Var(first.clock + offset)
//                                  block_tokens(first, offset) block_tokens(b, 0).., then the delete set.
//                                `lemma_diff_exact` / `lemma_section_exact` (pure, over the views): the written sections carry
//                                exactly the clocks of `u` that a receiver with state vector `remote` lacks (nothing it lacks is
//                                omitted -- no order assumption; nothing it has is sent -- ordered lists), the first written
//                                clock is max(r, first.clock), and for contiguous lists the reader's running clock
//                                (`Update::decode`: clock header, then `clock += block.len()`) re-derives every block's own id.
//   Block::encode_with_offset    WHOLE FUNCTION.  appends `block_tokens(b, offset)`: Item -> the item slice [offset ..= len-1]
//                                (abstract, = unit header's `grammar(header_of_slice(item, offset, len - 1))`), GC -> Info(0)
//                                Len(len - offset), Skip -> Info(10) Var(len - offset)  (same layout as unit header's
//                                grammar_gc / grammar_skip, i.e. what `Update::decode_block` reads).
//   <Update as Encode>::encode   WHOLE FUNCTION (= encode_diff against the empty state vector), same contract with remote = {}.
//   Block::{id, len, is_skip}, Item::{id, len}, BlockRange::id, ID::new, ItemSlice::new, StateVector::get   (whole functions)
//   LIFTED STEPS (R18 statement regions of the same source text, each with a contract of its own, so that an edit fails a
//   contract clause and not only a spliced loop invariant): `state_vector_client` (what state_vector computes for one list:
//   == sv_upper), `encode_diff_offset` (the stored offset == max(r - clock, 0)), `encode_diff_section` (the body of the
//   writing loop appends exactly `emit_section`).
//
// NOT DECIDED HERE (C08 is claimed as a kernel only):
//   * `Update::merge_updates` (150 lines over `Memo<IntoBlocks>` carriers, `retain`/`sort_by` with closures, `Option::take`,
//     `splice`/`try_squash` through ItemPtr): OUT OF SCOPE, not ingested, nothing claimed about merge_updates_v1/v2.
//   * integration: "an empty document that integrates blocks covering [0, n) of client c ends with state-vector entry n" and
//     "a document with state vector sv that integrates the written sections ends like one that integrates u" are the
//     document side of the equivalence (Update::integrate, BlockStore); the unit decides what is handed to it.
//   * `Update::decode` / `StateVector::decode` / the byte level of the encoders (C09, C10 units lib0*, dec_comp).
//   * the tokens of an item slice (unit header: `ItemSlice::encode`) and of the delete set (`IdSet::encode`): abstract here.
//
// REPRESENTATION INVARIANT (an ASSUMPTION about `Update` values, established outside the unit):
//   upd_ok   every block: clock + len <= u32::MAX (clocks are u32; `Update::decode` adds lengths to a u32 clock), an Item has
//            len >= 1 (`Item::new` returns None for empty content and `decode_block` then yields no block).
//            REQUIRED by state_vector / state_vector_lower / encode_diff (weakest precondition of `clock + len`, `len - 1`).
//   upd_items_ok   every Item satisfies the abstract `item_rest_ok`: the part of unit header's precondition of
//            `ItemSlice::encode` that speaks about DROPPED fields -- `len == content.len(Utf16)` (header's Item::wf, established
//            by `Item::new`) and "an item that has neither origin nor right origin knows its parent" (`decode_block` reads a
//            parent exactly in that case).  REQUIRED by encode_diff.
//   upd_wf   = upd_ok + per client the blocks are CONTIGUOUS: b[i].clock + b[i].len == b[i+1].clock (hence sorted and
//            non-overlapping; gaps are explicit Skip blocks).  Established by `Update::decode` for a wire update that lists a
//            client once (clocks are derived: `clock += block.len()`; every encoder of the crate writes one section per
//            client) and by `merge_updates` (which synthesises Skips) -- both outside the unit.  NOT required by any function
//            contract; it is the hypothesis of the meaning lemmas (`lemma_sv_upper_meaning`, `lemma_state_vector_gap_free`,
//            clause (3) of `lemma_section_exact`).  Without it `state_vector` still returns `sv_upper`, but that number is
//            then not "the gap-free prefix" (e.g. blocks 0..5, 9..12 without a Skip give 12), and `encode_diff` writes
//            clocks that the reader re-derives differently.  Such values cannot come out of `decode` of a one-section-per-
//            client update.
//
// STAND-IN TYPES (everything else is extracted verbatim from /repo)
//   ClientID     opaque ordered value with structural equality (real: `ClientID(NonZeroU64)`, derived Eq/Hash/Ord).
//   Item         sliced to `id`, `len`.  DROPPED: left, right, origin, right_origin, content, parent, redone, parent_sub, info
//                -- kept as ONE opaque field `vx_rest` so that the abstract token function of an item slice may depend on them.
//   ItemSlice    `ptr: &'a Item` instead of `ptr: ItemPtr` (real: `ItemPtr(NonNull<Item>)` with Deref; read-only lowering as in
//                unit header).  `x.as_ref().into()` (`&Box<Item>` -> `&Item` -> `ItemPtr::from`) is spelled `vx_item_ptr(x)`,
//                a VERIFIED identity function (SUB, logged).
//   IdSet        opaque (only handed to `IdSet::encode`).
//   BlockSet     extracted; `VecDeque<Block>` is spelled `Vec<Block>` and the hasher parameter is dropped (SUB, logged): the
//                functions of this unit only use `iter()`, `[i]`, `is_empty()`, `len()` of the per-client list.
//   Update, StateVector, ID, BlockRange, enum Block: extracted (StateVector without the hasher parameter, as in unit sv).
//   Encoder      trait with a ghost token log (as in unit header): `write_client`, `write_info`, `write_len` signatures
//                extracted from the real trait; `write_var::<T: VarInt>` from the supertrait `lib0::Write` (default body
//                dropped), `VarInt` reduced to "has an integer value" (u32, usize).
//   Kernels      supertrait of Encoder with TWO BODILESS methods standing for callees that are not part of this unit:
//                  encode_item_slice(&ItemSlice, enc)   = `ItemSlice::encode`  (contract proved in unit header: appends the
//                                                         block that describes the sub-range; here abstract `item_slice_toks`)
//                  encode_id_set(&IdSet, enc)           = `<IdSet as Encode>::encode` (appends abstract `id_set_toks`)
//                The calls `slice.encode(encoder)` / `self.delete_set.encode(encoder)` are spelled `E::encode_item_slice(..)` /
//                `E::encode_id_set(..)` (SUB, logged; same trick as `E::split_str` in unit header).
//
// TRUSTED (module vx_trusted, listed by the trust scanner)
//   axiom_client_id_key_model        A4 (as in unit sv): derived Hash/Eq of ClientID agree (vstd's HashMap specs need it).
//   VxMapApi::vx_or_insert_with      std `HashMap::entry(k).or_insert_with(f)`: "Ensures a value is in the entry by inserting
//                                    the result of the default function if empty, and returns a mutable reference to the value
//                                    in the entry."  The closure stays the real one (`|| (0, Vec::new())`, annotated @closure).
//   vx_filter_nonempty               std `m.iter().filter(|(_, (_, q))| !q.is_empty()).collect::<Vec<_>>()`: HashMap::iter
//                                    "visits all key-value pairs in arbitrary order" (each once), Iterator::filter keeps
//                                    exactly the elements for which the predicate holds, collect keeps the order.
//   vx_sort_by_client_desc           std `v.sort_by(|&(x_id, _), &(y_id, _)| y_id.cmp(x_id))`: the result is a permutation of
//                                    the input, ordered by the comparator (here: client id descending).
//   (Verus rejects closure parameter patterns and has no specification of sort_by, so the two statements cannot be ingested;
//   the SUB `from=` text contains the closures, so an edit of either closure makes the rule miss and the run UNDECIDED.)
//   StateVector::set_max             external_body STUB of a function proved in unit sv (contract text cross-checked by the
//                                    extractor; its body needs `entry().or_default()`).  `StateVector::get` is re-verified here.
//   uninterp: item_slice_toks, id_set_toks, item_rest_ok (abstract values, no axioms about them).
//
// REWRITES (all logged in the evidence): R9 (debug_assert in ItemSlice::new -> assert), R10 (pub(crate) -> pub), the SUB rules
//   below: type spellings; `for (&client, blocks)` -> `for (client, blocks)` with `*client` at the use (Verus has no reference
//   patterns); `for (&client, (offset, blocks)) in sorted_clients {` -> `for vx_e in sorted_clients {` + three `let`s that bind
//   the same names (`client: ClientID`, `offset: &u32`, `blocks: &Vec<&Block>`); the call spellings listed above.
//
// FINDINGS: none.  (The shapes suggested for a finding do not occur: the selection loop skips leading Skip blocks, so the
//   first selected block is never a Skip; `offset < first.len` always, so `len - offset` / `ItemSlice::new(ptr, offset, len-1)`
//   are in range.)  OBSERVATIONS: (a) Skip blocks inside / at the end of the selected suffix are written (as Skips); (b) a
//   GC or Skip block of length 0 can come off the wire (`decode_block` does not reject it); all contracts hold for it.
//
// Function bodies are pulled from /repo on every run by vx/extract.py; this file holds stand-in types, the specification,
// the contracts and the proof hints only.
#![allow(unused_imports, unused_variables, unused_mut, dead_code, unused_parens, unused_braces, unused_assignments)]
use vstd::prelude::*;
use std::collections::HashMap;
use vstd::std_specs::iter::IteratorSpec;

verus! {

/*@rules R9 R10
   SUB(from=HashMap<ClientID, VecDeque<Block>, BuildHasherDefault<ClientHasher>>;;to=HashMap<ClientID, Vec<Block>>)
   SUB(from=HashMap<ClientID, u32, BuildHasherDefault<ClientHasher>>;;to=HashMap<ClientID, u32>)
   SUB(from=for (&client, blocks) in;;to=for (client, blocks) in)
   SUB(from=(client, last_clock);;to=(*client, last_clock))
   SUB(from=(client, id.clock);;to=(*client, id.clock))
   SUB(from=x.as_ref().into();;to=vx_item_ptr(x))
   SUB(from=slice.encode(encoder);;to=E::encode_item_slice(&slice, encoder))
   SUB(from=self.delete_set.encode(encoder);;to=E::encode_id_set(&self.delete_set, encoder))
   SUB(from=.entry(*client).or_insert_with(|| (0, Vec::new()));;to=.vx_or_insert_with(*client, || (0, Vec::new())))
   SUB(from=clients.iter().filter(|(_, (_, q))| !q.is_empty()).collect();;to=vx_filter_nonempty(&clients))
   SUB(from=sorted_clients.sort_by(|&(x_id, _), &(y_id, _)| y_id.cmp(x_id));;to=vx_sort_by_client_desc(&mut sorted_clients))
   SUB(from=for (&client, (offset, blocks)) in sorted_clients {;;to=for vx_e in sorted_clients { let client: ClientID = *vx_e.0; let offset: &u32 = &(vx_e.1).0; let blocks: &Vec<&Block> = &(vx_e.1).1;)
@*/

#[derive(PartialEq, Eq, PartialOrd, Ord, Structural, Clone, Copy, Hash)]
pub struct ClientID(pub u64);

pub mod vx_trusted {
    use vstd::prelude::*;
    use vstd::std_specs::hash::*;
    use std::collections::HashMap;
    use super::ClientID;

    /// A4: the derived `Hash` and `Eq` of ClientID agree, i.e. ClientID is a lawful std::collections::HashMap key
    /// (stated as an `external_body` proof fn rather than `axiom fn` so that the framework's trust scanner lists it)
    #[verifier::external_body] pub broadcast proof fn axiom_client_id_key_model()
        ensures
            #[trigger] obeys_key_model::<ClientID>(),
    {
    }

    /// A2: std `HashMap::entry(k).or_insert_with(f)`: "Ensures a value is in the entry by inserting the result of the default
    /// function if empty, and returns a mutable reference to the value in the entry."  No other key is touched; the
    /// function is only called when the key is absent.
    pub trait VxMapApi<V> {
        spec fn vx_view(&self) -> Map<ClientID, V>;

        fn vx_or_insert_with<'a, F: FnOnce() -> V>(&'a mut self, k: ClientID, f: F) -> (r: &'a mut V)
            requires
                !old(self).vx_view().contains_key(k) ==> call_requires(f, ()),
            ensures
                old(self).vx_view().contains_key(k) ==> *r == old(self).vx_view()[k],
                !old(self).vx_view().contains_key(k) ==> call_ensures(f, (), *r),
                final(self).vx_view() == old(self).vx_view().insert(k, *final(r)),
        ;
    }

    impl<V> VxMapApi<V> for HashMap<ClientID, V> {
        open spec fn vx_view(&self) -> Map<ClientID, V> { self@ }

        #[verifier::external_body]
        fn vx_or_insert_with<'a, F: FnOnce() -> V>(&'a mut self, k: ClientID, f: F) -> (r: &'a mut V)
        {
            self.entry(k).or_insert_with(f)
        }
    }

    /// A2: std `m.iter().filter(|(_, (_, q))| !q.is_empty()).collect::<Vec<_>>()` (the body is that expression).
    /// HashMap::iter: "An iterator visiting all key-value pairs in arbitrary order" (every pair once: keys are distinct);
    /// Iterator::filter: "the returned iterator will yield only the elements for which the closure returns true";
    /// collect::<Vec<_>>: the yielded elements, in order.
    #[verifier::external_body]
    pub fn vx_filter_nonempty<'a, T>(m: &'a HashMap<ClientID, (u32, Vec<T>)>) -> (r: Vec<(&'a ClientID, &'a (u32, Vec<T>))>)
        ensures
            forall|i: int| 0 <= i < r@.len() ==> m@.contains_key(*(#[trigger] r@[i]).0) && m@[*r@[i].0] == *r@[i].1 && r@[i].1.1@.len() > 0,
            forall|i: int, j: int| 0 <= i < j < r@.len() ==> *(#[trigger] r@[i]).0 != *(#[trigger] r@[j]).0,
            forall|k: ClientID| m@.contains_key(k) && m@[k].1@.len() > 0 ==> exists|i: int| 0 <= i < r@.len() && *(#[trigger] r@[i]).0 == k,
    {
        m.iter().filter(|(_, (_, q))| !q.is_empty()).collect()
    }

    /// `p` is a permutation of 0..n (injective and onto; both stated so that neither direction needs a pigeonhole proof)
    pub open spec fn is_permutation(p: Seq<int>, n: int) -> bool {
        &&& p.len() == n
        &&& forall|i: int| 0 <= i < n ==> 0 <= #[trigger] p[i] < n
        &&& forall|i: int, j: int| 0 <= i < j < n ==> #[trigger] p[i] != #[trigger] p[j]
        &&& forall|k: int| 0 <= k < n ==> #[trigger] perm_hits(p, k)
    }

    pub open spec fn perm_hits(p: Seq<int>, k: int) -> bool {
        exists|i: int| 0 <= i < p.len() && #[trigger] p[i] == k
    }

    /// A2: std `v.sort_by(|&(x_id, _), &(y_id, _)| y_id.cmp(x_id))` (the body is that statement).  slice::sort_by: "Sorts the
    /// slice in ascending order with a comparison function": the result is a permutation of the input and every pair
    /// i < j satisfies compare(v[i], v[j]) != Greater; the comparator compares the SECOND argument's client id with the
    /// first's, i.e. descending client ids.  The order of ClientID is the derived `Ord` of its integer (real: NonZeroU64 with
    /// the same constant high bits set on every id, order-isomorphic).
    #[verifier::external_body]
    pub fn vx_sort_by_client_desc<T>(v: &mut Vec<(&ClientID, T)>)
        ensures
            final(v)@.len() == old(v)@.len(),
            exists|p: Seq<int>| is_permutation(p, old(v)@.len() as int) && forall|i: int| 0 <= i < p.len() ==> #[trigger] final(v)@[i] == old(v)@[p[i]],
            forall|i: int, j: int| 0 <= i < j < final(v)@.len() ==> (#[trigger] final(v)@[i]).0.0 >= (#[trigger] final(v)@[j]).0.0,
    {
        v.sort_by(|&(x_id, _), &(y_id, _)| y_id.cmp(x_id));
    }
}
use vx_trusted::*;

broadcast use axiom_client_id_key_model;

#[derive(Copy, Clone, PartialEq, Eq, Structural)]
/*@extract yrs/src/block.rs | - | struct ID @*/

#[derive(Copy, Clone, PartialEq, Eq, Structural)]
/*@extract yrs/src/block.rs | - | struct BlockRange @*/

/// opaque: everything of an Item except `id` and `len` (see the header comment)
pub struct ItemRest(pub u64);

/// sliced, see the header comment
pub struct Item {
    pub id: ID,
    pub len: u32,
    pub vx_rest: ItemRest,
}

/*@extract yrs/src/block.rs | - | enum Block @*/

/*@extract yrs/src/update.rs | - | struct BlockSet @*/

/// opaque, see the header comment
pub struct IdSet(pub u64);

/*@extract yrs/src/update.rs | - | struct Update @*/

/*@extract yrs/src/state_vector.rs | - | struct StateVector @*/

impl View for StateVector {
    type V = Map<ClientID, u32>;

    closed spec fn view(&self) -> Map<ClientID, u32> {
        self.0@
    }
}

// ---- state vectors: the vocabulary of unit sv (the stub contracts below must be textually those of unit sv)
/// the clock of client `c`: absent means 0
pub open spec fn sv_get(m: Map<ClientID, u32>, c: ClientID) -> u32 {
    if m.contains_key(c) { m[c] } else { 0 }
}

pub open spec fn max_u32(a: u32, b: u32) -> u32 {
    if a >= b { a } else { b }
}

pub open spec fn sv_join(a: Map<ClientID, u32>, b: Map<ClientID, u32>) -> Map<ClientID, u32> {
    Map::new(a.dom().union(b.dom()), |c: ClientID| max_u32(sv_get(a, c), sv_get(b, c)))
}

pub open spec fn sv_single(c: ClientID, k: u32) -> Map<ClientID, u32> {
    Map::<ClientID, u32>::empty().insert(c, k)
}

/// `#[derive(Default)]` of StateVector, written out (an empty map) and verified against vstd's HashMap::new
impl Default for StateVector {
    fn default() -> (r: Self)
        ensures r@ == Map::<ClientID, u32>::empty(),
    {
        StateVector(HashMap::new())
    }
}

impl StateVector {
    /*@extract yrs/src/state_vector.rs | impl StateVector | fn get
    @ret r
    @sig
        ensures
            r == sv_get(self@, *client_id),
    @*/

    // proved in unit sv
    #[verifier::external_body]
    /*@extract yrs/src/state_vector.rs | impl StateVector | fn set_max
    @sig
        ensures
            // pointwise join with the single entry (client, clock)
            forall|x: ClientID| sv_get(final(self)@, x) == (if x == client { max_u32(sv_get(old(self)@, client), clock) } else { sv_get(old(self)@, x) }),
            final(self)@ == old(self)@.insert(client, max_u32(sv_get(old(self)@, client), clock)),
            final(self)@ == sv_join(old(self)@, sv_single(client, clock)),
    @*/
}

// ---------------------------------------------------------------------------------------------
// views: an update is, per client, a sequence of BlockView { clock, len, kind }
// ---------------------------------------------------------------------------------------------
pub enum Kind { Item, GC, Skip }

pub struct BlockView {
    pub clock: int,
    pub len: int,
    pub kind: Kind,
}

impl Block {
    pub open spec fn bv(&self) -> BlockView {
        match self {
            Block::Item(x) => BlockView { clock: x.id.clock as int, len: x.len as int, kind: Kind::Item },
            Block::GC(r) => BlockView { clock: r.clock as int, len: r.len as int, kind: Kind::GC },
            Block::Skip(r) => BlockView { clock: r.clock as int, len: r.len as int, kind: Kind::Skip },
        }
    }

    pub open spec fn spec_client(&self) -> ClientID {
        match self {
            Block::Item(x) => x.id.client,
            Block::GC(r) => r.client,
            Block::Skip(r) => r.client,
        }
    }
}

pub open spec fn views(bs: Seq<Block>) -> Seq<BlockView> {
    Seq::new(bs.len(), |i: int| bs[i].bv())
}

pub open spec fn blocks_of(u: Map<ClientID, Vec<Block>>, c: ClientID) -> Seq<BlockView> {
    if u.contains_key(c) { views(u[c]@) } else { Seq::empty() }
}

pub open spec fn is_skip(b: BlockView) -> bool {
    b.kind is Skip
}

pub open spec fn end_of(b: BlockView) -> int {
    b.clock + b.len
}

/// no clock arithmetic overflows; an Item is not empty (see REPRESENTATION INVARIANT in the header comment)
pub open spec fn list_ok(s: Seq<BlockView>) -> bool {
    forall|i: int| 0 <= i < s.len() ==> 0 <= (#[trigger] s[i]).clock && 0 <= s[i].len && end_of(s[i]) <= u32::MAX && (s[i].kind is Item ==> s[i].len >= 1)
}

/// every block starts where its predecessor ends (gaps are explicit Skip blocks).  Two index variables: a quantifier with
/// `s[i + 1]` under the trigger `s[i]` is a matching loop.
pub open spec fn list_contiguous(s: Seq<BlockView>) -> bool {
    forall|i: int, j: int| 0 <= i && j == i + 1 && j < s.len() ==> end_of(#[trigger] s[i]) == (#[trigger] s[j]).clock
}

pub open spec fn upd_ok(u: Map<ClientID, Vec<Block>>) -> bool {
    forall|c: ClientID| #[trigger] u.contains_key(c) ==> list_ok(views(u[c]@))
}

/// the representation invariant of a decoded / merged update (an ASSUMPTION, see the header comment)
pub open spec fn upd_wf(u: Map<ClientID, Vec<Block>>) -> bool {
    forall|c: ClientID| #[trigger] u.contains_key(c) ==> list_ok(views(u[c]@)) && list_contiguous(views(u[c]@))
}

/// index of the first Skip at or after `i` (the length of the list if there is none)
pub open spec fn first_skip(s: Seq<BlockView>, i: int) -> int
    decreases s.len() - i,
{
    if i < 0 || i >= s.len() || is_skip(s[i]) { i } else { first_skip(s, i + 1) }
}

/// C08 / `state_vector()`: if the list starts at clock 0, the end clock of the maximal prefix without a Skip; else 0
pub open spec fn sv_upper(s: Seq<BlockView>) -> int {
    if s.len() > 0 && s[0].clock == 0 {
        let n = first_skip(s, 0);
        if n == 0 { 0 } else { end_of(s[n - 1]) }
    } else {
        0
    }
}

/// index of the first non-skip block at or after `i` (the length of the list if there is none)
pub open spec fn first_non_skip(s: Seq<BlockView>, i: int) -> int
    decreases s.len() - i,
{
    if i < 0 || i >= s.len() || !is_skip(s[i]) { i } else { first_non_skip(s, i + 1) }
}

/// `state_vector_lower()`: the clock of the first non-skip block (0 if there is none)
pub open spec fn sv_lower(s: Seq<BlockView>) -> int {
    let n = first_non_skip(s, 0);
    if n < s.len() { s[n].clock } else { 0 }
}

// ---- iteration over a HashMap (vstd's HashMap::iter: a duplicate-free sequence of exactly the map's (key, value) pairs);
// same predicates as in unit sv, generic in the value type
pub open spec fn iter_of<V>(s: Seq<(&ClientID, &V)>, m: Map<ClientID, V>) -> bool {
    &&& s.len() == m.len()
    &&& s.no_duplicates()
    &&& forall|i: int| 0 <= i < s.len() ==> m.contains_key(*(#[trigger] s[i]).0) && m[*s[i].0] == *s[i].1
    &&& forall|k: ClientID| m.contains_key(k) ==> exists|i: int| 0 <= i < s.len() && *(#[trigger] s[i]).0 == k
}

pub open spec fn keys_upto<V>(s: Seq<(&ClientID, &V)>, n: int) -> ISet<ClientID> {
    ISet::new(|c: ClientID| exists|j: int| 0 <= j < n && *(#[trigger] s[j]).0 == c)
}

pub proof fn lemma_keys_upto_step<V>(s: Seq<(&ClientID, &V)>, m: Map<ClientID, V>, n: int)
    requires
        iter_of(s, m),
        0 <= n < s.len(),
    ensures
        keys_upto(s, n + 1) == keys_upto(s, n).insert(*s[n].0),
        !keys_upto(s, n).contains(*s[n].0),
        m.contains_key(*s[n].0),
        m[*s[n].0] == *s[n].1,
        forall|c: ClientID| keys_upto(s, n).contains(c) ==> m.contains_key(c),
{
    let c = *s[n].0;
    assert forall|x: ClientID| keys_upto(s, n + 1).contains(x) <==> keys_upto(s, n).insert(c).contains(x) by {
        if keys_upto(s, n + 1).contains(x) {
            let j = choose|j: int| 0 <= j < n + 1 && *(#[trigger] s[j]).0 == x;
            if j < n {
                assert(0 <= j < n && *s[j].0 == x);
            }
        }
        if keys_upto(s, n).contains(x) {
            let j = choose|j: int| 0 <= j < n && *(#[trigger] s[j]).0 == x;
            assert(0 <= j < n + 1 && *s[j].0 == x);
        }
        if x == c {
            assert(0 <= n < n + 1 && *s[n].0 == x);
        }
    }
    assert(keys_upto(s, n + 1) =~= keys_upto(s, n).insert(c));
    if keys_upto(s, n).contains(c) {
        let j = choose|j: int| 0 <= j < n && *(#[trigger] s[j]).0 == c;
        assert(m[*s[j].0] == *s[j].1 && m[*s[n].0] == *s[n].1);
        assert(s[j] == s[n]);
        assert(false);
    }
    assert forall|x: ClientID| keys_upto(s, n).contains(x) implies m.contains_key(x) by {
        let j = choose|j: int| 0 <= j < n && *(#[trigger] s[j]).0 == x;
        assert(m.contains_key(*s[j].0));
    }
}

// ---------------------------------------------------------------------------------------------
// real code: block accessors
// ---------------------------------------------------------------------------------------------
impl ID {
    /*@extract yrs/src/block.rs | impl ID | fn new | label=ID.new
    @ret r
    @sig
        ensures r.client == client, r.clock == clock,
    @*/
}

impl BlockRange {
    /*@extract yrs/src/block.rs | impl BlockRange | fn id | label=BlockRange.id
    @ret r
    @sig
        ensures r.client == self.client, r.clock == self.clock,
    @*/
}

impl Item {
    /*@extract yrs/src/block.rs | impl Item | fn id | label=Item.id
    @ret r
    @sig
        ensures *r == self.id,
    @*/

    /*@extract yrs/src/block.rs | impl Item | fn len | label=Item.len
    @ret r
    @sig
        ensures r == self.len,
    @*/
}

impl Block {
    /*@extract yrs/src/block.rs | impl Block | fn id | label=Block.id
    @ret r
    @sig
        ensures r.clock == self.bv().clock, r.client == self.spec_client(),
    @*/

    /*@extract yrs/src/block.rs | impl Block | fn len | label=Block.len
    @ret r
    @sig
        ensures r == self.bv().len,
    @*/

    /*@extract yrs/src/block.rs | impl Block | fn is_skip | label=Block.is_skip
    @ret r
    @sig
        ensures r == is_skip(self.bv()),
    @*/
}


// ---------------------------------------------------------------------------------------------
// the encoder, abstracted to the sequence of tokens written so far (same abstraction as unit header)
// ---------------------------------------------------------------------------------------------
pub enum Tok {
    Info(u8),
    Len(u32),
    Var(int),
    Client(ClientID),
    /// a token of a kind this unit's code never writes itself (unit header: LeftId, RightId, String, ...; the delete-set
    /// columns): only inside the abstract sequences `item_slice_toks` / `id_set_toks`
    Other(int),
}

/// `lib0::VarInt`, reduced to "has an integer value" (the byte level is C09's)
pub trait VarInt: Sized + Copy {
    spec fn vx_val(&self) -> int;
}

impl VarInt for u32 {
    open spec fn vx_val(&self) -> int { *self as int }
}

impl VarInt for usize {
    open spec fn vx_val(&self) -> int { *self as int }
}

/// the tokens `ItemSlice::encode` appends for the sub-range [start ..= end] of `item`
/// (unit header: `grammar(header_of_slice(item, start, end))`; abstract here, no axioms)
pub uninterp spec fn item_slice_toks(item: Item, start: u32, end: u32) -> Seq<Tok>;

/// the tokens `<IdSet as Encode>::encode` appends (abstract here, no axioms)
pub uninterp spec fn id_set_toks(ds: IdSet) -> Seq<Tok>;

/// the part of the precondition of unit header's `ItemSlice::encode` that speaks about dropped fields of Item
/// (see `upd_items_ok` in the header comment; abstract here, no axioms)
pub uninterp spec fn item_rest_ok(item: Item) -> bool;

/// stand-in, see the header comment (real: `ptr: ItemPtr`)
pub struct ItemSlice<'a> {
    pub ptr: &'a Item,
    pub start: u32,
    pub end: u32,
}

impl<'a> ItemSlice<'a> {
    /// as in unit header: a slice designates the non-empty range [start ..= end] inside its (non-empty) item
    pub open spec fn wf(&self) -> bool {
        &&& self.ptr.len >= 1
        &&& self.ptr.id.clock + self.ptr.len <= u32::MAX
        &&& self.start <= self.end
        &&& self.end < self.ptr.len
    }

    /*@extract yrs/src/slice.rs | impl ItemSlice | fn new | label=ItemSlice.new | rules=SUB(from=ptr: ItemPtr;;to=ptr: &'a Item)
    @ret r
    @sig
        requires start <= end,
        ensures r.ptr == ptr, r.start == start, r.end == end,
    @*/
}

/// `x.as_ref().into()` (`&Box<Item>` -> `&Item` -> `ItemPtr`): the pointer to the boxed item, as a borrow (verified)
pub fn vx_item_ptr<'a>(x: &'a Box<Item>) -> (r: &'a Item)
    ensures *r == **x,
{
    &**x
}

/// callees that are not part of this unit, as bodiless methods of a supertrait of the encoder (see the header comment)
pub trait Kernels: Sized {
    /// the tokens written so far
    spec fn log(&self) -> Seq<Tok>;

    /// `ItemSlice::encode(&self, encoder)` (slice.rs; under contract in unit header)
    fn encode_item_slice(slice: &ItemSlice<'_>, encoder: &mut Self)
        requires
            slice.wf(),
            item_rest_ok(*slice.ptr),
        ensures
            final(encoder).log() == old(encoder).log() + item_slice_toks(*slice.ptr, slice.start, slice.end),
    ;

    /// `<IdSet as Encode>::encode(&self, encoder)` (id_set.rs)
    fn encode_id_set(ds: &IdSet, encoder: &mut Self)
        ensures
            final(encoder).log() == old(encoder).log() + id_set_toks(*ds),
    ;
}

pub trait Encoder: Sized + Kernels {
    /*@extract yrs/src/updates/encoder.rs | trait Encoder: Write | fn write_client
    @sig
        ensures final(self).log() == old(self).log().push(Tok::Client(client)),
    @*/

    /*@extract yrs/src/updates/encoder.rs | trait Encoder: Write | fn write_info
    @sig
        ensures final(self).log() == old(self).log().push(Tok::Info(info)),
    @*/

    /*@extract yrs/src/updates/encoder.rs | trait Encoder: Write | fn write_len
    @sig
        ensures final(self).log() == old(self).log().push(Tok::Len(len)),
    @*/

    /// `lib0::Write::write_var::<T: VarInt>` (supertrait `Write`; default body `num.write(self)` dropped)
    fn write_var<T: VarInt>(&mut self, num: T)
        ensures final(self).log() == old(self).log().push(Tok::Var(num.vx_val())),
    ;
}

/*@extract yrs/src/block.rs | - | const BLOCK_GC_REF_NUMBER @*/
/*@extract yrs/src/block.rs | - | const BLOCK_SKIP_REF_NUMBER @*/

/// what `Block::encode_with_offset(offset)` appends
pub open spec fn block_tokens(b: Block, offset: u32) -> Seq<Tok> {
    match b {
        Block::Item(x) => item_slice_toks(*x, offset, (x.len - 1) as u32),
        Block::Skip(r) => seq![Tok::Info(10), Tok::Var(r.len - offset)],
        Block::GC(r) => seq![Tok::Info(0), Tok::Len((r.len - offset) as u32)],
    }
}

/// push form of the same
pub open spec fn emit_block(l: Seq<Tok>, b: Block, offset: u32) -> Seq<Tok> {
    match b {
        Block::Item(x) => l + item_slice_toks(*x, offset, (x.len - 1) as u32),
        Block::Skip(r) => l.push(Tok::Info(10)).push(Tok::Var(r.len - offset)),
        Block::GC(r) => l.push(Tok::Info(0)).push(Tok::Len((r.len - offset) as u32)),
    }
}

pub proof fn lemma_emit_block(l: Seq<Tok>, b: Block, offset: u32)
    ensures
        emit_block(l, b, offset) == l + block_tokens(b, offset),
{
    assert(emit_block(l, b, offset) =~= l + block_tokens(b, offset));
}

/// a block that can be written from `offset` on
pub open spec fn block_encodable(b: Block, offset: u32) -> bool {
    match b {
        Block::Item(x) => x.len >= 1 && x.id.clock + x.len <= u32::MAX && offset < x.len && item_rest_ok(*x),
        Block::Skip(r) => offset <= r.len,
        Block::GC(r) => offset <= r.len,
    }
}

impl Block {
    /*@extract yrs/src/block.rs | impl Block | fn encode_with_offset | label=Block.encode_with_offset
    @sig
        requires
            block_encodable(*self, offset),
        ensures
            final(encoder).log() == emit_block(old(encoder).log(), *self, offset),
    @*/
}

// ---------------------------------------------------------------------------------------------
// encode_diff: selection
// ---------------------------------------------------------------------------------------------
/// first index >= i of a non-skip block that ends after `r` (the length of the list if there is none)
pub open spec fn sel_start(s: Seq<BlockView>, r: int, i: int) -> int
    decreases s.len() - i,
{
    if i < 0 || i >= s.len() || (!is_skip(s[i]) && end_of(s[i]) > r) { i } else { sel_start(s, r, i + 1) }
}

/// max(r - first.clock, 0)
pub open spec fn sel_offset(b: BlockView, r: int) -> int {
    if r > b.clock { r - b.clock } else { 0 }
}

/// the client gets a section: some non-skip block of its list ends after the remote clock
pub open spec fn selected(u: Map<ClientID, Vec<Block>>, remote: Map<ClientID, u32>, c: ClientID) -> bool {
    u.contains_key(c) && sel_start(views(u[c]@), sv_get(remote, c) as int, 0) < u[c]@.len()
}

/// the pair stored for a client whose list is `bs` when the remote clock is `r`
pub open spec fn sel_entry_ok(e: (u32, Vec<&Block>), bs: Seq<Block>, r: int) -> bool {
    let s = views(bs);
    let k = sel_start(s, r, 0);
    &&& 0 <= k < bs.len()
    &&& e.0 == sel_offset(s[k], r)
    &&& e.1@.len() == bs.len() - k
    &&& forall|j: int| 0 <= j < e.1@.len() ==> *(#[trigger] e.1@[j]) == bs[k + j]
}

/// the selection map after the clients in `seen` have been looked at (`seen` = all clients: the result of the first loop)
pub open spec fn sel_inv(sel: Map<ClientID, (u32, Vec<&Block>)>, u: Map<ClientID, Vec<Block>>, remote: Map<ClientID, u32>, seen: ISet<ClientID>) -> bool {
    forall|c: ClientID| #![trigger sel.contains_key(c)] #![trigger seen.contains(c)]
        (sel.contains_key(c) <==> seen.contains(c) && selected(u, remote, c))
        && (sel.contains_key(c) ==> sel_entry_ok(sel[c], u[c]@, sv_get(remote, c) as int))
}

/// position of `curr` in the list, from the slice iterator's (prophetic) remaining sequence: no ghost counter is needed, so
/// the hints do not depend on where the code advances the iterator
pub open spec fn pos(rem0: Seq<&Block>, rem: Seq<&Block>, curr: Option<&Block>) -> int {
    if curr is Some { rem0.len() - rem.len() - 1 } else { rem0.len() as int }
}

pub open spec fn cursor_ok(rem0: Seq<&Block>, rem: Seq<&Block>, curr: Option<&Block>) -> bool {
    match curr {
        Some(b) => rem.len() < rem0.len() && b == rem0[rem0.len() - rem.len() - 1] && rem =~= rem0.skip(rem0.len() - rem.len()),
        None => true,
    }
}

/// the map after the list of client `c` has been looked at
pub open spec fn sel_done(sel: Map<ClientID, (u32, Vec<&Block>)>, m0: Map<ClientID, (u32, Vec<&Block>)>, c: ClientID, bs: Seq<Block>, r: int) -> bool {
    if sel_start(views(bs), r, 0) < bs.len() {
        sel.contains_key(c) && sel == m0.insert(c, sel[c]) && sel_entry_ok(sel[c], bs, r)
    } else {
        sel == m0
    }
}

pub proof fn lemma_sel_step(sel: Map<ClientID, (u32, Vec<&Block>)>, m0: Map<ClientID, (u32, Vec<&Block>)>, u: Map<ClientID, Vec<Block>>, remote: Map<ClientID, u32>, seen: ISet<ClientID>, c: ClientID)
    requires
        sel_inv(m0, u, remote, seen),
        !seen.contains(c),
        u.contains_key(c),
        sel_done(sel, m0, c, u[c]@, sv_get(remote, c) as int),
    ensures
        sel_inv(sel, u, remote, seen.insert(c)),
{
    let seen2 = seen.insert(c);
    assert(!m0.contains_key(c));
    assert forall|x: ClientID| #![trigger sel.contains_key(x)] #![trigger seen2.contains(x)]
        (sel.contains_key(x) <==> seen2.contains(x) && selected(u, remote, x))
        && (sel.contains_key(x) ==> sel_entry_ok(sel[x], u[x]@, sv_get(remote, x) as int)) by {
        if x != c {
            assert(seen2.contains(x) <==> seen.contains(x));
            assert(sel.contains_key(x) <==> m0.contains_key(x));
            if m0.contains_key(x) {
                assert(sel[x] == m0[x]);
            }
        }
    }
}

// ---------------------------------------------------------------------------------------------
// encode_diff: what is written
// ---------------------------------------------------------------------------------------------
/// one client section of the written update: the client, the offset into the first block, the blocks
pub struct SelView {
    pub client: ClientID,
    pub offset: u32,
    pub blocks: Seq<Block>,
}

pub open spec fn section_view(client: ClientID, offset: u32, blocks: Seq<&Block>) -> SelView {
    SelView { client, offset, blocks: Seq::new(blocks.len(), |j: int| *blocks[j]) }
}

pub open spec fn sel_view(e: (&ClientID, &(u32, Vec<&Block>))) -> SelView {
    section_view(*e.0, e.1.0, e.1.1@)
}

pub open spec fn sel_views(v: Seq<(&ClientID, &(u32, Vec<&Block>))>) -> Seq<SelView> {
    Seq::new(v.len(), |i: int| sel_view(v[i]))
}

/// the section of a selected client is the suffix of its list from the first non-skip block that ends after the remote
/// clock, cut at the remote clock
pub open spec fn sel_view_ok(e: SelView, u: Map<ClientID, Vec<Block>>, remote: Map<ClientID, u32>) -> bool {
    &&& selected(u, remote, e.client)
    &&& ({
        let bs = u[e.client]@;
        let r = sv_get(remote, e.client) as int;
        let k = sel_start(views(bs), r, 0);
        &&& 0 <= k < bs.len()
        &&& e.blocks == bs.skip(k)
        &&& e.offset == sel_offset(views(bs)[k], r)
    })
}

/// `es` lists exactly the selected clients, highest client id first
pub open spec fn sel_listing(es: Seq<SelView>, u: Map<ClientID, Vec<Block>>, remote: Map<ClientID, u32>) -> bool {
    &&& forall|i: int| 0 <= i < es.len() ==> sel_view_ok(#[trigger] es[i], u, remote)
    &&& forall|i: int, j: int| 0 <= i < j < es.len() ==> (#[trigger] es[i]).client.0 > (#[trigger] es[j]).client.0
    &&& forall|c: ClientID| selected(u, remote, c) ==> exists|i: int| 0 <= i < es.len() && (#[trigger] es[i]).client == c
}

/// `l` followed by the first `n` blocks of a section (the first one from `off` on), in push form
pub open spec fn emit_blocks(l: Seq<Tok>, bs: Seq<Block>, off: u32, n: int) -> Seq<Tok>
    decreases n,
{
    if n <= 0 { l } else { emit_block(emit_blocks(l, bs, off, n - 1), bs[n - 1], if n == 1 { off } else { 0u32 }) }
}

/// number of blocks, client, clock of the first written element (what `Update::decode` reads per client)
pub open spec fn emit_section_head(l: Seq<Tok>, e: SelView) -> Seq<Tok> {
    l.push(Tok::Var(e.blocks.len() as int)).push(Tok::Client(e.client)).push(Tok::Var(e.blocks[0].bv().clock + e.offset))
}

pub open spec fn emit_section(l: Seq<Tok>, e: SelView) -> Seq<Tok> {
    emit_blocks(emit_section_head(l, e), e.blocks, e.offset, e.blocks.len() as int)
}

pub open spec fn emit_sections(l: Seq<Tok>, es: Seq<SelView>, n: int) -> Seq<Tok>
    decreases n,
{
    if n <= 0 { l } else { emit_section(emit_sections(l, es, n - 1), es[n - 1]) }
}

/// everything `encode_diff` appends
pub open spec fn emit_update(l: Seq<Tok>, es: Seq<SelView>, ds: IdSet) -> Seq<Tok> {
    emit_sections(l.push(Tok::Var(es.len() as int)), es, es.len() as int) + id_set_toks(ds)
}

// ---- the same layout as a sequence that is appended (`+` form); the contracts are stated in push form because then the
// code's own sequence of `write_*` calls produces the very same term
pub open spec fn blocks_toks(bs: Seq<Block>, off: u32, n: int) -> Seq<Tok>
    decreases n,
{
    if n <= 0 { Seq::empty() } else { blocks_toks(bs, off, n - 1) + block_tokens(bs[n - 1], if n == 1 { off } else { 0u32 }) }
}

pub open spec fn section_toks(e: SelView) -> Seq<Tok> {
    seq![Tok::Var(e.blocks.len() as int), Tok::Client(e.client), Tok::Var(e.blocks[0].bv().clock + e.offset)]
        + blocks_toks(e.blocks, e.offset, e.blocks.len() as int)
}

pub open spec fn sections_toks(es: Seq<SelView>, n: int) -> Seq<Tok>
    decreases n,
{
    if n <= 0 { Seq::empty() } else { sections_toks(es, n - 1) + section_toks(es[n - 1]) }
}

/// everything `encode_diff` appends: the number of sections, the sections, the delete set
pub open spec fn update_toks(es: Seq<SelView>, ds: IdSet) -> Seq<Tok> {
    seq![Tok::Var(es.len() as int)] + sections_toks(es, es.len() as int) + id_set_toks(ds)
}

pub proof fn lemma_emit_blocks(l: Seq<Tok>, bs: Seq<Block>, off: u32, n: int)
    ensures
        emit_blocks(l, bs, off, n) == l + blocks_toks(bs, off, n),
    decreases n,
{
    if n <= 0 {
        assert(l + blocks_toks(bs, off, n) =~= l);
    } else {
        let o = if n == 1 { off } else { 0u32 };
        lemma_emit_blocks(l, bs, off, n - 1);
        lemma_emit_block(l + blocks_toks(bs, off, n - 1), bs[n - 1], o);
        assert((l + blocks_toks(bs, off, n - 1)) + block_tokens(bs[n - 1], o) =~= l + blocks_toks(bs, off, n));
    }
}

pub proof fn lemma_emit_section(l: Seq<Tok>, e: SelView)
    ensures
        emit_section(l, e) == l + section_toks(e),
{
    let h = emit_section_head(l, e);
    lemma_emit_blocks(h, e.blocks, e.offset, e.blocks.len() as int);
    assert(h =~= l + seq![Tok::Var(e.blocks.len() as int), Tok::Client(e.client), Tok::Var(e.blocks[0].bv().clock + e.offset)]);
    assert(h + blocks_toks(e.blocks, e.offset, e.blocks.len() as int) =~= l + section_toks(e));
}

pub proof fn lemma_emit_sections(l: Seq<Tok>, es: Seq<SelView>, n: int)
    ensures
        emit_sections(l, es, n) == l + sections_toks(es, n),
    decreases n,
{
    if n <= 0 {
        assert(l + sections_toks(es, n) =~= l);
    } else {
        lemma_emit_sections(l, es, n - 1);
        lemma_emit_section(l + sections_toks(es, n - 1), es[n - 1]);
        assert((l + sections_toks(es, n - 1)) + section_toks(es[n - 1]) =~= l + sections_toks(es, n));
    }
}

/// push form == `log + update_toks(es, ds)`
pub proof fn lemma_emit_update(l: Seq<Tok>, es: Seq<SelView>, ds: IdSet)
    ensures
        emit_update(l, es, ds) == l + update_toks(es, ds),
{
    let l1 = l.push(Tok::Var(es.len() as int));
    lemma_emit_sections(l1, es, es.len() as int);
    assert(l1 =~= l + seq![Tok::Var(es.len() as int)]);
    assert((l1 + sections_toks(es, es.len() as int)) + id_set_toks(ds) =~= l + update_toks(es, ds));
}

/// see the header comment
pub open spec fn upd_items_ok(u: Map<ClientID, Vec<Block>>) -> bool {
    forall|c: ClientID, i: int| #![trigger u[c]@[i]] u.contains_key(c) && 0 <= i < u[c]@.len() && u[c]@[i] is Item ==> item_rest_ok(*u[c]@[i]->Item_0)
}

pub open spec fn section_encodable(e: SelView) -> bool {
    &&& e.blocks.len() > 0
    &&& e.blocks[0].bv().clock + e.offset <= u32::MAX
    &&& forall|j: int| 0 <= j < e.blocks.len() ==> block_encodable(#[trigger] e.blocks[j], if j == 0 { e.offset } else { 0u32 })
}

pub proof fn lemma_section_encodable(e: SelView, u: Map<ClientID, Vec<Block>>, remote: Map<ClientID, u32>)
    requires
        sel_view_ok(e, u, remote),
        upd_ok(u),
        upd_items_ok(u),
    ensures
        section_encodable(e),
{
    let bs = u[e.client]@;
    let s = views(bs);
    let r = sv_get(remote, e.client) as int;
    let k = sel_start(s, r, 0);
    lemma_sel_start(s, r, 0);
    assert(list_ok(s));
    assert forall|j: int| 0 <= j < e.blocks.len() implies block_encodable(#[trigger] e.blocks[j], if j == 0 { e.offset } else { 0u32 }) by {
        assert(e.blocks[j] == bs[k + j]);
        assert(s[k + j] == bs[k + j].bv());
    }
    assert(e.blocks[0] == bs[k]);
    assert(s[k] == bs[k].bv());
}

/// `sel_start` returns the first selectable index
pub proof fn lemma_sel_start(s: Seq<BlockView>, r: int, i: int)
    requires
        0 <= i <= s.len(),
    ensures
        i <= sel_start(s, r, i) <= s.len(),
        sel_start(s, r, i) < s.len() ==> !is_skip(s[sel_start(s, r, i)]) && end_of(s[sel_start(s, r, i)]) > r,
        forall|j: int| i <= j < sel_start(s, r, i) ==> is_skip(#[trigger] s[j]) || end_of(s[j]) <= r,
    decreases s.len() - i,
{
    if i < s.len() && !(!is_skip(s[i]) && end_of(s[i]) > r) {
        lemma_sel_start(s, r, i + 1);
    }
}

/// from the selection map through `filter .. collect` and `sort_by` to the listing that is written
pub proof fn lemma_sorted_listing(sel: Map<ClientID, (u32, Vec<&Block>)>, u: Map<ClientID, Vec<Block>>, remote: Map<ClientID, u32>,
    v0: Seq<(&ClientID, &(u32, Vec<&Block>))>, v: Seq<(&ClientID, &(u32, Vec<&Block>))>)
    requires
        sel_inv(sel, u, remote, ISet::full()),
        // contract of vx_filter_nonempty
        forall|i: int| 0 <= i < v0.len() ==> sel.contains_key(*(#[trigger] v0[i]).0) && sel[*v0[i].0] == *v0[i].1 && v0[i].1.1@.len() > 0,
        forall|i: int, j: int| 0 <= i < j < v0.len() ==> *(#[trigger] v0[i]).0 != *(#[trigger] v0[j]).0,
        forall|k: ClientID| sel.contains_key(k) && sel[k].1@.len() > 0 ==> exists|i: int| 0 <= i < v0.len() && *(#[trigger] v0[i]).0 == k,
        // contract of vx_sort_by_client_desc
        v.len() == v0.len(),
        exists|p: Seq<int>| is_permutation(p, v0.len() as int) && forall|i: int| 0 <= i < p.len() ==> #[trigger] v[i] == v0[p[i]],
        forall|i: int, j: int| 0 <= i < j < v.len() ==> (#[trigger] v[i]).0.0 >= (#[trigger] v[j]).0.0,
    ensures
        sel_listing(sel_views(v), u, remote),
{
    let es = sel_views(v);
    let p = choose|p: Seq<int>| is_permutation(p, v0.len() as int) && forall|i: int| 0 <= i < p.len() ==> #[trigger] v[i] == v0[p[i]];
    assert forall|i: int| 0 <= i < es.len() implies sel_view_ok(#[trigger] es[i], u, remote) by {
        assert(v[i] == v0[p[i]]);
        let c = *v[i].0;
        assert(sel.contains_key(c) && sel[c] == *v[i].1);
        assert(ISet::<ClientID>::full().contains(c));
        assert(selected(u, remote, c));
        let bs = u[c]@;
        let k = sel_start(views(bs), sv_get(remote, c) as int, 0);
        assert(sel_entry_ok(sel[c], bs, sv_get(remote, c) as int));
        assert(es[i].blocks =~= bs.skip(k));
    }
    assert forall|i: int, j: int| 0 <= i < j < es.len() implies (#[trigger] es[i]).client.0 > (#[trigger] es[j]).client.0 by {
        assert(v[i] == v0[p[i]] && v[j] == v0[p[j]]);
        assert(p[i] != p[j]);
        if p[i] < p[j] {
            assert(*v0[p[i]].0 != *v0[p[j]].0);
        } else {
            assert(*v0[p[j]].0 != *v0[p[i]].0);
        }
        assert(v[i].0.0 >= v[j].0.0);
    }
    assert forall|c: ClientID| selected(u, remote, c) implies exists|i: int| 0 <= i < es.len() && (#[trigger] es[i]).client == c by {
        assert(ISet::<ClientID>::full().contains(c));
        assert(sel.contains_key(c));
        assert(sel_entry_ok(sel[c], u[c]@, sv_get(remote, c) as int));
        let i0 = choose|i: int| 0 <= i < v0.len() && *(#[trigger] v0[i]).0 == c;
        assert(perm_hits(p, i0));
        let i = choose|i: int| 0 <= i < p.len() && #[trigger] p[i] == i0;
        assert(v[i] == v0[p[i]]);
        assert(es[i].client == c);
    }
}

// ---------------------------------------------------------------------------------------------
// what the contracts mean (pure lemmas over the views)
// ---------------------------------------------------------------------------------------------
/// the update carries clock `k` of this client: it lies in a non-skip block
pub open spec fn carries(s: Seq<BlockView>, k: int) -> bool {
    exists|i: int| 0 <= i < s.len() && !is_skip(#[trigger] s[i]) && s[i].clock <= k < end_of(s[i])
}

/// ... in one of the first `n` blocks
pub open spec fn carried_before(s: Seq<BlockView>, n: int, k: int) -> bool {
    exists|i: int| 0 <= i < n && i < s.len() && !is_skip(#[trigger] s[i]) && s[i].clock <= k < end_of(s[i])
}

/// blocks do not overlap and are ordered by clock
pub open spec fn list_sorted(s: Seq<BlockView>) -> bool {
    forall|i: int, j: int| 0 <= i < j < s.len() ==> end_of(#[trigger] s[i]) <= (#[trigger] s[j]).clock
}

pub proof fn lemma_contiguous_sorted(s: Seq<BlockView>)
    requires
        list_ok(s),
        list_contiguous(s),
    ensures
        list_sorted(s),
{
    assert forall|i: int, j: int| 0 <= i < j < s.len() implies end_of(#[trigger] s[i]) <= (#[trigger] s[j]).clock by {
        lemma_contiguous_le(s, i, j);
    }
}

pub proof fn lemma_contiguous_le(s: Seq<BlockView>, i: int, j: int)
    requires
        list_ok(s),
        list_contiguous(s),
        0 <= i < j < s.len(),
    ensures
        end_of(s[i]) <= s[j].clock,
    decreases j - i,
{
    if j == i + 1 {
        assert(end_of(s[i]) == s[j].clock);
    } else {
        lemma_contiguous_le(s, i, j - 1);
        assert(end_of(s[j - 1]) == s[j].clock);
        assert(s[j - 1].len >= 0);
    }
}

pub proof fn lemma_first_skip(s: Seq<BlockView>, i: int)
    requires
        0 <= i <= s.len(),
    ensures
        i <= first_skip(s, i) <= s.len(),
        first_skip(s, i) < s.len() ==> is_skip(s[first_skip(s, i)]),
        forall|j: int| i <= j < first_skip(s, i) ==> !is_skip(#[trigger] s[j]),
    decreases s.len() - i,
{
    if i < s.len() && !is_skip(s[i]) {
        lemma_first_skip(s, i + 1);
    }
}

pub proof fn lemma_first_non_skip(s: Seq<BlockView>, i: int)
    requires
        0 <= i <= s.len(),
    ensures
        i <= first_non_skip(s, i) <= s.len(),
        first_non_skip(s, i) < s.len() ==> !is_skip(s[first_non_skip(s, i)]),
        forall|j: int| i <= j < first_non_skip(s, i) ==> is_skip(#[trigger] s[j]),
    decreases s.len() - i,
{
    if i < s.len() && is_skip(s[i]) {
        lemma_first_non_skip(s, i + 1);
    }
}

/// in a contiguous list that starts at clock 0, the first `n` blocks cover every clock below the end of the n-th
pub proof fn lemma_prefix_covered(s: Seq<BlockView>, n: int, k: int)
    requires
        list_ok(s),
        list_contiguous(s),
        0 < n <= s.len(),
        s[0].clock == 0,
        0 <= k < end_of(s[n - 1]),
    ensures
        exists|i: int| 0 <= i < n && (#[trigger] s[i]).clock <= k < end_of(s[i]),
    decreases n,
{
    if k >= s[n - 1].clock {
        assert(s[n - 1].clock <= k < end_of(s[n - 1]));
    } else {
        assert(n > 1);
        assert(end_of(s[n - 2]) == s[n - 1].clock);
        lemma_prefix_covered(s, n - 1, k);
        let i = choose|i: int| 0 <= i < n - 1 && (#[trigger] s[i]).clock <= k < end_of(s[i]);
        assert(0 <= i < n && s[i].clock <= k < end_of(s[i]));
    }
}

/// C08, `state_vector()` / `encode_state_vector_from_update`: what `sv_upper` means for a contiguous list (the
/// representation invariant `upd_wf`).  The result is the end of the gap-free prefix from clock 0:
///  * every clock below it is carried by a non-skip block of that prefix,
///  * the prefix is maximal: it ends with the list or at a Skip that starts exactly at the result,
///  * for a list without Skip that starts at clock 0 ("gap-free from clock 0") it is the end clock of the last block.
/// An empty document that integrates blocks covering exactly the clocks [0, n) of a client has state-vector entry n for it
/// (BlockStore::get_clock = end of the last block of the client's list); that last step -- integration itself -- is NOT
/// decided here.
pub proof fn lemma_sv_upper_meaning(s: Seq<BlockView>)
    requires
        list_ok(s),
        list_contiguous(s),
    ensures
        0 <= sv_upper(s) <= u32::MAX,
        forall|k: int| 0 <= k < sv_upper(s) ==> #[trigger] carried_before(s, first_skip(s, 0), k),
        s.len() > 0 && s[0].clock == 0 ==> ({
            let n = first_skip(s, 0);
            n == s.len() || (is_skip(s[n]) && (n > 0 ==> s[n].clock == sv_upper(s)))
        }),
        s.len() > 0 && s[0].clock == 0 && (forall|i: int| 0 <= i < s.len() ==> !is_skip(#[trigger] s[i])) ==> sv_upper(s) == end_of(s.last()),
        !(s.len() > 0 && s[0].clock == 0) ==> sv_upper(s) == 0,
{
    lemma_first_skip(s, 0);
    let n = first_skip(s, 0);
    if s.len() > 0 && s[0].clock == 0 {
        if n > 0 {
            assert forall|k: int| 0 <= k < sv_upper(s) implies #[trigger] carried_before(s, n, k) by {
                lemma_prefix_covered(s, n, k);
                let i = choose|i: int| 0 <= i < n && (#[trigger] s[i]).clock <= k < end_of(s[i]);
                assert(!is_skip(s[i]));
            }
            if n < s.len() {
                assert(end_of(s[n - 1]) == s[n].clock);
            }
        }
        if forall|i: int| 0 <= i < s.len() ==> !is_skip(#[trigger] s[i]) {
            if n < s.len() {
                assert(!is_skip(s[n]));
            }
        }
    }
}


/// C08, the second clause as stated: in an update that satisfies the representation invariant, a client whose list is
/// gap-free from clock 0 (starts at 0, no Skip) gets the end clock `n` of its last block, and the update carries every
/// clock in [0, n) for it -- what an empty document's state vector shows for the client after integrating those blocks
/// (that last step is the document side, not decided here).
pub proof fn lemma_state_vector_gap_free(u: Map<ClientID, Vec<Block>>, c: ClientID)
    requires
        upd_wf(u),
        u.contains_key(c),
        u[c]@.len() > 0,
        blocks_of(u, c)[0].clock == 0,
        forall|i: int| 0 <= i < blocks_of(u, c).len() ==> !is_skip(#[trigger] blocks_of(u, c)[i]),
    ensures
        sv_upper(blocks_of(u, c)) == end_of(blocks_of(u, c).last()),
        forall|k: int| 0 <= k < sv_upper(blocks_of(u, c)) ==> #[trigger] carries(blocks_of(u, c), k),
{
    let s = blocks_of(u, c);
    lemma_sv_upper_meaning(s);
    assert forall|k: int| 0 <= k < sv_upper(s) implies #[trigger] carries(s, k) by {
        assert(carried_before(s, first_skip(s, 0), k));
        let i = choose|i: int| 0 <= i < first_skip(s, 0) && i < s.len() && !is_skip(#[trigger] s[i]) && s[i].clock <= k < end_of(s[i]);
        assert(0 <= i < s.len() && !is_skip(s[i]) && s[i].clock <= k < end_of(s[i]));
    }
}

/// `state_vector_lower()`: the clock of the first non-skip block (0 if there is none)
pub proof fn lemma_sv_lower_meaning(s: Seq<BlockView>)
    requires
        list_ok(s),
        list_sorted(s),
    ensures
        // nothing the update carries lies below it
        forall|k: int| #[trigger] carries(s, k) ==> sv_lower(s) <= k,
        // and, unless the update carries nothing, the clock itself is carried (a 0-length GC block aside)
        first_non_skip(s, 0) < s.len() && s[first_non_skip(s, 0)].len > 0 ==> carries(s, sv_lower(s)),
{
    lemma_first_non_skip(s, 0);
    let n = first_non_skip(s, 0);
    assert forall|k: int| #[trigger] carries(s, k) implies sv_lower(s) <= k by {
        let i = choose|i: int| 0 <= i < s.len() && !is_skip(#[trigger] s[i]) && s[i].clock <= k < end_of(s[i]);
        if i < n {
            assert(is_skip(s[i]));
        } else if i > n {
            assert(end_of(s[n]) <= s[i].clock);
        }
    }
    if n < s.len() && s[n].len > 0 {
        assert(!is_skip(s[n]) && s[n].clock <= sv_lower(s) < end_of(s[n]));
    }
}

/// clock `k` is written by the section `e`: it lies in a non-skip block of the section, the first one taken from
/// `clock + offset` on
pub open spec fn section_sends(e: SelView, k: int) -> bool {
    exists|j: int| 0 <= j < e.blocks.len() && !is_skip((#[trigger] e.blocks[j]).bv())
        && e.blocks[j].bv().clock + (if j == 0 { e.offset as int } else { 0 }) <= k < end_of(e.blocks[j].bv())
}

/// the clock the READER attributes to the j-th block of a section: the section's clock header plus the lengths written
/// so far (`Update::decode`: `clock += block.len()`)
pub open spec fn reader_clock(e: SelView, j: int) -> int
    decreases j,
{
    if j <= 0 {
        e.blocks[0].bv().clock + e.offset
    } else {
        reader_clock(e, j - 1) + e.blocks[j - 1].bv().len - (if j == 1 { e.offset as int } else { 0 })
    }
}

/// C08, `encode_diff` / `diff_updates`: the section written for a selected client, read against the receiver's clock `r`.
///  (1) nothing the receiver lacks is omitted: every clock >= r that the update carries for the client is written;
///  (2) the first written clock is max(r, first.clock), and (for an ordered list) nothing the receiver already has is
///      written: every written clock is >= r and is carried by the update;
///  (3) for a contiguous list the reader re-derives every block's own clock (the first block's cut by the offset), i.e.
///      the blocks keep their ids on the way through the encoding.
pub proof fn lemma_section_exact(e: SelView, u: Map<ClientID, Vec<Block>>, remote: Map<ClientID, u32>)
    requires
        upd_ok(u),
        sel_view_ok(e, u, remote),
    ensures
        forall|k: int| #[trigger] carries(blocks_of(u, e.client), k) && k >= sv_get(remote, e.client) ==> section_sends(e, k),
        e.blocks[0].bv().clock + e.offset == (if sv_get(remote, e.client) > e.blocks[0].bv().clock { sv_get(remote, e.client) as int } else { e.blocks[0].bv().clock }),
        list_sorted(blocks_of(u, e.client)) ==> forall|k: int| #[trigger] section_sends(e, k) ==> carries(blocks_of(u, e.client), k) && k >= sv_get(remote, e.client),
        list_contiguous(blocks_of(u, e.client)) ==> forall|j: int| 0 <= j < e.blocks.len() ==>
            #[trigger] reader_clock(e, j) == e.blocks[j].bv().clock + (if j == 0 { e.offset as int } else { 0 }),
{
    let c = e.client;
    let bs = u[c]@;
    let s = views(bs);
    let r = sv_get(remote, c) as int;
    let f = sel_start(s, r, 0);
    assert(blocks_of(u, c) == s);
    assert(list_ok(s));
    lemma_sel_start(s, r, 0);
    assert(e.blocks[0] == bs[f] && s[f] == bs[f].bv());
    assert forall|k: int| #[trigger] carries(s, k) && k >= r implies section_sends(e, k) by {
        let i = choose|i: int| 0 <= i < s.len() && !is_skip(#[trigger] s[i]) && s[i].clock <= k < end_of(s[i]);
        if i < f {
            assert(is_skip(s[i]) || end_of(s[i]) <= r);
        } else {
            let j = i - f;
            assert(e.blocks[j] == bs[f + j] && s[i] == bs[i].bv());
            assert(!is_skip(e.blocks[j].bv()) && e.blocks[j].bv().clock + (if j == 0 { e.offset as int } else { 0 }) <= k < end_of(e.blocks[j].bv()));
        }
    }
    if list_sorted(s) {
        assert forall|k: int| #[trigger] section_sends(e, k) implies carries(s, k) && k >= r by {
            let j = choose|j: int| 0 <= j < e.blocks.len() && !is_skip((#[trigger] e.blocks[j]).bv())
                && e.blocks[j].bv().clock + (if j == 0 { e.offset as int } else { 0 }) <= k < end_of(e.blocks[j].bv());
            assert(e.blocks[j] == bs[f + j] && s[f + j] == bs[f + j].bv());
            assert(!is_skip(s[f + j]) && s[f + j].clock <= k < end_of(s[f + j]));
            if j > 0 {
                assert(end_of(s[f]) <= s[f + j].clock);
            }
        }
    }
    if list_contiguous(s) {
        assert forall|j: int| 0 <= j < e.blocks.len() implies
            #[trigger] reader_clock(e, j) == e.blocks[j].bv().clock + (if j == 0 { e.offset as int } else { 0 }) by {
            lemma_reader_clock(e, s, f, j);
        }
    }
}

pub proof fn lemma_reader_clock(e: SelView, s: Seq<BlockView>, f: int, j: int)
    requires
        list_contiguous(s),
        0 <= f,
        e.blocks.len() == s.len() - f,
        forall|i: int| 0 <= i < e.blocks.len() ==> (#[trigger] e.blocks[i]).bv() == s[f + i],
        0 <= j < e.blocks.len(),
    ensures
        reader_clock(e, j) == e.blocks[j].bv().clock + (if j == 0 { e.offset as int } else { 0 }),
    decreases j,
{
    if j > 0 {
        lemma_reader_clock(e, s, f, j - 1);
        assert(e.blocks[j - 1].bv() == s[f + j - 1] && e.blocks[j].bv() == s[f + j]);
        assert(end_of(s[f + j - 1]) == s[f + j].clock);
    }
}

/// C08, `encode_diff` as a whole (the consequence of its contract `sel_listing`): for EVERY client, the written update
/// carries exactly the clocks of `u` that a receiver with state vector `remote` lacks.
pub proof fn lemma_diff_exact(es: Seq<SelView>, u: Map<ClientID, Vec<Block>>, remote: Map<ClientID, u32>, c: ClientID, k: int)
    requires
        upd_ok(u),
        sel_listing(es, u, remote),
    ensures
        // nothing the receiver lacks is omitted
        carries(blocks_of(u, c), k) && k >= sv_get(remote, c) ==> exists|i: int| 0 <= i < es.len() && (#[trigger] es[i]).client == c && section_sends(es[i], k),
        // nothing it already has (and nothing foreign) is sent
        list_sorted(blocks_of(u, c)) ==> forall|i: int| 0 <= i < es.len() && (#[trigger] es[i]).client == c && section_sends(es[i], k)
            ==> carries(blocks_of(u, c), k) && k >= sv_get(remote, c),
{
    let s = blocks_of(u, c);
    let r = sv_get(remote, c) as int;
    if carries(s, k) && k >= r {
        assert(u.contains_key(c));
        assert(s == views(u[c]@));
        lemma_sel_start(s, r, 0);
        let i0 = choose|i: int| 0 <= i < s.len() && !is_skip(#[trigger] s[i]) && s[i].clock <= k < end_of(s[i]);
        // the carrying block is not one of the skipped ones, so the client is selected
        if sel_start(s, r, 0) >= s.len() {
            assert(is_skip(s[i0]) || end_of(s[i0]) <= r);
        }
        assert(selected(u, remote, c));
        let i = choose|i: int| 0 <= i < es.len() && (#[trigger] es[i]).client == c;
        lemma_section_exact(es[i], u, remote);
    }
    if list_sorted(s) {
        assert forall|i: int| 0 <= i < es.len() && (#[trigger] es[i]).client == c && section_sends(es[i], k)
            implies carries(s, k) && k >= r by {
            lemma_section_exact(es[i], u, remote);
        }
    }
}

// ---------------------------------------------------------------------------------------------
// the real code: Update::state_vector, Update::state_vector_lower, Update::encode_diff, <Update as Encode>::encode
// ---------------------------------------------------------------------------------------------
impl Update {
    // C08 / encode_state_vector_from_update.  Inner loop: `first_skip(s, 0) == first_skip(s, index)` says that no Skip
    // has been met so far; at the `break` the block is the first Skip, at the normal exit there is none.
    /*@extract yrs/src/update.rs | impl Update | fn state_vector | label=Update.state_vector
    @ret r
    @sig
        requires
            upd_ok(self.blocks.clients@),
        ensures
            forall|c: ClientID| sv_get(r@, c) == sv_upper(blocks_of(self.blocks.clients@, c)),
    @start
        let ghost u = self.blocks.clients@;
        let ghost mut vx_seen = ISet::<ClientID>::empty();
    @loop 1 iter=it
        invariant
            u == self.blocks.clients@,
            upd_ok(u),
            iter_of(it.snapshot@.remaining(), u),
            0 <= it.index@ <= it.snapshot@.remaining().len(),
            vx_seen =~= keys_upto(it.snapshot@.remaining(), it.index@),
            forall|c: ClientID| sv_get(sv@, c) == (if vx_seen.contains(c) { sv_upper(blocks_of(u, c)) } else { 0 }),
    @before 1 `stmt:let last_clock`
        let ghost s = views(blocks@);
        proof {
            lemma_keys_upto_step(it.snapshot@.remaining(), u, it.index@);
            assert(u.contains_key(*client) && u[*client] == *blocks);
        }
    @loop 2 iter=it2
        invariant_except_break
            first_skip(s, 0) == first_skip(s, it2.index@ as int),
            last_clock == (if it2.index@ == 0 { 0 } else { end_of(s[it2.index@ - 1]) }),
        invariant
            s == views(blocks@),
            list_ok(s),
            it2.seq().len() == blocks@.len(),
            forall|j: int| 0 <= j < blocks@.len() ==> *(#[trigger] it2.seq()[j]) == blocks@[j],
        ensures
            last_clock == (if first_skip(s, 0) == 0 { 0 } else { end_of(s[first_skip(s, 0) - 1]) }),
    @after 1 `stmt:if`
        proof {
            vx_seen = vx_seen.insert(*client);
        }
    @before 1 `stmt:expr sv`
        proof {
            assert(forall|c: ClientID| u.contains_key(c) ==> vx_seen.contains(c));
        }
    @*/
}

// One STEP of `state_vector` once more, lifted on its own (R18 statement region; same source text): what is computed for
// one client's list.  As a function of its own its result is a CONTRACT clause (see the note at `encode_diff_offset`).
/*@extract yrs/src/update.rs | impl Update | region state_vector | stmt=stmt:let last_clock | upto=stmt:if | tail=last_clock | label=state_vector_client
@header
    fn state_vector_client(blocks: &Vec<Block>) -> (r: u32)
@sig
    requires
        list_ok(views(blocks@)),
    ensures
        r == sv_upper(views(blocks@)),
@start
    let ghost s = views(blocks@);
@loop 1 iter=it2
    invariant_except_break
        first_skip(s, 0) == first_skip(s, it2.index@ as int),
        last_clock == (if it2.index@ == 0 { 0 } else { end_of(s[it2.index@ - 1]) }),
    invariant
        s == views(blocks@),
        list_ok(s),
        it2.seq().len() == blocks@.len(),
        forall|j: int| 0 <= j < blocks@.len() ==> *(#[trigger] it2.seq()[j]) == blocks@[j],
    ensures
        last_clock == (if first_skip(s, 0) == 0 { 0 } else { end_of(s[first_skip(s, 0) - 1]) }),
@*/

impl Update {
    /*@extract yrs/src/update.rs | impl Update | fn state_vector_lower | label=Update.state_vector_lower
    @ret r
    @sig
        requires
            upd_ok(self.blocks.clients@),
        ensures
            forall|c: ClientID| sv_get(r@, c) == sv_lower(blocks_of(self.blocks.clients@, c)),
    @start
        let ghost u = self.blocks.clients@;
        let ghost mut vx_seen = ISet::<ClientID>::empty();
    @loop 1 iter=it
        invariant
            u == self.blocks.clients@,
            upd_ok(u),
            iter_of(it.snapshot@.remaining(), u),
            0 <= it.index@ <= it.snapshot@.remaining().len(),
            vx_seen =~= keys_upto(it.snapshot@.remaining(), it.index@),
            forall|c: ClientID| sv_get(sv@, c) == (if vx_seen.contains(c) { sv_lower(blocks_of(u, c)) } else { 0 }),
    @before 2 `stmt:for`
        let ghost s = views(blocks@);
        let ghost sv0 = sv@;
        proof {
            lemma_keys_upto_step(it.snapshot@.remaining(), u, it.index@);
            assert(u.contains_key(*client) && u[*client] == *blocks);
        }
    @loop 2 iter=it2
        invariant_except_break
            first_non_skip(s, 0) == first_non_skip(s, it2.index@ as int),
            sv@ == sv0,
        invariant
            s == views(blocks@),
            list_ok(s),
            sv_get(sv0, *client) == 0,
            it2.seq().len() == blocks@.len(),
            forall|j: int| 0 <= j < blocks@.len() ==> *(#[trigger] it2.seq()[j]) == blocks@[j],
        ensures
            forall|x: ClientID| sv_get(sv@, x) == (if x == *client { sv_lower(s) } else { sv_get(sv0, x) as int }),
    @after 2 `stmt:for`
        proof {
            vx_seen = vx_seen.insert(*client);
        }
    @before 1 `stmt:expr sv`
        proof {
            assert(forall|c: ClientID| u.contains_key(c) ==> vx_seen.contains(c));
        }
    @*/
}


impl Update {
    // C08 / diff_updates.  Loops: 1 = clients of the update (selection), 2 = `while let` over one client's list up to the
    // first selected block, 3 = `while let` that pushes the rest of the list, 4 = sections in writing order, 5 = blocks of a
    // section after the first.  The cursor of loops 2/3 is read off the slice iterator (`pos`, `cursor_ok`); `sel_done` is
    // what loop 2 leaves in `clients` for the current client; `lemma_sel_step` folds it into `sel_inv`; `lemma_sorted_listing`
    // takes `sel_inv` through the two trusted std stand-ins to `sel_listing`; loops 4/5 follow `emit_sections`/`emit_blocks`.
    /*@extract yrs/src/update.rs | impl Update | fn encode_diff | label=Update.encode_diff
    @sig
        requires
            upd_ok(self.blocks.clients@),
            upd_items_ok(self.blocks.clients@),
        ensures
            exists|es: Seq<SelView>| sel_listing(es, self.blocks.clients@, remote_sv@)
                && final(encoder).log() == emit_update(old(encoder).log(), es, self.delete_set),
    @after 1 `stmt:let clients`
        let ghost u = self.blocks.clients@;
        let ghost remote = remote_sv@;
        let ghost l0 = encoder.log();
        let ghost mut vx_seen = ISet::<ClientID>::empty();
    @loop 1 iter=it
        invariant
            u == self.blocks.clients@,
            remote == remote_sv@,
            encoder.log() == l0,
            upd_ok(u),
            iter_of(it.snapshot@.remaining(), u),
            0 <= it.index@ <= it.snapshot@.remaining().len(),
            vx_seen =~= keys_upto(it.snapshot@.remaining(), it.index@),
            sel_inv(clients@, u, remote, vx_seen),
    @after 1 `stmt:let iter`
        let ghost rem0 = iter.remaining();
        let ghost bs = blocks@;
        let ghost s = views(bs);
        let ghost rc = remote_clock as int;
        let ghost m0 = clients@;
        proof {
            lemma_keys_upto_step(it.snapshot@.remaining(), u, it.index@);
            assert(u.contains_key(*client) && u[*client] == *blocks);
            assert(list_ok(s));
        }
    @loop 2
        invariant
            iter.obeys_prophetic_iter_laws(),
            iter.decrease() is Some,
            bs == blocks@,
            s == views(bs),
            list_ok(s),
            rc == remote_clock,
            rem0.len() == bs.len(),
            forall|j: int| 0 <= j < bs.len() ==> *(#[trigger] rem0[j]) == bs[j],
            !m0.contains_key(*client),
            cursor_ok(rem0, iter.remaining(), curr),
            curr is Some ==> clients@ == m0 && sel_start(s, rc, 0) == sel_start(s, rc, pos(rem0, iter.remaining(), curr)),
            curr is None ==> sel_done(clients@, m0, *client, bs, rc),
        ensures
            sel_done(clients@, m0, *client, bs, rc),
        decreases (if curr is Some { iter.decrease().unwrap() + 1 } else { 0nat }),
    @closure 1 `|| -> (vx_r: (u32, Vec<&Block>))`
        ensures vx_r.1@.len() == 0,
    @before 1 `stmt:let e`
        let ghost k = pos(rem0, iter.remaining(), curr);
        let ghost off = sel_offset(s[k], rc);
        proof {
            assert(*block == bs[k]);
            assert(sel_start(s, rc, 0) == k);
        }
    @loop 3
        invariant
            iter.obeys_prophetic_iter_laws(),
            iter.decrease() is Some,
            rem0.len() == bs.len(),
            0 <= k < bs.len(),
            cursor_ok(rem0, iter.remaining(), curr),
            k < pos(rem0, iter.remaining(), curr) <= bs.len(),
            e.0 == off,
            e.1@ =~= rem0.subrange(k, pos(rem0, iter.remaining(), curr)),
        ensures
            curr is None,
            e.0 == off,
            e.1@ =~= rem0.subrange(k, bs.len() as int),
        decreases (if curr is Some { iter.decrease().unwrap() + 1 } else { 0nat }),
    @after 1 `stmt:if`
        proof {
            assert(sel_start(s, rc, bs.len() as int) == bs.len());
            if clients@ != m0 {
                assert(sel_entry_ok(clients@[*client], bs, rc));
            }
        }
    @after 1 `stmt:while`
        proof {
            lemma_sel_step(clients@, m0, u, remote, vx_seen, *client);
            vx_seen = vx_seen.insert(*client);
        }
    @before 1 `stmt:let sorted_clients`
        proof {
            // every client of the update has been looked at: `clients` is the selection (`sel_inv` over all clients)
            assert(forall|c: ClientID| selected(u, remote, c) ==> vx_seen.contains(c));
            assert(sel_inv(clients@, u, remote, ISet::full()));
        }
    @after 1 `stmt:let sorted_clients`
        let ghost v0 = sorted_clients@;
    @after 1 `stmt:call vx_sort_by_client_desc`
        let ghost v = sorted_clients@;
        let ghost es = sel_views(v);
        proof {
            lemma_sorted_listing(clients@, u, remote, v0, v);
        }
    @after 1 `stmt:call write_var`
        let ghost l1 = encoder.log();
    @loop 4 iter=it
        invariant
            it.seq() == v,
            es == sel_views(v),
            sel_listing(es, u, remote),
            upd_ok(u),
            upd_items_ok(u),
            encoder.log() == emit_sections(l1, es, it.index@ as int),
    @before 2 `stmt:call write_var`
        let ghost i = it.index@ as int;
        let ghost e = es[i];
        let ghost lb = encoder.log();
        proof {
            assert(e == sel_view(vx_e));
            lemma_section_encodable(e, u, remote);
            assert(forall|j: int| 0 <= j < blocks@.len() ==> *(#[trigger] blocks@[j]) == e.blocks[j]);
        }
    @after 3 `stmt:call write_var`
        let ghost l3 = encoder.log();
        proof {
            assert(l3 == emit_section_head(lb, e));
            assert(emit_blocks(l3, e.blocks, e.offset, 0) == l3);
        }
    @loop 5
        invariant
            1 <= i <= blocks@.len(),
            blocks@.len() == e.blocks.len(),
            forall|j: int| 0 <= j < blocks@.len() ==> *(#[trigger] blocks@[j]) == e.blocks[j],
            section_encodable(e),
            encoder.log() == emit_blocks(l3, e.blocks, e.offset, i as int),
    @after 3 `stmt:for`
        proof {
            assert(encoder.log() == emit_section(lb, e));
        }
    @before 1 `stmt:call encode_id_set`
        proof {
            assert(encoder.log() == emit_sections(l1, es, es.len() as int));
        }
    @*/
}

// Two STEPS of `encode_diff` once more, each lifted on its own (R18 statement regions; same source text).  The point is the
// verdict level: an edit of these statements then fails a CONTRACT clause of a real-code function (post) and not only a
// loop invariant / assert spliced into `Update.encode_diff` (a proof hint).
//   step 1: the offset stored for the first selected block
/*@extract yrs/src/update.rs | impl Update | region encode_diff | stmt=stmt:assign e | stmtnth=1 | label=encode_diff_offset
@header
    fn encode_diff_offset(e: &mut (u32, Vec<&Block>), remote_clock: u32, block: &Block)
@sig
    ensures
        final(e).0 == sel_offset(block.bv(), remote_clock as int),
        final(e).1 == old(e).1,
@*/

//   step 2: one client section (the body of the writing loop)
/*@extract yrs/src/update.rs | impl Update | region encode_diff | stmt=stmt:call write_var | stmtnth=2 | upto=stmt:for | uptonth=3 | label=encode_diff_section
@header
    fn encode_diff_section<E: Encoder>(encoder: &mut E, client: ClientID, offset: &u32, blocks: &Vec<&Block>)
@sig
    requires
        section_encodable(section_view(client, *offset, blocks@)),
    ensures
        final(encoder).log() == emit_section(old(encoder).log(), section_view(client, *offset, blocks@)),
@start
    let ghost e = section_view(client, *offset, blocks@);
    let ghost lb = encoder.log();
    proof {
        // (facts about the view only: they cannot fail, whatever the code does)
        assert(e.blocks.len() == blocks@.len() && e.blocks[0] == *blocks@[0]);
    }
@before 1 `stmt:call encode_with_offset`
    let ghost l3 = encoder.log();
    proof {
        assert(emit_blocks(l3, e.blocks, e.offset, 0) == l3);
    }
@loop 1
    invariant
        1 <= i <= blocks@.len(),
        blocks@.len() == e.blocks.len(),
        forall|j: int| 0 <= j < blocks@.len() ==> *(#[trigger] blocks@[j]) == e.blocks[j],
        section_encodable(e),
        l3 == emit_section_head(lb, e) ==> encoder.log() == emit_blocks(l3, e.blocks, e.offset, i as int),
@*/

impl Update {
    // real: `impl Encode for Update` (emitted as an inherent method: a trait-method impl cannot carry `requires`).
    // The whole update is the diff against the empty state vector: every client that has a non-skip block of positive
    // end clock gets a section, from its first such block on, with offset 0.
    /*@extract yrs/src/update.rs | impl Encode for Update | fn encode | label=Update.encode
    @sig
        requires
            upd_ok(self.blocks.clients@),
            upd_items_ok(self.blocks.clients@),
        ensures
            exists|es: Seq<SelView>| sel_listing(es, self.blocks.clients@, Map::<ClientID, u32>::empty())
                && final(encoder).log() == emit_update(old(encoder).log(), es, self.delete_set),
    @*/
}

} // verus!
fn main() {}
