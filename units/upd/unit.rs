// unit `upd` -- the document-free update functions (yrs/src/update.rs, yrs/src/block.rs).  Serves C08 (kernel only).
#![allow(unused_imports, unused_variables, unused_mut, dead_code, unused_parens, unused_braces, unused_assignments)]
use vstd::prelude::*;
use std::collections::HashMap;
use vstd::std_specs::iter::IteratorSpec;

verus! {

/*@rules R9 R10
   SUB(from=HashMap<ClientID, VecDeque<Block>, BuildHasherDefault<ClientHasher>>;;to=HashMap<ClientID, Vec<Block>>)
   SUB(from=HashMap<ClientID, u32, BuildHasherDefault<ClientHasher>>;;to=HashMap<ClientID, u32>)
   SUB(from=for (&client, blocks) in;;to=for (client, blocks) in)
   SUB(from=(client, last_clock);;to=(*client, last_clock))
   SUB(from=(client, id.clock);;to=(*client, id.clock))
   SUB(from=x.as_ref().into();;to=vx_item_ptr(x))
   SUB(from=slice.encode(encoder);;to=E::encode_item_slice(&slice, encoder))
@*/

pub mod vx_base {
    use vstd::prelude::*;
    use core::ops::Range;
/*@include vx/prelude.rs @*/
}
use vx_base::*;

#[derive(PartialEq, Eq, Structural, Clone, Copy, Hash)]
pub struct ClientID(pub u64);

pub mod vx_trusted {
    use vstd::prelude::*;
    use vstd::std_specs::hash::*;
    use std::collections::HashMap;
    use super::ClientID;

    #[verifier::external_body] pub broadcast proof fn axiom_client_id_key_model()
        ensures
            #[trigger] obeys_key_model::<ClientID>(),
    {
    }
}
use vx_trusted::*;

broadcast use axiom_client_id_key_model;

#[derive(Copy, Clone, PartialEq, Eq, Structural)]
/*@extract yrs/src/block.rs | - | struct ID @*/

#[derive(Copy, Clone, PartialEq, Eq, Structural)]
/*@extract yrs/src/block.rs | - | struct BlockRange @*/

pub struct ItemRest(pub u64);

pub struct Item {
    pub id: ID,
    pub len: u32,
    pub vx_rest: ItemRest,
}

/*@extract yrs/src/block.rs | - | enum Block @*/

/*@extract yrs/src/update.rs | - | struct BlockSet @*/

pub struct IdSet(pub u64);

/*@extract yrs/src/update.rs | - | struct Update @*/

/*@extract yrs/src/state_vector.rs | - | struct StateVector @*/

impl View for StateVector {
    type V = Map<ClientID, u32>;

    closed spec fn view(&self) -> Map<ClientID, u32> {
        self.0@
    }
}

pub open spec fn sv_get(m: Map<ClientID, u32>, c: ClientID) -> u32 {
    if m.contains_key(c) { m[c] } else { 0 }
}

pub open spec fn max_u32(a: u32, b: u32) -> u32 {
    if a >= b { a } else { b }
}

pub open spec fn sv_join(a: Map<ClientID, u32>, b: Map<ClientID, u32>) -> Map<ClientID, u32> {
    Map::new(a.dom().union(b.dom()), |c: ClientID| max_u32(sv_get(a, c), sv_get(b, c)))
}

pub open spec fn sv_single(c: ClientID, k: u32) -> Map<ClientID, u32> {
    Map::<ClientID, u32>::empty().insert(c, k)
}

impl Default for StateVector {
    fn default() -> (r: Self)
        ensures r@ == Map::<ClientID, u32>::empty(),
    {
        StateVector(HashMap::new())
    }
}

impl StateVector {
    // proved in unit sv
    #[verifier::external_body]
    /*@extract yrs/src/state_vector.rs | impl StateVector | fn get
    @ret r
    @sig
        ensures
            r == sv_get(self@, *client_id),
    @*/

    // proved in unit sv
    #[verifier::external_body]
    /*@extract yrs/src/state_vector.rs | impl StateVector | fn set_max
    @sig
        ensures
            // pointwise join with the single entry (client, clock)
            forall|x: ClientID| sv_get(final(self)@, x) == (if x == client { max_u32(sv_get(old(self)@, client), clock) } else { sv_get(old(self)@, x) }),
            final(self)@ == old(self)@.insert(client, max_u32(sv_get(old(self)@, client), clock)),
            final(self)@ == sv_join(old(self)@, sv_single(client, clock)),
    @*/
}

// ---------------------------------------------------------------------------------------------
// views
// ---------------------------------------------------------------------------------------------
pub enum Kind { Item, GC, Skip }

pub struct BlockView {
    pub clock: int,
    pub len: int,
    pub kind: Kind,
}

impl Block {
    pub open spec fn bv(&self) -> BlockView {
        match self {
            Block::Item(x) => BlockView { clock: x.id.clock as int, len: x.len as int, kind: Kind::Item },
            Block::GC(r) => BlockView { clock: r.clock as int, len: r.len as int, kind: Kind::GC },
            Block::Skip(r) => BlockView { clock: r.clock as int, len: r.len as int, kind: Kind::Skip },
        }
    }

    pub open spec fn spec_client(&self) -> ClientID {
        match self {
            Block::Item(x) => x.id.client,
            Block::GC(r) => r.client,
            Block::Skip(r) => r.client,
        }
    }
}

pub open spec fn views(bs: Seq<Block>) -> Seq<BlockView> {
    Seq::new(bs.len(), |i: int| bs[i].bv())
}

pub open spec fn blocks_of(u: Map<ClientID, Vec<Block>>, c: ClientID) -> Seq<BlockView> {
    if u.contains_key(c) { views(u[c]@) } else { Seq::empty() }
}

pub open spec fn is_skip(b: BlockView) -> bool {
    b.kind is Skip
}

pub open spec fn end_of(b: BlockView) -> int {
    b.clock + b.len
}

pub open spec fn list_ok(s: Seq<BlockView>) -> bool {
    forall|i: int| 0 <= i < s.len() ==> 0 <= (#[trigger] s[i]).clock && 0 <= s[i].len && end_of(s[i]) <= u32::MAX && (s[i].kind is Item ==> s[i].len >= 1)
}

pub open spec fn list_contiguous(s: Seq<BlockView>) -> bool {
    forall|i: int, j: int| 0 <= i && j == i + 1 && j < s.len() ==> end_of(#[trigger] s[i]) == (#[trigger] s[j]).clock
}

pub open spec fn upd_ok(u: Map<ClientID, Vec<Block>>) -> bool {
    forall|c: ClientID| #[trigger] u.contains_key(c) ==> list_ok(views(u[c]@))
}

pub open spec fn upd_wf(u: Map<ClientID, Vec<Block>>) -> bool {
    forall|c: ClientID| #[trigger] u.contains_key(c) ==> list_ok(views(u[c]@)) && list_contiguous(views(u[c]@))
}

/// index of the first Skip at or after `i` (the length of the list if there is none)
pub open spec fn first_skip(s: Seq<BlockView>, i: int) -> int
    decreases s.len() - i,
{
    if i < 0 || i >= s.len() || is_skip(s[i]) { i } else { first_skip(s, i + 1) }
}

pub open spec fn sv_upper(s: Seq<BlockView>) -> int {
    if s.len() > 0 && s[0].clock == 0 {
        let n = first_skip(s, 0);
        if n == 0 { 0 } else { end_of(s[n - 1]) }
    } else {
        0
    }
}

/// first non-skip block's clock (0 if there is none)
pub open spec fn first_non_skip(s: Seq<BlockView>, i: int) -> int
    decreases s.len() - i,
{
    if i < 0 || i >= s.len() || !is_skip(s[i]) { i } else { first_non_skip(s, i + 1) }
}

pub open spec fn sv_lower(s: Seq<BlockView>) -> int {
    let n = first_non_skip(s, 0);
    if n < s.len() { s[n].clock } else { 0 }
}

// ---- iteration over a HashMap
pub open spec fn iter_of<V>(s: Seq<(&ClientID, &V)>, m: Map<ClientID, V>) -> bool {
    &&& s.len() == m.len()
    &&& s.no_duplicates()
    &&& forall|i: int| 0 <= i < s.len() ==> m.contains_key(*(#[trigger] s[i]).0) && m[*s[i].0] == *s[i].1
    &&& forall|k: ClientID| m.contains_key(k) ==> exists|i: int| 0 <= i < s.len() && *(#[trigger] s[i]).0 == k
}

pub open spec fn keys_upto<V>(s: Seq<(&ClientID, &V)>, n: int) -> ISet<ClientID> {
    ISet::new(|c: ClientID| exists|j: int| 0 <= j < n && *(#[trigger] s[j]).0 == c)
}

pub proof fn lemma_keys_upto_step<V>(s: Seq<(&ClientID, &V)>, m: Map<ClientID, V>, n: int)
    requires
        iter_of(s, m),
        0 <= n < s.len(),
    ensures
        keys_upto(s, n + 1) == keys_upto(s, n).insert(*s[n].0),
        !keys_upto(s, n).contains(*s[n].0),
        m.contains_key(*s[n].0),
        m[*s[n].0] == *s[n].1,
        forall|c: ClientID| keys_upto(s, n).contains(c) ==> m.contains_key(c),
{
    let c = *s[n].0;
    assert forall|x: ClientID| keys_upto(s, n + 1).contains(x) <==> keys_upto(s, n).insert(c).contains(x) by {
        if keys_upto(s, n + 1).contains(x) {
            let j = choose|j: int| 0 <= j < n + 1 && *(#[trigger] s[j]).0 == x;
            if j < n {
                assert(0 <= j < n && *s[j].0 == x);
            }
        }
        if keys_upto(s, n).contains(x) {
            let j = choose|j: int| 0 <= j < n && *(#[trigger] s[j]).0 == x;
            assert(0 <= j < n + 1 && *s[j].0 == x);
        }
        if x == c {
            assert(0 <= n < n + 1 && *s[n].0 == x);
        }
    }
    assert(keys_upto(s, n + 1) =~= keys_upto(s, n).insert(c));
    if keys_upto(s, n).contains(c) {
        let j = choose|j: int| 0 <= j < n && *(#[trigger] s[j]).0 == c;
        assert(m[*s[j].0] == *s[j].1 && m[*s[n].0] == *s[n].1);
        assert(s[j] == s[n]);
        assert(false);
    }
    assert forall|x: ClientID| keys_upto(s, n).contains(x) implies m.contains_key(x) by {
        let j = choose|j: int| 0 <= j < n && *(#[trigger] s[j]).0 == x;
        assert(m.contains_key(*s[j].0));
    }
}

pub proof fn lemma_keys_upto_all<V>(s: Seq<(&ClientID, &V)>, m: Map<ClientID, V>)
    requires
        iter_of(s, m),
    ensures
        forall|x: ClientID| keys_upto(s, s.len() as int).contains(x) <==> m.contains_key(x),
{
    assert forall|x: ClientID| keys_upto(s, s.len() as int).contains(x) <==> m.contains_key(x) by {
        if keys_upto(s, s.len() as int).contains(x) {
            let j = choose|j: int| 0 <= j < s.len() && *(#[trigger] s[j]).0 == x;
            assert(m.contains_key(*s[j].0));
        }
        if m.contains_key(x) {
            let j = choose|j: int| 0 <= j < s.len() && *(#[trigger] s[j]).0 == x;
            assert(0 <= j < s.len() as int && *s[j].0 == x);
        }
    }
}

// ---------------------------------------------------------------------------------------------
// real code: block accessors
// ---------------------------------------------------------------------------------------------
impl ID {
    /*@extract yrs/src/block.rs | impl ID | fn new | label=ID.new
    @ret r
    @sig
        ensures r.client == client, r.clock == clock,
    @*/
}

impl BlockRange {
    /*@extract yrs/src/block.rs | impl BlockRange | fn id | label=BlockRange.id
    @ret r
    @sig
        ensures r.client == self.client, r.clock == self.clock,
    @*/
}

impl Item {
    /*@extract yrs/src/block.rs | impl Item | fn id | label=Item.id
    @ret r
    @sig
        ensures *r == self.id,
    @*/

    /*@extract yrs/src/block.rs | impl Item | fn len | label=Item.len
    @ret r
    @sig
        ensures r == self.len,
    @*/
}

impl Block {
    /*@extract yrs/src/block.rs | impl Block | fn id | label=Block.id
    @ret r
    @sig
        ensures r.clock == self.bv().clock, r.client == self.spec_client(),
    @*/

    /*@extract yrs/src/block.rs | impl Block | fn len | label=Block.len
    @ret r
    @sig
        ensures r == self.bv().len,
    @*/

    /*@extract yrs/src/block.rs | impl Block | fn is_skip | label=Block.is_skip
    @ret r
    @sig
        ensures r == is_skip(self.bv()),
    @*/
}


// ---------------------------------------------------------------------------------------------
// the encoder, abstracted to the sequence of tokens written so far (same abstraction as unit header)
// ---------------------------------------------------------------------------------------------
pub enum Tok {
    Info(u8),
    Len(u32),
    Var(int),
    Client(ClientID),
    /// any token written by `ItemSlice::encode` / `IdSet::encode` (opaque here)
    Other(int),
}

pub trait VarInt: Sized + Copy {
    spec fn vx_val(&self) -> int;
}

impl VarInt for u32 {
    open spec fn vx_val(&self) -> int { *self as int }
}

impl VarInt for usize {
    open spec fn vx_val(&self) -> int { *self as int }
}

pub uninterp spec fn item_slice_toks(item: Item, start: u32, end: u32) -> Seq<Tok>;

pub uninterp spec fn id_set_toks(ds: IdSet) -> Seq<Tok>;

pub uninterp spec fn item_parent_known(item: Item) -> bool;

pub struct ItemSlice<'a> {
    pub ptr: &'a Item,
    pub start: u32,
    pub end: u32,
}

impl<'a> ItemSlice<'a> {
    pub open spec fn wf(&self) -> bool {
        &&& self.ptr.len >= 1
        &&& self.ptr.id.clock + self.ptr.len <= u32::MAX
        &&& self.start <= self.end
        &&& self.end < self.ptr.len
    }

    /*@extract yrs/src/slice.rs | impl ItemSlice | fn new | label=ItemSlice.new | rules=SUB(from=ptr: ItemPtr;;to=ptr: &'a Item)
    @ret r
    @sig
        requires start <= end,
        ensures r.ptr == ptr, r.start == start, r.end == end,
    @*/
}

pub fn vx_item_ptr<'a>(x: &'a Box<Item>) -> (r: &'a Item)
    ensures *r == **x,
{
    &**x
}

pub trait Kernels: Sized {
    spec fn log(&self) -> Seq<Tok>;

    fn encode_item_slice(slice: &ItemSlice<'_>, encoder: &mut Self)
        requires
            slice.wf(),
            slice.start == 0 ==> item_parent_known(*slice.ptr),
        ensures
            final(encoder).log() == old(encoder).log() + item_slice_toks(*slice.ptr, slice.start, slice.end),
    ;

    fn encode_id_set(ds: &IdSet, encoder: &mut Self)
        ensures
            final(encoder).log() == old(encoder).log() + id_set_toks(*ds),
    ;
}

pub trait Encoder: Sized + Kernels {
    /*@extract yrs/src/updates/encoder.rs | trait Encoder: Write | fn write_client
    @sig
        ensures final(self).log() == old(self).log().push(Tok::Client(client)),
    @*/

    /*@extract yrs/src/updates/encoder.rs | trait Encoder: Write | fn write_info
    @sig
        ensures final(self).log() == old(self).log().push(Tok::Info(info)),
    @*/

    /*@extract yrs/src/updates/encoder.rs | trait Encoder: Write | fn write_len
    @sig
        ensures final(self).log() == old(self).log().push(Tok::Len(len)),
    @*/

    /// `lib0::Write::write_var::<T: VarInt>` (supertrait `Write`; default body `num.write(self)` dropped)
    fn write_var<T: VarInt>(&mut self, num: T)
        ensures final(self).log() == old(self).log().push(Tok::Var(num.vx_val())),
    ;
}

/*@extract yrs/src/block.rs | - | const BLOCK_GC_REF_NUMBER @*/
/*@extract yrs/src/block.rs | - | const BLOCK_SKIP_REF_NUMBER @*/

/// what `Block::encode_with_offset(offset)` appends
pub open spec fn block_tokens(b: Block, offset: u32) -> Seq<Tok> {
    match b {
        Block::Item(x) => item_slice_toks(*x, offset, (x.len - 1) as u32),
        Block::Skip(r) => seq![Tok::Info(10), Tok::Var(r.len - offset)],
        Block::GC(r) => seq![Tok::Info(0), Tok::Len((r.len - offset) as u32)],
    }
}

/// push form of the same
pub open spec fn emit_block(l: Seq<Tok>, b: Block, offset: u32) -> Seq<Tok> {
    match b {
        Block::Item(x) => l + item_slice_toks(*x, offset, (x.len - 1) as u32),
        Block::Skip(r) => l.push(Tok::Info(10)).push(Tok::Var(r.len - offset)),
        Block::GC(r) => l.push(Tok::Info(0)).push(Tok::Len((r.len - offset) as u32)),
    }
}

pub proof fn lemma_emit_block(l: Seq<Tok>, b: Block, offset: u32)
    ensures
        emit_block(l, b, offset) == l + block_tokens(b, offset),
{
    assert(emit_block(l, b, offset) =~= l + block_tokens(b, offset));
}

/// a block that can be written from `offset` on
pub open spec fn block_encodable(b: Block, offset: u32) -> bool {
    match b {
        Block::Item(x) => x.len >= 1 && x.id.clock + x.len <= u32::MAX && offset < x.len && (offset == 0 ==> item_parent_known(*x)),
        Block::Skip(r) => offset <= r.len,
        Block::GC(r) => offset <= r.len,
    }
}

impl Block {
    /*@extract yrs/src/block.rs | impl Block | fn encode_with_offset | label=Block.encode_with_offset
    @sig
        requires
            block_encodable(*self, offset),
        ensures
            final(encoder).log() == emit_block(old(encoder).log(), *self, offset),
    @*/
}

impl Update {
    /*@extract yrs/src/update.rs | impl Update | fn state_vector | label=Update.state_vector
    @ret r
    @sig
        requires
            upd_ok(self.blocks.clients@),
        ensures
            forall|c: ClientID| sv_get(r@, c) == sv_upper(blocks_of(self.blocks.clients@, c)),
    @start
        let ghost u = self.blocks.clients@;
        let ghost mut vx_seen = ISet::<ClientID>::empty();
    @loop 1 iter=it
        invariant
            u == self.blocks.clients@,
            upd_ok(u),
            iter_of(it.snapshot@.remaining(), u),
            0 <= it.index@ <= it.snapshot@.remaining().len(),
            vx_seen =~= keys_upto(it.snapshot@.remaining(), it.index@),
            forall|c: ClientID| sv_get(sv@, c) == (if vx_seen.contains(c) { sv_upper(blocks_of(u, c)) } else { 0 }),
    @before 1 `stmt:let last_clock`
        let ghost s = views(blocks@);
        proof {
            lemma_keys_upto_step(it.snapshot@.remaining(), u, it.index@);
            assert(u.contains_key(*client) && u[*client] == *blocks);
        }
    @loop 2 iter=it2
        invariant_except_break
            first_skip(s, 0) == first_skip(s, it2.index@ as int),
            last_clock == (if it2.index@ == 0 { 0 } else { end_of(s[it2.index@ - 1]) }),
        invariant
            s == views(blocks@),
            list_ok(s),
            it2.seq().len() == blocks@.len(),
            forall|j: int| 0 <= j < blocks@.len() ==> *(#[trigger] it2.seq()[j]) == blocks@[j],
        ensures
            last_clock == (if first_skip(s, 0) == 0 { 0 } else { end_of(s[first_skip(s, 0) - 1]) }),
    @after 1 `stmt:if`
        proof {
            vx_seen = vx_seen.insert(*client);
        }
    @before 1 `stmt:expr sv`
        proof {
            assert(forall|c: ClientID| u.contains_key(c) ==> vx_seen.contains(c));
        }
    @*/
}

impl Update {
    /*@extract yrs/src/update.rs | impl Update | fn state_vector_lower | label=Update.state_vector_lower
    @ret r
    @sig
        requires
            upd_ok(self.blocks.clients@),
        ensures
            forall|c: ClientID| sv_get(r@, c) == sv_lower(blocks_of(self.blocks.clients@, c)),
    @start
        let ghost u = self.blocks.clients@;
        let ghost mut vx_seen = ISet::<ClientID>::empty();
    @loop 1 iter=it
        invariant
            u == self.blocks.clients@,
            upd_ok(u),
            iter_of(it.snapshot@.remaining(), u),
            0 <= it.index@ <= it.snapshot@.remaining().len(),
            vx_seen =~= keys_upto(it.snapshot@.remaining(), it.index@),
            forall|c: ClientID| sv_get(sv@, c) == (if vx_seen.contains(c) { sv_lower(blocks_of(u, c)) } else { 0 }),
    @before 2 `stmt:for`
        let ghost s = views(blocks@);
        let ghost sv0 = sv@;
        proof {
            lemma_keys_upto_step(it.snapshot@.remaining(), u, it.index@);
            assert(u.contains_key(*client) && u[*client] == *blocks);
        }
    @loop 2 iter=it2
        invariant_except_break
            first_non_skip(s, 0) == first_non_skip(s, it2.index@ as int),
            sv@ == sv0,
        invariant
            s == views(blocks@),
            list_ok(s),
            sv_get(sv0, *client) == 0,
            it2.seq().len() == blocks@.len(),
            forall|j: int| 0 <= j < blocks@.len() ==> *(#[trigger] it2.seq()[j]) == blocks@[j],
        ensures
            forall|x: ClientID| sv_get(sv@, x) == (if x == *client { sv_lower(s) } else { sv_get(sv0, x) as int }),
    @after 2 `stmt:for`
        proof {
            vx_seen = vx_seen.insert(*client);
        }
    @before 1 `stmt:expr sv`
        proof {
            assert(forall|c: ClientID| u.contains_key(c) ==> vx_seen.contains(c));
        }
    @*/
}

} // verus!
fn main() {}
