// unit `upd` -- the document-free update functions (yrs/src/update.rs, yrs/src/block.rs).  Serves C08 (kernel only).
#![allow(unused_imports, unused_variables, unused_mut, dead_code, unused_parens, unused_braces, unused_assignments)]
use vstd::prelude::*;
use std::collections::HashMap;
use vstd::std_specs::iter::IteratorSpec;

verus! {

/*@rules R9 R10
   SUB(from=HashMap<ClientID, VecDeque<Block>, BuildHasherDefault<ClientHasher>>;;to=HashMap<ClientID, Vec<Block>>)
   SUB(from=HashMap<ClientID, u32, BuildHasherDefault<ClientHasher>>;;to=HashMap<ClientID, u32>)
   SUB(from=for (&client, blocks) in;;to=for (client, blocks) in)
   SUB(from=sv.set_max(client,;;to=sv.set_max(*client,)
@*/

pub mod vx_base {
    use vstd::prelude::*;
    use core::ops::Range;
/*@include vx/prelude.rs @*/
}
use vx_base::*;

#[derive(PartialEq, Eq, Structural, Clone, Copy, Hash)]
pub struct ClientID(pub u64);

pub mod vx_trusted {
    use vstd::prelude::*;
    use vstd::std_specs::hash::*;
    use std::collections::HashMap;
    use super::ClientID;

    #[verifier::external_body] pub broadcast proof fn axiom_client_id_key_model()
        ensures
            #[trigger] obeys_key_model::<ClientID>(),
    {
    }
}
use vx_trusted::*;

broadcast use axiom_client_id_key_model;

#[derive(Copy, Clone, PartialEq, Eq, Structural)]
/*@extract yrs/src/block.rs | - | struct ID @*/

#[derive(Copy, Clone, PartialEq, Eq, Structural)]
/*@extract yrs/src/block.rs | - | struct BlockRange @*/

pub struct ItemRest(pub u64);

pub struct Item {
    pub id: ID,
    pub len: u32,
    pub vx_rest: ItemRest,
}

/*@extract yrs/src/block.rs | - | enum Block @*/

/*@extract yrs/src/update.rs | - | struct BlockSet @*/

pub struct IdSet(pub u64);

/*@extract yrs/src/update.rs | - | struct Update @*/

/*@extract yrs/src/state_vector.rs | - | struct StateVector @*/

impl View for StateVector {
    type V = Map<ClientID, u32>;

    closed spec fn view(&self) -> Map<ClientID, u32> {
        self.0@
    }
}

pub open spec fn sv_get(m: Map<ClientID, u32>, c: ClientID) -> u32 {
    if m.contains_key(c) { m[c] } else { 0 }
}

pub open spec fn max_u32(a: u32, b: u32) -> u32 {
    if a >= b { a } else { b }
}

pub open spec fn sv_join(a: Map<ClientID, u32>, b: Map<ClientID, u32>) -> Map<ClientID, u32> {
    Map::new(a.dom().union(b.dom()), |c: ClientID| max_u32(sv_get(a, c), sv_get(b, c)))
}

pub open spec fn sv_single(c: ClientID, k: u32) -> Map<ClientID, u32> {
    Map::<ClientID, u32>::empty().insert(c, k)
}

impl Default for StateVector {
    fn default() -> (r: Self)
        ensures r@ == Map::<ClientID, u32>::empty(),
    {
        StateVector(HashMap::new())
    }
}

impl StateVector {
    // proved in unit sv
    #[verifier::external_body]
    /*@extract yrs/src/state_vector.rs | impl StateVector | fn get
    @ret r
    @sig
        ensures
            r == sv_get(self@, *client_id),
    @*/

    // proved in unit sv
    #[verifier::external_body]
    /*@extract yrs/src/state_vector.rs | impl StateVector | fn set_max
    @sig
        ensures
            // pointwise join with the single entry (client, clock)
            forall|x: ClientID| sv_get(final(self)@, x) == (if x == client { max_u32(sv_get(old(self)@, client), clock) } else { sv_get(old(self)@, x) }),
            final(self)@ == old(self)@.insert(client, max_u32(sv_get(old(self)@, client), clock)),
            final(self)@ == sv_join(old(self)@, sv_single(client, clock)),
    @*/
}

// ---------------------------------------------------------------------------------------------
// views
// ---------------------------------------------------------------------------------------------
pub enum Kind { Item, GC, Skip }

pub struct BlockView {
    pub clock: int,
    pub len: int,
    pub kind: Kind,
}

impl Block {
    pub open spec fn bv(&self) -> BlockView {
        match self {
            Block::Item(x) => BlockView { clock: x.id.clock as int, len: x.len as int, kind: Kind::Item },
            Block::GC(r) => BlockView { clock: r.clock as int, len: r.len as int, kind: Kind::GC },
            Block::Skip(r) => BlockView { clock: r.clock as int, len: r.len as int, kind: Kind::Skip },
        }
    }

    pub open spec fn spec_client(&self) -> ClientID {
        match self {
            Block::Item(x) => x.id.client,
            Block::GC(r) => r.client,
            Block::Skip(r) => r.client,
        }
    }
}

pub open spec fn views(bs: Seq<Block>) -> Seq<BlockView> {
    Seq::new(bs.len(), |i: int| bs[i].bv())
}

pub open spec fn blocks_of(u: Map<ClientID, Vec<Block>>, c: ClientID) -> Seq<BlockView> {
    if u.contains_key(c) { views(u[c]@) } else { Seq::empty() }
}

pub open spec fn is_skip(b: BlockView) -> bool {
    b.kind is Skip
}

pub open spec fn end_of(b: BlockView) -> int {
    b.clock + b.len
}

pub open spec fn list_ok(s: Seq<BlockView>) -> bool {
    forall|i: int| 0 <= i < s.len() ==> 0 <= (#[trigger] s[i]).clock && 0 <= s[i].len && end_of(s[i]) <= u32::MAX && (s[i].kind is Item ==> s[i].len >= 1)
}

pub open spec fn list_contiguous(s: Seq<BlockView>) -> bool {
    forall|i: int, j: int| 0 <= i && j == i + 1 && j < s.len() ==> end_of(#[trigger] s[i]) == (#[trigger] s[j]).clock
}

pub open spec fn upd_wf(u: Map<ClientID, Vec<Block>>) -> bool {
    forall|c: ClientID| #[trigger] u.contains_key(c) ==> list_ok(views(u[c]@)) && list_contiguous(views(u[c]@))
}

/// index of the first Skip at or after `i` (the length of the list if there is none)
pub open spec fn first_skip(s: Seq<BlockView>, i: int) -> int
    decreases s.len() - i,
{
    if i < 0 || i >= s.len() || is_skip(s[i]) { i } else { first_skip(s, i + 1) }
}

pub open spec fn sv_upper(s: Seq<BlockView>) -> int {
    if s.len() > 0 && s[0].clock == 0 {
        let n = first_skip(s, 0);
        if n == 0 { 0 } else { end_of(s[n - 1]) }
    } else {
        0
    }
}

/// first non-skip block's clock (0 if there is none)
pub open spec fn first_non_skip(s: Seq<BlockView>, i: int) -> int
    decreases s.len() - i,
{
    if i < 0 || i >= s.len() || !is_skip(s[i]) { i } else { first_non_skip(s, i + 1) }
}

pub open spec fn sv_lower(s: Seq<BlockView>) -> int {
    let n = first_non_skip(s, 0);
    if n < s.len() { s[n].clock } else { 0 }
}

// ---- iteration over a HashMap
pub open spec fn iter_of<V>(s: Seq<(&ClientID, &V)>, m: Map<ClientID, V>) -> bool {
    &&& s.len() == m.len()
    &&& s.no_duplicates()
    &&& forall|i: int| 0 <= i < s.len() ==> m.contains_key(*(#[trigger] s[i]).0) && m[*s[i].0] == *s[i].1
    &&& forall|k: ClientID| m.contains_key(k) ==> exists|i: int| 0 <= i < s.len() && *(#[trigger] s[i]).0 == k
}

pub open spec fn keys_upto<V>(s: Seq<(&ClientID, &V)>, n: int) -> ISet<ClientID> {
    ISet::new(|c: ClientID| exists|j: int| 0 <= j < n && *(#[trigger] s[j]).0 == c)
}

pub proof fn lemma_keys_upto_step<V>(s: Seq<(&ClientID, &V)>, m: Map<ClientID, V>, n: int)
    requires
        iter_of(s, m),
        0 <= n < s.len(),
    ensures
        keys_upto(s, n + 1) == keys_upto(s, n).insert(*s[n].0),
        !keys_upto(s, n).contains(*s[n].0),
        m.contains_key(*s[n].0),
        m[*s[n].0] == *s[n].1,
        forall|c: ClientID| keys_upto(s, n).contains(c) ==> m.contains_key(c),
{
    let c = *s[n].0;
    assert forall|x: ClientID| keys_upto(s, n + 1).contains(x) <==> keys_upto(s, n).insert(c).contains(x) by {
        if keys_upto(s, n + 1).contains(x) {
            let j = choose|j: int| 0 <= j < n + 1 && *(#[trigger] s[j]).0 == x;
            if j < n {
                assert(0 <= j < n && *s[j].0 == x);
            }
        }
        if keys_upto(s, n).contains(x) {
            let j = choose|j: int| 0 <= j < n && *(#[trigger] s[j]).0 == x;
            assert(0 <= j < n + 1 && *s[j].0 == x);
        }
        if x == c {
            assert(0 <= n < n + 1 && *s[n].0 == x);
        }
    }
    assert(keys_upto(s, n + 1) =~= keys_upto(s, n).insert(c));
    if keys_upto(s, n).contains(c) {
        let j = choose|j: int| 0 <= j < n && *(#[trigger] s[j]).0 == c;
        assert(m[*s[j].0] == *s[j].1 && m[*s[n].0] == *s[n].1);
        assert(s[j] == s[n]);
        assert(false);
    }
    assert forall|x: ClientID| keys_upto(s, n).contains(x) implies m.contains_key(x) by {
        let j = choose|j: int| 0 <= j < n && *(#[trigger] s[j]).0 == x;
        assert(m.contains_key(*s[j].0));
    }
}

pub proof fn lemma_keys_upto_all<V>(s: Seq<(&ClientID, &V)>, m: Map<ClientID, V>)
    requires
        iter_of(s, m),
    ensures
        forall|x: ClientID| keys_upto(s, s.len() as int).contains(x) <==> m.contains_key(x),
{
    assert forall|x: ClientID| keys_upto(s, s.len() as int).contains(x) <==> m.contains_key(x) by {
        if keys_upto(s, s.len() as int).contains(x) {
            let j = choose|j: int| 0 <= j < s.len() && *(#[trigger] s[j]).0 == x;
            assert(m.contains_key(*s[j].0));
        }
        if m.contains_key(x) {
            let j = choose|j: int| 0 <= j < s.len() && *(#[trigger] s[j]).0 == x;
            assert(0 <= j < s.len() as int && *s[j].0 == x);
        }
    }
}

// ---------------------------------------------------------------------------------------------
// real code: block accessors
// ---------------------------------------------------------------------------------------------
impl ID {
    /*@extract yrs/src/block.rs | impl ID | fn new | label=ID.new
    @ret r
    @sig
        ensures r.client == client, r.clock == clock,
    @*/
}

impl BlockRange {
    /*@extract yrs/src/block.rs | impl BlockRange | fn id | label=BlockRange.id
    @ret r
    @sig
        ensures r.client == self.client, r.clock == self.clock,
    @*/
}

impl Item {
    /*@extract yrs/src/block.rs | impl Item | fn id | label=Item.id
    @ret r
    @sig
        ensures *r == self.id,
    @*/

    /*@extract yrs/src/block.rs | impl Item | fn len | label=Item.len
    @ret r
    @sig
        ensures r == self.len,
    @*/
}

impl Block {
    /*@extract yrs/src/block.rs | impl Block | fn id | label=Block.id
    @ret r
    @sig
        ensures r.clock == self.bv().clock, r.client == self.spec_client(),
    @*/

    /*@extract yrs/src/block.rs | impl Block | fn len | label=Block.len
    @ret r
    @sig
        ensures r == self.bv().len,
    @*/

    /*@extract yrs/src/block.rs | impl Block | fn is_skip | label=Block.is_skip
    @ret r
    @sig
        ensures r == is_skip(self.bv()),
    @*/
}

impl Update {
    /*@extract yrs/src/update.rs | impl Update | fn state_vector | label=Update.state_vector
    @ret r
    @sig
        requires
            upd_wf(self.blocks.clients@),
        ensures
            forall|c: ClientID| sv_get(r@, c) == sv_upper(blocks_of(self.blocks.clients@, c)),
    @start
        let ghost u = self.blocks.clients@;
        let ghost mut vx_seen = ISet::<ClientID>::empty();
    @loop 1 iter=it
        invariant
            u == self.blocks.clients@,
            upd_wf(u),
            iter_of(it.snapshot@.remaining(), u),
            0 <= it.index@ <= it.snapshot@.remaining().len(),
            vx_seen =~= keys_upto(it.snapshot@.remaining(), it.index@),
            forall|c: ClientID| sv_get(sv@, c) == (if vx_seen.contains(c) { sv_upper(blocks_of(u, c)) } else { 0 }),
    @before 1 `stmt:let last_clock`
        let ghost s = views(blocks@);
        proof {
            lemma_keys_upto_step(it.snapshot@.remaining(), u, it.index@);
            assert(u.contains_key(*client) && u[*client] == *blocks);
        }
    @loop 2 iter=it2
        invariant
            s == views(blocks@),
            list_ok(s),
            it2.seq().len() == blocks@.len(),
            forall|j: int| 0 <= j < blocks@.len() ==> *(#[trigger] it2.seq()[j]) == blocks@[j],
            first_skip(s, 0) == first_skip(s, it2.index@ as int),
            last_clock == (if it2.index@ == 0 { 0 } else { end_of(s[it2.index@ - 1]) }),
        ensures
            last_clock == (if first_skip(s, 0) == 0 { 0 } else { end_of(s[first_skip(s, 0) - 1]) }),
    @after 1 `stmt:if`
        proof {
            vx_seen = vx_seen.insert(*client);
        }
    @before 1 `stmt:expr sv`
        proof {
            assert(forall|c: ClientID| u.contains_key(c) ==> vx_seen.contains(c));
        }
    @*/
}

} // verus!
fn main() {}
