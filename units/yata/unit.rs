// unit `yata` -- the conflict resolution of the YATA integration (yrs/src/block.rs): `Item::detect_conflict(&self) -> bool` and
// `Item::resolve_conflict(&mut self, blocks: &mut BlockStore)`, the two functions `TransactionMut::integrate_item` calls to find
// the position of a new item among the items that were inserted concurrently at the same place.
// Named by C01 (mechanism "YATA integration: origin/right-origin + client-id tie break") and C04 (mechanism "conflict scan
// between origin and right origin").  KERNEL ONLY: what IS per-call is stated as a contract of the real code for ALL lists and
// items; what needs more than one call is stated as pure theorems over the contract's specification (L1, L2, L3 below).  NO
// claim of convergence in general is made (see "WHAT IS AND IS NOT IMPLIED").
//
// THE VIEW.  `resolve_conflict` READS the list through pointers and writes only `self.left` (last statement).  The new item is
// `me = *old(self)`; the list is L = rights(first_conflict(me)) = [o, o.right, o.right.right, ...] where `o` is the first
// conflicting item: `me.left.right`, or (no left, `parent_sub` = key) the LEFT-MOST item of the chain of `parent.map[key]`, or
// `parent.start`.  Each member is seen as `Node { id, len, origin, right_origin, home }` with `home` = the id of the item
// `blocks.get_item(origin)` returns (None: no origin / no such Item block); `me` as `Me { client, origin, right_origin, right }`
// (`right` = id of `me.right`).  Over s = nodes(L), m = me_of(me), ALL predicates are statements about POSITIONS in L:
//     pos_of(s, id)            first position whose item has that id (|s| if none)
//     right_ix(s, m)           position of the right neighbour (|s| if me.right is None or not a member of L)
//     origin_pos(s, j)         position of the item that holds s[j]'s origin (|s| if it is not a member of L)
//     same_origin / lower / twin / open_case (m, c)    c.origin == me.origin, and then: c.client < me.client / not lower and same
//                              right origin / not lower and different right origin      [THE TIE-BREAK, a function of (c, me)]
//     foreign(s, m, j)         another origin, and it is NOT among s[0..=j]  (it lies LEFT of the list, i.e. at or before me's
//                              origin in document order -- "origin crossing" --, or nowhere)
//     ends_scan(s, m, j)       twin(m, s[j]) || foreign(s, m, j)
//     scan_end(s, m)  =: e     the FIRST j < right_ix with ends_scan, else right_ix           (least index with a pointwise property)
//     wants_left(s, m, j, c)   lower(m, s[j]) || (another origin && origin_pos(s, j) < c): seen from a new item standing at
//                              position c (= directly before s[c]), item j belongs LEFT of it
//     closed(s, m, c, e)       no item in [c, e) wants to be left of position c
//     cut_at(s, m, e)          the LEAST c in [0, e] with closed(c, e);    yata_cut(s, m) =: c = cut_at(s, m, scan_end(s, m))
//     place(L, left0, c)       the left neighbour that goes with position c: left0 (the incoming one) for c == 0, else L[c-1]
//     pulls(s, m, k)           wants_left(s, m, k, cut_at(s, m, k)): item k wants to be left of the position chosen for s[0..k)
//
// CONTRACT of `resolve_conflict` (requires H0-H2 below; e, c, r = scan_end, yata_cut, right_ix):
//   (P1) PLACEMENT     0 <= c <= e <= r <= |L|  and  final(self).left == place(L, old(self).left, c): the incoming left or a member
//                      of L strictly before the right neighbour; with no right neighbour in L the scan may run to the end of L.
//   (P2) TIE-BREAK among the scanned items c = s[j] with c.origin == me.origin (p2_tie_break)
//          lower client id                                 ==> c is LEFT of me (j < c), whatever the right origins
//          client id not lower, SAME right origin  (j < r) ==> c is RIGHT of me, and the scan ENDS there (c <= e <= j)
//          client id not lower, DIFFERENT right origin     ==> c is RIGHT of me UNLESS a LATER scanned item pulls:
//                                                              j < c  <==>  exists k in (j, e): pulls(s, m, k)
//        [derived from the code, `lemma_pull_rule`: in general  j < c <==> some k in [j, e) pulls.  So for equal origin AND equal
//         right origin the order is by client id (the rule that makes two replicas agree); for different right origins "lower
//         client id goes left" still holds unconditionally, but "higher client id goes right" only provisionally: it is
//         overridden when the scan, which goes on, meets an item that must be left of me -- a same-origin item with a lower client
//         id, or an item whose origin is left of the position chosen so far.  The new left neighbour is ALWAYS an item that pulls
//         (`lemma_left_neighbour_pulls`), never a same-origin item with a client id that is not lower.]
//   (P3) ORIGIN CROSSING (p3_origin_crossing)
//          j < r and foreign(j)                            ==> the scan ends at j at the latest, me is placed BEFORE s[j]  (c <= e <= j)
//          j < e and another origin                        ==> origin_pos(j) <= j and (origin_pos(j) < c <==> j < c): a scanned item
//                                                              is on the SAME SIDE of me as its origin
//   EXACT (p_exact)    e is the first scan-ending position (or r); closed(c, e) and no c' < c is closed: me gets the LEFT-MOST position,
//                      from the incoming left on, right of which nobody (up to e) wants to be left of it.  The clauses determine
//                      (e, c) uniquely (`lemma_scan_end_unique`, `lemma_cut_unique`).
//   (P5) TOTALITY / FRAME   terminates (structural `decreases o` on the finite chains), `parent.as_branch().unwrap()` cannot panic
//                      (H0), `*final(self) == Item { left: .., ..*old(self) }`, `*final(blocks) == *old(blocks)`.
// CONTRACT of `detect_conflict`:
//   (P4) r == !glued(self), glued := (left is Some(l) && l.right and self.right are the same item (both None, or equal ids))
//                      || (no left && right is Some(r) && r.left is None).   `lemma_glued_is_noop`: for a glued item the contract of
//                      resolve_conflict yields position 0 = the incoming left, so the guard in integrate_item loses nothing.
// STEP LEVEL (R18 statement regions of the same source text, each with a contract of its own, so that an edit fails a contract
//   clause of real code and not only a spliced invariant): `yata_first_conflict` (r == first_conflict(this)), `yata_chain_step` (body
//   of the walk to the left-most chain item), `yata_scan_init`, `yata_scan_step` (body of the scan loop: "goes on iff k < scan_end;
//   then the state in front of item k + 1 is: items_before_origin = s[0..k], conflicting_items = s[cut_at(k+1)..k], left =
//   place(cut_at(k+1)); else k == scan_end and left == place(yata_cut)").
//
// PURE THEOREMS over the specification (no code; `b` = the base list view, x / y = the Nodes of two new items)
//   (L1) `theorem_l1_determinism`: (e, c) are a function of me's (client, origin, right origin, right id) and of the SEQUENCE of
//        (id, len, origin, right origin) of L -- of nothing else (contents, tombstones, addresses, the rest of the store) -- given H3:
//        the store lookup is containment (home(c) == id of the member whose [clock, clock + len) holds c.origin, if any).  Without
//        H3: a function of the sequence of (id, origin, right origin, origin_pos) (`lemma_determinism`).
//   (L2) same origin AND same right origin (hence same neighbours), x.client < y.client, ANY base list b:
//        `theorem_l2_same_origins_commute`: in both delivery orders x ends up BEFORE y (from P2 applied twice: delivered second, y
//        reaches x -- nothing before x ends y's scan because it did not end x's -- and x is `lower`; delivered second, x meets y
//        as a `twin` and stops).  `theorem_l2_same_list` (+ l2_fresh: no base item has its origin in x or y): both orders give
//        the SAME LIST:  b.insert(c1, x).insert(c2, y) == b.insert(d1, y).insert(d2, x).
//   (L3) same origin, DIFFERENT right origins, ANY right neighbours, ANY base list b (+ freshness), x.client < y.client:
//        `theorem_l3_same_list`: both delivery orders give the SAME LIST.  (Delivered second, x passes y -- an `open_case` item that
//        never pulls -- and its position is the old one, shifted if it was right of y; delivered second, y either stops before x,
//        or reaches x, is pulled behind it, and from there on tracks its old position + 1: `lemma_track_nonpuller` /
//        `lemma_track_puller`, `lemma_l3_x_le_y`: scanning the same items the lower client's position is never right of the
//        higher client's.)   The relative order is NOT simply "lower client first" here: it is x before y iff y's scan of the
//        base list reaches x's position (scan_end(b, y) >= yata_cut(b, x)).
//   BASE-LIST ASSUMPTIONS of L2 / L3: both items are integrated into the same list view b from the same first conflicting item
//        (same origin => same `left`), b already holds the block splits both integrations perform (get_item_clean_end(origin) /
//        get_item_clean_start(right_origin) run BEFORE resolve_conflict and are not in this unit), inserting an item does not
//        change the `home` of the others (true when no split happens in between), freshness (no base item depends on x / y).
//   test vectors: `example_two_siblings`, `example_no_interleaving`, `example_origin_crossing`.
//
// WHAT IS AND IS NOT IMPLIED
//   C04: (P1) is "the new item lies between its neighbours": not before its left neighbour, not after its right neighbour -- in THIS
//        replica's list at integration time.  (P3) + `example_no_interleaving` is the per-call core of "the elements of one
//        multi-element insertion keep their order / are not interleaved": an item whose origin is left of the scanned range ends
//        the scan, an item whose origin is in the range follows its origin.  NOT implied: that the neighbours are still VISIBLE
//        neighbours on other replicas, anything about deletions, and that `integrate_item` links the item where `self.left` says
//        (the pointer surgery after resolve_conflict is not in this unit).
//   C01: (L1) is "the outcome of ONE integration depends only on the operations in the list and their order"; (L2) + (L3) are the
//        commutation of TWO concurrent insertions after the same origin.  NOT implied: commutation for DIFFERENT origins.  For an
//        ARBITRARY base list it is false: list [ax, ay, g] with ay.origin = ax, ay.client < x.client, g.origin = ay, g.client <
//        y.client; x = (origin ax, right g), y = (origin ay, no right): x-then-y gives [ax, ay, y, x, g] (y's scan ends at x, whose
//        origin ax is left of y's range), y-then-x gives [ax, ay, x, g, y].  That list is not reachable (x's author saw g, hence
//        ay, so ax and g were not adjacent): the different-origin case needs the reachability invariants of the list (origin before
//        right origin, neighbours adjacent at creation, causal delivery), which are not per-call.  Also NOT implied: more than two
//        items, block splitting, deletions, map entries' tombstoning -- CONVERGENCE IN GENERAL IS NOT CLAIMED.
//
// ------------------------------------------------------------------------------------------------------------------
// LOWERING (rule R15 of DESIGN.md 3.2) AND STAND-IN TYPES (everything not listed is extracted verbatim from /repo)
//   ItemPtr      real: `struct ItemPtr(NonNull<Item>)`, Deref<Target = Item>.  here: `type ItemPtr = &'static Item` (read-only
//                lowering; 'static because the real type carries no lifetime, so every signature stays verbatim).  ASSUMPTION A5:
//                the pointees are alive, not mutated during the call, and following `.right` / `.left` terminates (here: by
//                construction of an inductive value; the loops terminate by structural `decreases o`).  `self` is a SEPARATE
//                value (`&mut Item`): the new item is not a member of the list yet.  An immutable value cannot be doubly linked:
//                `.left` and `.right` are two independent chains; the scan follows only `.right`, the walk to the left-most chain
//                item only `.left`; `detect_conflict` reads one link of each neighbour.
//   Item         sliced to `id, len, left, right, origin, right_origin, parent, parent_sub` (`len` only for H3 / L1).  DROPPED:
//                content, redone, info.  `Item::id` is the real accessor.
//   ItemPtr AS A HASH KEY (checked in /repo): `#[derive(Clone, Copy, Hash)] struct ItemPtr(NonNull<Item>)` hashes the ADDRESS, but
//                `impl PartialEq for ItemPtr` compares `self.id() == other.id()`, the block ID.  The two agree -- and a
//                HashSet<ItemPtr> is a set of item IDENTITIES -- exactly when no two live Items share an id (then id, address and,
//                in the lowered model, the value [which includes its `.right` chain, hence its position] determine each other).
//                Modelled as: `impl PartialEq for Item` = the REAL body of ItemPtr::eq (extracted), eq_spec = equality of ids, used
//                by `self.right == Some(item)` and `left.right != self.right`; `Hash` a never-executed stub; TRUSTED axiom A4'
//                `obeys_key_model::<&'static Item>()` (std HashSet<ItemPtr> behaves as the mathematical set of its keys); the
//                identity condition is the heap assumption H1 + H2, required by every function that uses a set.
//   Branch       sliced to `start`, `map`.  BranchPtr = `&'static Branch`.  `TypePtr` is the REAL enum, `TypePtr::as_branch` the real body.
//   BlockStore   ABSTRACT: trait `StoreApi` with an uninterpreted `lookup(id) -> Option<ItemPtr>`; `get_item` is a bodiless trait
//                method returning it (SUB `fn resolve_conflict` -> `fn resolve_conflict<B: StoreApi>`, `blocks: &mut BlockStore` ->
//                `blocks: &mut B`, logged).  The contract holds for EVERY lookup function; what the proof needs of it is H2.
//   ClientID     real: `ClientID(NonZeroU64)` holding `value | MASK` with derived PartialOrd / Ord (all values carry the same top bits,
//                so the order is the order of the yjs values); here `ClientID(pub u64)`: `PartialOrd::partial_cmp` / `Ord::cmp` are
//                written out and VERIFIED against `client_cmp` (order of the u64; vstd's PartialOrdSpecImpl / OrdSpecImpl give `<`,
//                `<=`, `>`, `>=`, `lt`.., `cmp`, `partial_cmp` their meaning), `get()` returns the value (stand-in as in unit sticky;
//                the real body is cfg blocks over NonZeroU64).  `core::cmp::Ordering` is in scope of the extracted code, so other
//                spellings of the client comparison (`match a.cmp(&b) {..}`, `a.get() < b.get()`, `.is_lt()`, `== Ordering::Less`)
//                are ingestible and are judged by the contract.
//   Str          opaque stand-in for `Arc<str>` (SUB, logged).
//   closure      `|id| blocks.get_item(id)` gets a typed header and `ensures vx_r == blocks.lookup(*id)` (@closure; body untouched).
//
// HEAP ASSUMPTIONS (stated as `requires` via `heap_ok`; facts about the states integrate_item calls the function in)
//   H0  `self.parent` is `TypePtr::Branch(_)`      [integrate_item resolves `item.parent` to a Branch before the call and returns
//                                                  early through integrate_gc otherwise]
//   H1  the ids of the members of L are pairwise distinct    [every member of a branch's list is a block of the store; a store
//                                                  holds one block per (client, clock): ClientBlockList is sorted, unit blockstore]
//   H2  if `get_item(c.origin)` for a member c returns an item with the id of a member, it IS that member
//                                                  [`.right` pointers and `get_item` both point at the Box the store owns]
//   H3  (only L1) `get_item(id)` is the Item block whose clock range contains id   [BlockStore::get_item = get_block(id) -- the
//                                                  client's ClientBlockList::find_index(id.clock), unit blockstore -- + as_item_mut]
//   A5  finite, acyclic, unmutated chains (see ItemPtr)
//
// TRUSTED (module vx_trusted, listed by the trust scanner): `axiom_item_ptr_key_model` (A4', see above), `axiom_str_key_model`
//   (A4: Arc<str> is a lawful HashMap key), `Option::<&T>::copied` (A2, std: "Maps an Option<&T> to an Option<T> by copying"), the
//   never-executed `impl Hash for Item` stub; for alternative spellings only (unused by the pinned code): `axiom_ordering_eq_structural`
//   (A3, as in unit sv: `==` on core::cmp::Ordering is structural) and std `Ordering::{is_lt, is_le, is_gt, is_ge, is_eq, is_ne}` (A2).  vstd's own specifications of HashSet::{new, insert, contains, clear},
//   HashMap::get, Option::{unwrap, as_ref, and_then, is_some}, PartialEq / PartialOrd on Option.  No assume / admit.
//
// NOT IN THIS UNIT: the rest of integrate_item (repair of left / right from the origins, block splitting, the pointer surgery that
//   links the item at the chosen position, map entry tombstoning, parent length bookkeeping), `BlockStore::get_item` itself.
//
// FINDINGS: none -- under H0-H2 the pinned code satisfies (P1)-(P5) and the exactness clauses for every list and item.  Looked
//   at on purpose: `parent_sub` chains (the scan starts at the left-most chain item: covered by first_conflict), a right neighbour
//   that is not reachable from `o` (the scan then runs to a scan-ending item or the end of L; (P1) says so), tombstones (never
//   read), items of the SAME client (client id "not lower": twin -> me goes before it, open_case -> provisional right).
//   OBSERVATION (no defect on reachable states): Hash (address) and Eq (id) of ItemPtr are different relations; the sets are
//   correct only because ids are unique per live Item (H1 / H2).
#![allow(unused_imports, unused_variables, unused_mut, dead_code, unused_parens, unused_braces, unused_assignments)]
use vstd::prelude::*;
use std::collections::HashMap;
use std::collections::HashSet;
use core::cmp::Ordering;

verus! {

/*@rules R10
   SUB(from=Arc<str>;;to=Str)
@*/

// ---------------------------------------------------------------------------------------------
// opaque stand-ins
// ---------------------------------------------------------------------------------------------
#[derive(PartialEq, Eq, Structural, Clone, Copy, Hash)]
pub struct Str(pub u64);

/// STAND-IN, see the header: the yjs value itself, ordered by value
#[derive(PartialEq, Eq, Structural, Clone, Copy, Hash)]
pub struct ClientID(pub u64);

/// the order of two client ids = the order of their u64 values
pub open spec fn client_cmp(a: ClientID, b: ClientID) -> Ordering {
    if a.0 < b.0 {
        Ordering::Less
    } else if a.0 == b.0 {
        Ordering::Equal
    } else {
        Ordering::Greater
    }
}

/// `#[derive(PartialOrd, Ord)]` of ClientID, written out for the stand-in (compares the one field).  NOT trusted: the two bodies
/// below are verified against `client_cmp`; vstd derives `<`, `<=`, `>`, `>=`, `lt`, .., `cmp`, `partial_cmp` from these specs.
impl vstd::std_specs::cmp::PartialOrdSpecImpl for ClientID {
    open spec fn obeys_partial_cmp_spec() -> bool {
        true
    }

    open spec fn partial_cmp_spec(&self, other: &ClientID) -> Option<Ordering> {
        Some(client_cmp(*self, *other))
    }
}

impl vstd::std_specs::cmp::OrdSpecImpl for ClientID {
    open spec fn obeys_cmp_spec() -> bool {
        true
    }

    open spec fn cmp_spec(&self, other: &ClientID) -> Ordering {
        client_cmp(*self, *other)
    }
}

impl PartialOrd for ClientID {
    fn partial_cmp(&self, other: &ClientID) -> (r: Option<Ordering>) {
        Some(self.cmp(other))
    }
}

impl Ord for ClientID {
    fn cmp(&self, other: &ClientID) -> (r: Ordering) {
        if self.0 < other.0 {
            Ordering::Less
        } else if self.0 == other.0 {
            Ordering::Equal
        } else {
            Ordering::Greater
        }
    }
}

impl ClientID {
    /// STAND-IN for `ClientID::get` (real body, under cfg: `self.0.get() & !Self::MASK` on the NonZeroU64 holding
    /// `value | MASK` -- the inverse of `new` on 53-bit values; here the stored yjs value itself, as in unit sticky)
    pub fn get(&self) -> (r: u64)
        ensures
            r == self.0,
    {
        self.0
    }
}

#[derive(PartialEq, Eq, Structural, Clone, Copy, Hash)]
/*@extract yrs/src/block.rs | - | struct ID @*/

pub mod vx_trusted {
    use vstd::prelude::*;
    use vstd::std_specs::hash::*;
    use vstd::std_specs::cmp::PartialEqSpec;
    use core::cmp::Ordering;
    use super::{Str, Item};

    /// A3 (as in unit sv): the derived `PartialEq` of the fieldless std enum `core::cmp::Ordering` is structural equality (vstd
    /// leaves `==` on `Ordering` uninterpreted).  Needed only for spellings like `a.cmp(&b) == Ordering::Less` /
    /// `a.partial_cmp(&b) == Some(Ordering::Less)`; the pinned code does not use it.
    #[verifier::external_body] pub broadcast proof fn axiom_ordering_eq_structural()
        ensures
            #[trigger] <Ordering as PartialEqSpec>::obeys_eq_spec(),
            forall|a: Ordering, b: Ordering| #[trigger] a.eq_spec(&b) == (a == b),
    {
    }

    /// A2: std `Ordering::{is_lt, is_le, is_gt, is_ge, is_eq, is_ne}` ("Returns true if the ordering is the Less variant", ...);
    /// the pinned code does not use them
    pub assume_specification[ Ordering::is_lt ](o: Ordering) -> (r: bool)
        ensures r == (o is Less);
    pub assume_specification[ Ordering::is_le ](o: Ordering) -> (r: bool)
        ensures r == !(o is Greater);
    pub assume_specification[ Ordering::is_gt ](o: Ordering) -> (r: bool)
        ensures r == (o is Greater);
    pub assume_specification[ Ordering::is_ge ](o: Ordering) -> (r: bool)
        ensures r == !(o is Less);
    pub assume_specification[ Ordering::is_eq ](o: Ordering) -> (r: bool)
        ensures r == (o is Equal);
    pub assume_specification[ Ordering::is_ne ](o: Ordering) -> (r: bool)
        ensures r == !(o is Equal);

    /// A4: `Arc<str>` (here `Str`) is a lawful std HashMap key
    #[verifier::external_body] pub broadcast proof fn axiom_str_key_model()
        ensures
            #[trigger] obeys_key_model::<Str>(),
    {
    }

    /// A4' (see the header, "ItemPtr AS A HASH KEY"): ItemPtr is a lawful std HashSet key whose equality is IDENTITY
    #[verifier::external_body] pub broadcast proof fn axiom_item_ptr_key_model()
        ensures
            #[trigger] obeys_key_model::<&'static Item>(),
    {
    }

    /// A2: std `Option<&T>::copied` ("Maps an Option<&T> to an Option<T> by copying the contents of the option")
    pub assume_specification<'a, T: Copy>[ Option::<&'a T>::copied ](o: Option<&'a T>) -> (r: Option<T>)
        ensures
            r == (match o { Some(x) => Some(*x), None => None::<T> }),
    ;

    /// `#[derive(Hash)]` of ItemPtr (hashes the ADDRESS held by the NonNull); never executed, needed for the bound
    /// `ItemPtr: Hash` of HashSet.  Its agreement with `==` is what A4' assumes.
    impl std::hash::Hash for Item {
        #[verifier::external_body]
        fn hash<H: std::hash::Hasher>(&self, state: &mut H) {
            (self as *const Item as usize).hash(state)
        }
    }
}
use vx_trusted::*;

broadcast use {axiom_str_key_model, axiom_item_ptr_key_model, axiom_ordering_eq_structural};

// ---------------------------------------------------------------------------------------------
// the lowered item, the branch, the type pointer (real enum), the store
// ---------------------------------------------------------------------------------------------
/// sliced + lowered, see the table at the top
pub struct Item {
    pub id: ID,
    pub len: u32,
    pub left: Option<ItemPtr>,
    pub right: Option<ItemPtr>,
    pub origin: Option<ID>,
    pub right_origin: Option<ID>,
    pub parent: TypePtr,
    pub parent_sub: Option<Str>,
}

pub type ItemPtr = &'static Item;

/// sliced + lowered, see the table at the top
pub struct Branch {
    pub start: Option<ItemPtr>,
    pub map: HashMap<Str, ItemPtr>,
}

pub type BranchPtr = &'static Branch;

/*@extract yrs/src/types/mod.rs | - | enum TypePtr @*/

impl TypePtr {
    /*@extract yrs/src/types/mod.rs | impl TypePtr | fn as_branch | label=TypePtr.as_branch
    @ret r
    @sig
        ensures r == (match *self { TypePtr::Branch(p) => Some(&p), _ => None::<&BranchPtr> }),
    @*/
}

/// `impl PartialEq for ItemPtr` compares IDS: its eq_spec, for vstd's specification of `==` / `!=` on `Option<ItemPtr>`
impl vstd::std_specs::cmp::PartialEqSpecImpl for Item {
    open spec fn obeys_eq_spec() -> bool {
        true
    }

    open spec fn eq_spec(&self, other: &Item) -> bool {
        self.id == other.id
    }
}

impl PartialEq for Item {
    // the REAL body of `impl PartialEq for ItemPtr` (`self.id() == other.id()`); its inherited contract is
    // `r == self.eq_spec(other)`, i.e. equality of the ids
    /*@extract yrs/src/block.rs | impl PartialEq for ItemPtr | fn eq | label=ItemPtr.eq
    @*/
}

impl Eq for Item {}

/// `BlockStore` as far as conflict resolution uses it: `get_item` is a pure lookup (bodiless trait method: the contract of
/// `resolve_conflict` holds for EVERY lookup function)
pub trait StoreApi {
    spec fn lookup(&self, id: ID) -> Option<ItemPtr>;

    /// real: `BlockStore::get_item(&self, id: &ID) -> Option<ItemPtr>` (the Item block whose clock range contains `id`)
    fn get_item(&self, id: &ID) -> (r: Option<ItemPtr>)
        ensures
            r == self.lookup(*id),
    ;
}

// ---------------------------------------------------------------------------------------------
// SPEC over sequences
// ---------------------------------------------------------------------------------------------
pub struct Node {
    pub id: ID,
    pub len: u32,
    pub origin: Option<ID>,
    pub right_origin: Option<ID>,
    pub home: Option<ID>,
}

pub struct Me {
    pub client: ClientID,
    pub origin: Option<ID>,
    pub right_origin: Option<ID>,
    pub right: Option<ID>,
}

pub open spec fn pos_from(s: Seq<Node>, id: ID, i: int) -> int
    decreases s.len() - i,
{
    if i < 0 || i >= s.len() { s.len() as int } else if s[i].id == id { i } else { pos_from(s, id, i + 1) }
}

pub open spec fn pos_of(s: Seq<Node>, id: ID) -> int {
    pos_from(s, id, 0)
}

pub open spec fn origin_pos(s: Seq<Node>, j: int) -> int {
    match s[j].home { Some(h) => pos_of(s, h), None => s.len() as int }
}

pub open spec fn right_ix(s: Seq<Node>, me: Me) -> int {
    match me.right { Some(r) => pos_of(s, r), None => s.len() as int }
}

pub open spec fn client_lt(a: ClientID, b: ClientID) -> bool { a.0 < b.0 }

pub open spec fn same_origin(me: Me, c: Node) -> bool { me.origin == c.origin }

pub open spec fn lower(me: Me, c: Node) -> bool { same_origin(me, c) && client_lt(c.id.client, me.client) }

pub open spec fn twin(me: Me, c: Node) -> bool {
    same_origin(me, c) && !client_lt(c.id.client, me.client) && me.right_origin == c.right_origin
}

pub open spec fn open_case(me: Me, c: Node) -> bool {
    same_origin(me, c) && !client_lt(c.id.client, me.client) && me.right_origin != c.right_origin
}

pub open spec fn foreign(s: Seq<Node>, me: Me, j: int) -> bool {
    !same_origin(me, s[j]) && origin_pos(s, j) > j
}

pub open spec fn ends_scan(s: Seq<Node>, me: Me, j: int) -> bool {
    twin(me, s[j]) || foreign(s, me, j)
}

pub open spec fn end_from(s: Seq<Node>, me: Me, i: int) -> int
    decreases right_ix(s, me) - i,
{
    if i < 0 || i >= right_ix(s, me) { right_ix(s, me) } else if ends_scan(s, me, i) { i } else { end_from(s, me, i + 1) }
}

pub open spec fn scan_end(s: Seq<Node>, me: Me) -> int { end_from(s, me, 0) }

pub open spec fn wants_left(s: Seq<Node>, me: Me, j: int, c: int) -> bool {
    lower(me, s[j]) || (!same_origin(me, s[j]) && origin_pos(s, j) < c)
}

pub open spec fn closed(s: Seq<Node>, me: Me, c: int, e: int) -> bool {
    forall|j: int| c <= j < e ==> !#[trigger] wants_left(s, me, j, c)
}

pub open spec fn cut_from(s: Seq<Node>, me: Me, c: int, e: int) -> int
    decreases e - c,
{
    if c >= e { e } else if closed(s, me, c, e) { c } else { cut_from(s, me, c + 1, e) }
}

pub open spec fn cut_at(s: Seq<Node>, me: Me, e: int) -> int { cut_from(s, me, 0, e) }

pub open spec fn yata_cut(s: Seq<Node>, me: Me) -> int { cut_at(s, me, scan_end(s, me)) }

pub open spec fn pulls(s: Seq<Node>, me: Me, m: int) -> bool { wants_left(s, me, m, cut_at(s, me, m)) }

// ---- lemmas
pub proof fn lemma_pos_from(s: Seq<Node>, id: ID, i: int)
    requires 0 <= i <= s.len(),
    ensures ({
        let p = pos_from(s, id, i);
        &&& i <= p <= s.len()
        &&& p < s.len() ==> s[p].id == id
        &&& forall|j: int| i <= j < p ==> (#[trigger] s[j]).id != id
    }),
    decreases s.len() - i,
{
    if i < s.len() && s[i].id != id {
        lemma_pos_from(s, id, i + 1);
    }
}

pub proof fn lemma_pos_of(s: Seq<Node>, id: ID)
    ensures ({
        let p = pos_of(s, id);
        &&& 0 <= p <= s.len()
        &&& p < s.len() ==> s[p].id == id
        &&& forall|j: int| 0 <= j < p ==> (#[trigger] s[j]).id != id
    }),
{
    lemma_pos_from(s, id, 0);
}

pub proof fn lemma_pos_unique(s: Seq<Node>, id: ID, p: int)
    requires
        0 <= p <= s.len(),
        p < s.len() ==> s[p].id == id,
        forall|j: int| 0 <= j < p ==> (#[trigger] s[j]).id != id,
    ensures pos_of(s, id) == p,
{
    lemma_pos_of(s, id);
    let q = pos_of(s, id);
    if q < p { assert(s[q].id != id); }
    if p < q { assert(s[p].id != id); }
}

pub proof fn lemma_right_ix(s: Seq<Node>, me: Me)
    ensures 0 <= right_ix(s, me) <= s.len(),
{
    if me.right is Some { lemma_pos_of(s, me.right.unwrap()); }
}

pub proof fn lemma_end_from(s: Seq<Node>, me: Me, i: int)
    requires 0 <= i <= right_ix(s, me),
    ensures ({
        let e = end_from(s, me, i);
        &&& i <= e <= right_ix(s, me)
        &&& e < right_ix(s, me) ==> ends_scan(s, me, e)
        &&& forall|j: int| i <= j < e ==> !#[trigger] ends_scan(s, me, j)
    }),
    decreases right_ix(s, me) - i,
{
    if i < right_ix(s, me) && !ends_scan(s, me, i) {
        lemma_end_from(s, me, i + 1);
    }
}

/// characterisation of the scan end: the first index before the right neighbour that ends the scan, else the right neighbour
pub proof fn lemma_scan_end(s: Seq<Node>, me: Me)
    ensures ({
        let e = scan_end(s, me);
        &&& 0 <= e <= right_ix(s, me) <= s.len()
        &&& e < right_ix(s, me) ==> ends_scan(s, me, e)
        &&& forall|j: int| 0 <= j < e ==> !#[trigger] ends_scan(s, me, j)
    }),
{
    lemma_right_ix(s, me);
    lemma_end_from(s, me, 0);
}

pub proof fn lemma_scan_end_unique(s: Seq<Node>, me: Me, e: int)
    requires
        0 <= e <= right_ix(s, me),
        e < right_ix(s, me) ==> ends_scan(s, me, e),
        forall|j: int| 0 <= j < e ==> !#[trigger] ends_scan(s, me, j),
    ensures scan_end(s, me) == e,
{
    lemma_scan_end(s, me);
    let f = scan_end(s, me);
    if f < e { assert(!ends_scan(s, me, f)); }
    if e < f { assert(!ends_scan(s, me, e)); }
}

pub proof fn lemma_cut_from(s: Seq<Node>, me: Me, c: int, e: int)
    requires 0 <= c <= e,
    ensures ({
        let r = cut_from(s, me, c, e);
        &&& c <= r <= e
        &&& closed(s, me, r, e)
        &&& forall|d: int| c <= d < r ==> !#[trigger] closed(s, me, d, e)
    }),
    decreases e - c,
{
    if c < e && !closed(s, me, c, e) {
        lemma_cut_from(s, me, c + 1, e);
    }
}

/// characterisation of the cut: the LEAST position in [0, e] right of which (up to e) nobody wants to be left of it
pub proof fn lemma_cut_at(s: Seq<Node>, me: Me, e: int)
    requires 0 <= e,
    ensures ({
        let r = cut_at(s, me, e);
        &&& 0 <= r <= e
        &&& closed(s, me, r, e)
        &&& forall|d: int| 0 <= d < r ==> !#[trigger] closed(s, me, d, e)
    }),
{
    lemma_cut_from(s, me, 0, e);
}

pub proof fn lemma_cut_unique(s: Seq<Node>, me: Me, e: int, c: int)
    requires
        0 <= c <= e,
        closed(s, me, c, e),
        forall|d: int| 0 <= d < c ==> !#[trigger] closed(s, me, d, e),
    ensures cut_at(s, me, e) == c,
{
    lemma_cut_at(s, me, e);
}

/// one more scanned item: it either pulls the cut right behind itself or leaves it where it is
pub proof fn lemma_cut_step(s: Seq<Node>, me: Me, k: int)
    requires 0 <= k,
    ensures cut_at(s, me, k + 1) == (if pulls(s, me, k) { k + 1 } else { cut_at(s, me, k) }),
{
    lemma_cut_at(s, me, k);
    let c = cut_at(s, me, k);
    if wants_left(s, me, k, c) {
        assert forall|d: int| 0 <= d < k + 1 implies !#[trigger] closed(s, me, d, k + 1) by {
            if d < c {
                assert(!closed(s, me, d, k));
                let j = choose|j: int| d <= j < k && wants_left(s, me, j, d);
                assert(wants_left(s, me, j, d));
            } else {
                assert(wants_left(s, me, k, d));
            }
        }
        lemma_cut_unique(s, me, k + 1, k + 1);
    } else {
        assert forall|d: int| 0 <= d < c implies !#[trigger] closed(s, me, d, k + 1) by {
            assert(!closed(s, me, d, k));
            let j = choose|j: int| d <= j < k && wants_left(s, me, j, d);
            assert(wants_left(s, me, j, d));
        }
        lemma_cut_unique(s, me, k + 1, c);
    }
}
// ---------------------------------------------------------------------------------------------
// P2 / P3 / exactness as consequences of the two characterisations
// ---------------------------------------------------------------------------------------------
pub proof fn lemma_placement(s: Seq<Node>, me: Me)
    ensures ({
        let e = scan_end(s, me);
        let c = yata_cut(s, me);
        let r = right_ix(s, me);
        &&& 0 <= c <= e <= r <= s.len()
        &&& forall|j: int| 0 <= j < e && lower(me, #[trigger] s[j]) ==> j < c
        &&& forall|j: int| 0 <= j < r && twin(me, #[trigger] s[j]) ==> e <= j
        &&& forall|j: int| 0 <= j < r && #[trigger] foreign(s, me, j) ==> e <= j
        &&& forall|j: int| 0 <= j < e && !same_origin(me, #[trigger] s[j]) ==> origin_pos(s, j) <= j && (origin_pos(s, j) < c <==> j < c)
        &&& closed(s, me, c, e)
        &&& forall|d: int| 0 <= d < c ==> !#[trigger] closed(s, me, d, e)
    }),
{
    lemma_scan_end(s, me);
    let e = scan_end(s, me);
    lemma_cut_at(s, me, e);
    let c = yata_cut(s, me);
    let r = right_ix(s, me);
    assert forall|j: int| 0 <= j < e && lower(me, #[trigger] s[j]) implies j < c by {
        if j >= c { assert(!wants_left(s, me, j, c)); }
    }
    assert forall|j: int| 0 <= j < r && twin(me, #[trigger] s[j]) implies e <= j by {
        if j < e { assert(!ends_scan(s, me, j)); }
    }
    assert forall|j: int| 0 <= j < r && #[trigger] foreign(s, me, j) implies e <= j by {
        if j < e { assert(!ends_scan(s, me, j)); }
    }
    assert forall|j: int| 0 <= j < e && !same_origin(me, #[trigger] s[j]) implies origin_pos(s, j) <= j && (origin_pos(s, j) < c <==> j < c) by {
        assert(!ends_scan(s, me, j));
        if j >= c { assert(!wants_left(s, me, j, c)); }
    }
}

/// THE DERIVED RULE: a scanned item ends up left of the new item iff it or a later scanned item PULLS (wants to be left of the
/// position chosen for the items before it)
pub proof fn lemma_pull_rule(s: Seq<Node>, me: Me, e: int, j: int)
    requires 0 <= j < e,
    ensures j < cut_at(s, me, e) <==> exists|m: int| j <= m < e && #[trigger] pulls(s, me, m),
    decreases e,
{
    lemma_cut_step(s, me, e - 1);
    if e == j + 1 {
        lemma_cut_at(s, me, j);
        if pulls(s, me, j) { assert(j <= j < e && pulls(s, me, j)); }
    } else {
        lemma_pull_rule(s, me, e - 1, j);
        if pulls(s, me, e - 1) {
            assert(j <= e - 1 < e && pulls(s, me, e - 1));
        } else if j < cut_at(s, me, e - 1) {
            let m = choose|m: int| j <= m < e - 1 && #[trigger] pulls(s, me, m);
            assert(j <= m < e && pulls(s, me, m));
        } else {
            if exists|m: int| j <= m < e && #[trigger] pulls(s, me, m) {
                let m = choose|m: int| j <= m < e && #[trigger] pulls(s, me, m);
                assert(j <= m < e - 1 && pulls(s, me, m));
            }
        }
    }
}

/// the new left neighbour is always an item that pulls; nothing right of the cut (before the scan end) pulls
pub proof fn lemma_left_neighbour_pulls(s: Seq<Node>, me: Me, e: int)
    requires 0 <= e,
    ensures
        cut_at(s, me, e) > 0 ==> pulls(s, me, cut_at(s, me, e) - 1),
        forall|m: int| cut_at(s, me, e) <= m < e ==> !#[trigger] pulls(s, me, m),
{
    lemma_cut_at(s, me, e);
    let c = cut_at(s, me, e);
    assert forall|m: int| c <= m < e implies !#[trigger] pulls(s, me, m) by {
        lemma_pull_rule(s, me, e, m);
    }
    if c > 0 {
        lemma_pull_rule(s, me, e, c - 1);
        let m = choose|m: int| c - 1 <= m < e && #[trigger] pulls(s, me, m);
        assert(m == c - 1);
    }
}

/// (P2, different right origins) what the code guarantees for a same-origin item whose client id is not lower and whose right
/// origin differs: it stays RIGHT of the new item unless a LATER scanned item pulls
pub proof fn lemma_open_case(s: Seq<Node>, me: Me, j: int)
    requires 0 <= j < scan_end(s, me), open_case(me, s[j]),
    ensures j < yata_cut(s, me) <==> exists|m: int| j < m < scan_end(s, me) && #[trigger] pulls(s, me, m),
{
    let e = scan_end(s, me);
    lemma_pull_rule(s, me, e, j);
    assert(!pulls(s, me, j));
    if j < yata_cut(s, me) {
        let m = choose|m: int| j <= m < e && #[trigger] pulls(s, me, m);
        assert(j < m < e && pulls(s, me, m));
    }
    if exists|m: int| j < m < e && #[trigger] pulls(s, me, m) {
        let m = choose|m: int| j < m < e && #[trigger] pulls(s, me, m);
        assert(j <= m < e && pulls(s, me, m));
    }
}

// ---------------------------------------------------------------------------------------------
// L1 determinism
// ---------------------------------------------------------------------------------------------
pub open spec fn same_shape(s: Seq<Node>, t: Seq<Node>) -> bool {
    &&& s.len() == t.len()
    &&& forall|j: int| 0 <= j < s.len() ==> (#[trigger] s[j]).id == t[j].id && s[j].origin == t[j].origin && s[j].right_origin == t[j].right_origin
    &&& forall|j: int| 0 <= j < s.len() ==> #[trigger] origin_pos(s, j) == origin_pos(t, j)
}

pub proof fn lemma_same_pos(s: Seq<Node>, t: Seq<Node>, id: ID)
    requires
        s.len() == t.len(),
        forall|j: int| 0 <= j < s.len() ==> (#[trigger] s[j]).id == t[j].id,
    ensures pos_of(s, id) == pos_of(t, id),
{
    lemma_pos_of(s, id);
    let p = pos_of(s, id);
    assert forall|j: int| 0 <= j < p implies (#[trigger] t[j]).id != id by { assert(s[j].id != id); }
    if p < s.len() { assert(s[p].id == t[p].id); }
    lemma_pos_unique(t, id, p);
}

pub proof fn lemma_determinism(s: Seq<Node>, t: Seq<Node>, me: Me)
    requires same_shape(s, t),
    ensures
        right_ix(s, me) == right_ix(t, me),
        scan_end(s, me) == scan_end(t, me),
        yata_cut(s, me) == yata_cut(t, me),
{
    if me.right is Some { lemma_same_pos(s, t, me.right.unwrap()); }
    lemma_scan_end(s, me);
    let e = scan_end(s, me);
    assert forall|j: int| 0 <= j < s.len() implies #[trigger] ends_scan(s, me, j) == ends_scan(t, me, j) by {
        assert(s[j].id == t[j].id);
        assert(origin_pos(s, j) == origin_pos(t, j));
    }
    assert forall|j: int| 0 <= j < e implies !#[trigger] ends_scan(t, me, j) by {
        assert(!ends_scan(s, me, j));
    }
    lemma_scan_end_unique(t, me, e);
    lemma_cut_at(s, me, e);
    let c = cut_at(s, me, e);
    assert forall|j: int, d: int| 0 <= j < s.len() implies #[trigger] wants_left(s, me, j, d) == wants_left(t, me, j, d) by {
        assert(s[j].id == t[j].id);
        assert(origin_pos(s, j) == origin_pos(t, j));
    }
    assert forall|d: int| 0 <= d <= e implies #[trigger] closed(s, me, d, e) == closed(t, me, d, e) by {
        if closed(s, me, d, e) {
            assert forall|j: int| d <= j < e implies !#[trigger] wants_left(t, me, j, d) by { assert(!wants_left(s, me, j, d)); }
        }
        if closed(t, me, d, e) {
            assert forall|j: int| d <= j < e implies !#[trigger] wants_left(s, me, j, d) by { assert(!wants_left(t, me, j, d)); }
        }
    }
    assert forall|d: int| 0 <= d < c implies !#[trigger] closed(t, me, d, e) by {
        assert(!closed(s, me, d, e));
    }
    assert(closed(s, me, c, e));
    lemma_cut_unique(t, me, e, c);
}
// ---------------------------------------------------------------------------------------------
// L1, second half: under H3 (the store lookup is containment) the origin positions are a function of ids, lengths, origins
// ---------------------------------------------------------------------------------------------
pub open spec fn contains_id(c: Node, oid: ID) -> bool {
    c.id.client == oid.client && c.id.clock <= oid.clock && oid.clock < c.id.clock + c.len
}

pub open spec fn holder_from(s: Seq<Node>, oid: ID, i: int) -> int
    decreases s.len() - i,
{
    if i < 0 || i >= s.len() { s.len() as int } else if contains_id(s[i], oid) { i } else { holder_from(s, oid, i + 1) }
}

/// position of the first item of the list that contains the id (the list's length if none does / there is no id)
pub open spec fn holder_pos(s: Seq<Node>, o: Option<ID>) -> int {
    match o { Some(oid) => holder_from(s, oid, 0), None => s.len() as int }
}

pub proof fn lemma_holder_from(s: Seq<Node>, oid: ID, i: int)
    requires 0 <= i <= s.len(),
    ensures ({
        let p = holder_from(s, oid, i);
        &&& i <= p <= s.len()
        &&& p < s.len() ==> contains_id(s[p], oid)
        &&& forall|j: int| i <= j < p ==> !contains_id(#[trigger] s[j], oid)
    }),
    decreases s.len() - i,
{
    if i < s.len() && !contains_id(s[i], oid) {
        lemma_holder_from(s, oid, i + 1);
    }
}

/// H3: for the origins of list members the store lookup returns the member that contains the id, if there is one, and
/// something that is not a member otherwise
pub open spec fn lookup_by_containment(s: Seq<Node>) -> bool {
    forall|k: int, j: int| 0 <= k < s.len() && 0 <= j < s.len() ==>
        ((#[trigger] s[k]).home == Some((#[trigger] s[j]).id) <==> s[k].origin is Some && contains_id(s[j], s[k].origin.unwrap()))
}

pub proof fn lemma_origin_pos_by_containment(s: Seq<Node>, k: int)
    requires lookup_by_containment(s), 0 <= k < s.len(),
    ensures origin_pos(s, k) == holder_pos(s, s[k].origin),
{
    let p = holder_pos(s, s[k].origin);
    if s[k].origin is Some { lemma_holder_from(s, s[k].origin.unwrap(), 0); }
    match s[k].home {
        Some(h) => {
            if p < s.len() {
                assert(s[k].home == Some(s[p].id));
            }
            assert forall|j: int| 0 <= j < p implies (#[trigger] s[j]).id != h by {
                if s[j].id == h {
                    assert(s[k].home == Some(s[j].id));
                }
            }
            lemma_pos_unique(s, h, p);
        },
        None => {
            if p < s.len() {
                assert(s[k].home == Some(s[p].id));
            }
        },
    }
}

/// what the property calls "the set of operations and their order": ids, lengths, origins, right origins
pub open spec fn same_items(s: Seq<Node>, t: Seq<Node>) -> bool {
    &&& s.len() == t.len()
    &&& forall|j: int| 0 <= j < s.len() ==> (#[trigger] s[j]).id == t[j].id && s[j].len == t[j].len && s[j].origin == t[j].origin && s[j].right_origin == t[j].right_origin
}

pub proof fn lemma_same_holder(s: Seq<Node>, t: Seq<Node>, oid: ID, i: int)
    requires same_items(s, t), 0 <= i <= s.len(),
    ensures holder_from(s, oid, i) == holder_from(t, oid, i),
    decreases s.len() - i,
{
    if i < s.len() {
        assert(s[i].id == t[i].id && s[i].len == t[i].len);
        if !contains_id(s[i], oid) { lemma_same_holder(s, t, oid, i + 1); }
    }
}

/// (L1) DETERMINISM: the scan end and the chosen position are a function of the new item's (client, origin, right origin,
/// right neighbour id) and of the sequence of (id, len, origin, right origin) of the list -- of nothing else (not of addresses,
/// contents, tombstone flags, the rest of the store)
pub proof fn theorem_l1_determinism(s: Seq<Node>, t: Seq<Node>, me: Me)
    requires
        same_items(s, t),
        lookup_by_containment(s),
        lookup_by_containment(t),
    ensures
        scan_end(s, me) == scan_end(t, me),
        yata_cut(s, me) == yata_cut(t, me),
{
    assert forall|j: int| 0 <= j < s.len() implies #[trigger] origin_pos(s, j) == origin_pos(t, j) by {
        lemma_origin_pos_by_containment(s, j);
        lemma_origin_pos_by_containment(t, j);
        assert(s[j].origin == t[j].origin);
        if s[j].origin is Some { lemma_same_holder(s, t, s[j].origin.unwrap(), 0); }
    }
    lemma_determinism(s, t, me);
}

// ---------------------------------------------------------------------------------------------
// L2: two concurrent items with the same origin and the same right origin
// ---------------------------------------------------------------------------------------------
pub open spec fn me_node(x: Node, right: Option<ID>) -> Me {
    Me { client: x.id.client, origin: x.origin, right_origin: x.right_origin, right }
}

/// two lists that agree on the ids of their first k + 1 items agree on whether (and where) an id occurs among those
pub proof fn lemma_pos_prefix(s: Seq<Node>, t: Seq<Node>, id: ID, k: int)
    requires
        0 <= k < s.len(), k < t.len(),
        forall|j: int| 0 <= j <= k ==> (#[trigger] s[j]).id == t[j].id,
    ensures
        pos_of(s, id) <= k <==> pos_of(t, id) <= k,
        pos_of(s, id) <= k ==> pos_of(s, id) == pos_of(t, id),
{
    lemma_pos_of(s, id);
    lemma_pos_of(t, id);
    let p = pos_of(s, id);
    let q = pos_of(t, id);
    if p <= k {
        assert(s[p].id == t[p].id);
        if q > p { assert(t[p].id != id); }
        if q < p { assert(s[q].id == t[q].id); assert(s[q].id != id); }
    } else if q <= k {
        assert(s[q].id == t[q].id);
        assert(s[q].id != id);
    }
}

/// inserting an item at or after position c does not change what a scan sees at the positions before c
pub proof fn lemma_insert_prefix(b: Seq<Node>, c: int, x: Node, me: Me, j: int)
    requires 0 <= j < c <= b.len(),
    ensures
        b.insert(c, x)[j] == b[j],
        foreign(b.insert(c, x), me, j) == foreign(b, me, j),
{
    let b1 = b.insert(c, x);
    assert forall|i: int| 0 <= i <= j implies (#[trigger] b1[i]).id == b[i].id by {}
    match b[j].home {
        Some(h) => { lemma_pos_prefix(b1, b, h, j); },
        None => {},
    }
}

pub proof fn lemma_right_ix_after_insert(b: Seq<Node>, c: int, x: Node, me: Me)
    requires
        0 <= c <= right_ix(b, me),
        me.right is Some ==> me.right.unwrap() != x.id,
    ensures
        c < right_ix(b.insert(c, x), me),
{
    let b1 = b.insert(c, x);
    lemma_right_ix(b, me);
    match me.right {
        Some(r) => {
            lemma_pos_of(b, r);
            lemma_pos_of(b1, r);
            let q = pos_of(b1, r);
            if q <= c {
                if q < c { assert(b1[q] == b[q]); assert(b[q].id != r); } else { assert(b1[c] == x); }
            }
        },
        None => {},
    }
}

/// the hypotheses of L2: x and y have the same origin, the same right origin (hence the same neighbours `left` / `right` in the
/// common base list b = the list from the common first conflicting item on), different clients, x's the lower one
pub open spec fn l2_pre(x: Node, y: Node, right: Option<ID>) -> bool {
    &&& x.origin == y.origin
    &&& x.right_origin == y.right_origin
    &&& client_lt(x.id.client, y.id.client)
    &&& right is Some ==> right.unwrap() != x.id && right.unwrap() != y.id
}

/// (L2, delivery order x then y) y's scan reaches x and goes right of it
pub proof fn lemma_l2_x_then_y(b: Seq<Node>, x: Node, y: Node, right: Option<ID>)
    requires l2_pre(x, y, right),
    ensures ({
        let c1 = yata_cut(b, me_node(x, right));
        c1 < yata_cut(b.insert(c1, x), me_node(y, right))
    }),
{
    let mx = me_node(x, right);
    let my = me_node(y, right);
    lemma_placement(b, mx);
    let c1 = yata_cut(b, mx);
    let b1 = b.insert(c1, x);
    lemma_right_ix_after_insert(b, c1, x, my);
    assert(right_ix(b, mx) == right_ix(b, my));
    lemma_placement(b1, my);
    let e2 = scan_end(b1, my);
    let c2 = yata_cut(b1, my);
    assert(b1[c1] == x);
    // y's scan does not end before or at x
    if e2 <= c1 {
        assert(e2 < right_ix(b1, my));
        lemma_scan_end(b1, my);
        assert(ends_scan(b1, my, e2));
        if e2 == c1 {
            assert(false);
        } else {
            lemma_insert_prefix(b, c1, x, my, e2);
            lemma_scan_end(b, mx);
            assert(!ends_scan(b, mx, e2));
            assert(twin(my, b[e2]) ==> twin(mx, b[e2]));
            assert(foreign(b, my, e2) == foreign(b, mx, e2));
            assert(false);
        }
    }
    // x is a same-origin item with the lower client id: left of y
    assert(lower(my, b1[c1]));
}

/// (L2, delivery order y then x) x's scan ends at y at the latest
pub proof fn lemma_l2_y_then_x(b: Seq<Node>, x: Node, y: Node, right: Option<ID>)
    requires l2_pre(x, y, right),
    ensures ({
        let d1 = yata_cut(b, me_node(y, right));
        yata_cut(b.insert(d1, y), me_node(x, right)) <= d1
    }),
{
    let mx = me_node(x, right);
    let my = me_node(y, right);
    lemma_placement(b, my);
    let d1 = yata_cut(b, my);
    let b2 = b.insert(d1, y);
    lemma_right_ix_after_insert(b, d1, y, mx);
    assert(right_ix(b, mx) == right_ix(b, my));
    lemma_placement(b2, mx);
    assert(b2[d1] == y);
    assert(twin(mx, b2[d1]));
}

/// (L2) THE TWO-ITEM COMMUTATION CASE UNDER C01: whichever of the two is integrated first, x (the lower client id) ends up
/// before y
pub proof fn theorem_l2_same_origins_commute(b: Seq<Node>, x: Node, y: Node, right: Option<ID>)
    requires l2_pre(x, y, right),
    ensures ({
        let mx = me_node(x, right);
        let my = me_node(y, right);
        // delivery order 1: x, then y
        let c1 = yata_cut(b, mx);
        let c2 = yata_cut(b.insert(c1, x), my);
        let f1 = b.insert(c1, x).insert(c2, y);
        // delivery order 2: y, then x
        let d1 = yata_cut(b, my);
        let d2 = yata_cut(b.insert(d1, y), mx);
        let f2 = b.insert(d1, y).insert(d2, x);
        &&& 0 <= c1 < c2 <= b.len() + 1 && f1[c1] == x && f1[c2] == y
        &&& 0 <= d2 <= d1 <= b.len() && f2[d2] == x && f2[d1 + 1] == y
    }),
{
    let mx = me_node(x, right);
    let my = me_node(y, right);
    lemma_l2_x_then_y(b, x, y, right);
    lemma_l2_y_then_x(b, x, y, right);
    lemma_placement(b, mx);
    lemma_placement(b, my);
    let c1 = yata_cut(b, mx);
    lemma_placement(b.insert(c1, x), my);
    let d1 = yata_cut(b, my);
    lemma_placement(b.insert(d1, y), mx);
}
// ---------------------------------------------------------------------------------------------
// L2+: for two such items the two delivery orders produce THE SAME LIST
// ---------------------------------------------------------------------------------------------
/// two insertions in either order
pub proof fn lemma_insert_commute(b: Seq<Node>, p: int, q: int, x: Node, y: Node)
    requires 0 <= p <= q <= b.len(),
    ensures b.insert(p, x).insert(q + 1, y) == b.insert(q, y).insert(p, x),
{
    assert(b.insert(p, x).insert(q + 1, y) =~= b.insert(q, y).insert(p, x));
}

/// where position p of a list ends up after an insertion at position c
pub open spec fn shift(p: int, c: int) -> int {
    if p < c { p } else { p + 1 }
}

pub proof fn lemma_pos_insert(b: Seq<Node>, c: int, x: Node, h: ID)
    requires 0 <= c <= b.len(), x.id != h,
    ensures pos_of(b.insert(c, x), h) == shift(pos_of(b, h), c),
{
    let b1 = b.insert(c, x);
    lemma_pos_of(b, h);
    let p = pos_of(b, h);
    let q = shift(p, c);
    assert forall|j: int| 0 <= j < q implies (#[trigger] b1[j]).id != h by {
        if j < c {
            assert(b1[j] == b[j]);
        } else if j == c {
            assert(b1[j] == x);
        } else {
            assert(b1[j] == b[j - 1]);
        }
    }
    if q < b1.len() {
        if p < c { assert(b1[q] == b[p]); } else { assert(b1[q] == b[p]); }
    }
    lemma_pos_unique(b1, h, q);
}

/// an item of the base list after the insertion of a NEW item x (no base item has its origin in x): same node, shifted position,
/// shifted origin position
pub proof fn lemma_insert_view(b: Seq<Node>, c: int, x: Node, j: int)
    requires
        0 <= c <= b.len(),
        0 <= j < b.len(),
        b[j].home != Some(x.id),
    ensures
        b.insert(c, x)[shift(j, c)] == b[j],
        origin_pos(b.insert(c, x), shift(j, c)) == shift(origin_pos(b, j), c),
{
    let b1 = b.insert(c, x);
    match b[j].home {
        Some(h) => { lemma_pos_insert(b, c, x, h); },
        None => {},
    }
}

pub proof fn lemma_right_ix_insert(b: Seq<Node>, c: int, x: Node, me: Me)
    requires
        0 <= c <= b.len(),
        me.right != Some(x.id),
    ensures
        right_ix(b.insert(c, x), me) == shift(right_ix(b, me), c),
{
    match me.right {
        Some(r) => { lemma_pos_insert(b, c, x, r); },
        None => {},
    }
}

/// a base item seen from a scanning item, before and after the insertion of a NEW item
pub proof fn lemma_insert_wants(b: Seq<Node>, c: int, x: Node, me: Me, j: int, d: int)
    requires
        0 <= c <= b.len(),
        0 <= j < b.len(),
        b[j].home != Some(x.id),
    ensures
        ends_scan(b.insert(c, x), me, shift(j, c)) == ends_scan(b, me, j),
        wants_left(b.insert(c, x), me, shift(j, c), shift(d, c)) == wants_left(b, me, j, d),
{
    lemma_insert_view(b, c, x, j);
}

/// x and y are NEW: no item of the base list has its origin in one of them
pub open spec fn l2_fresh(b: Seq<Node>, x: Node, y: Node) -> bool {
    forall|j: int| 0 <= j < b.len() ==> (#[trigger] b[j]).home != Some(x.id) && b[j].home != Some(y.id)
}

/// what x (lower client id) wants, y wants too; what ends y's scan ends x's scan
pub proof fn lemma_l2_compare(b: Seq<Node>, x: Node, y: Node, right: Option<ID>)
    requires l2_pre(x, y, right),
    ensures
        forall|j: int, c: int| 0 <= j < b.len() && #[trigger] wants_left(b, me_node(x, right), j, c) ==> wants_left(b, me_node(y, right), j, c),
        forall|j: int| 0 <= j < b.len() && #[trigger] ends_scan(b, me_node(y, right), j) ==> ends_scan(b, me_node(x, right), j),
        right_ix(b, me_node(x, right)) == right_ix(b, me_node(y, right)),
        scan_end(b, me_node(x, right)) <= scan_end(b, me_node(y, right)),
{
    let mx = me_node(x, right);
    let my = me_node(y, right);
    lemma_scan_end(b, mx);
    lemma_scan_end(b, my);
    let ex = scan_end(b, mx);
    let ey = scan_end(b, my);
    if ey < ex {
        assert(ends_scan(b, my, ey));
        assert(!ends_scan(b, mx, ey));
    }
}

/// (A) delivery order y, then x: x gets the position it gets in the base list
pub proof fn lemma_l2_x_after_y(b: Seq<Node>, x: Node, y: Node, right: Option<ID>)
    requires l2_pre(x, y, right),
    ensures ({
        let d1 = yata_cut(b, me_node(y, right));
        &&& yata_cut(b.insert(d1, y), me_node(x, right)) == yata_cut(b, me_node(x, right))
        &&& yata_cut(b, me_node(x, right)) <= d1
    }),
{
    let mx = me_node(x, right);
    let my = me_node(y, right);
    lemma_l2_compare(b, x, y, right);
    lemma_placement(b, mx);
    lemma_placement(b, my);
    lemma_scan_end(b, mx);
    lemma_scan_end(b, my);
    let ex = scan_end(b, mx);
    let ey = scan_end(b, my);
    let c1 = yata_cut(b, mx);
    let d1 = yata_cut(b, my);
    let b2 = b.insert(d1, y);
    let e2 = if ex < d1 { ex } else { d1 };
    lemma_right_ix_after_insert(b, d1, y, mx);
    assert(b2[d1] == y);
    assert(twin(mx, b2[d1]));
    // 1. x's scan of b2 ends at min(ex, d1)
    assert forall|j: int| 0 <= j < e2 implies !#[trigger] ends_scan(b2, mx, j) by {
        lemma_insert_prefix(b, d1, y, mx, j);
        assert(!ends_scan(b, mx, j));
    }
    if ex < d1 {
        lemma_insert_prefix(b, d1, y, mx, ex);
        assert(ends_scan(b, mx, ex));
    }
    lemma_scan_end_unique(b2, mx, e2);
    // 2. on the first e2 <= d1 items b2 and b look the same to x
    lemma_cut_at(b, mx, e2);
    let c = cut_at(b, mx, e2);
    assert forall|j: int, d: int| 0 <= d <= j < e2 implies #[trigger] wants_left(b2, mx, j, d) == wants_left(b, mx, j, d) by {
        assert(b2[j] == b[j]);
        match b[j].home {
            Some(h) => {
                assert forall|i: int| 0 <= i <= j implies (#[trigger] b2[i]).id == b[i].id by {}
                lemma_pos_prefix(b2, b, h, j);
                lemma_pos_of(b, h);
                lemma_pos_of(b2, h);
            },
            None => {},
        }
    }
    assert(closed(b2, mx, c, e2)) by {
        assert forall|j: int| c <= j < e2 implies !#[trigger] wants_left(b2, mx, j, c) by {
            assert(!wants_left(b, mx, j, c));
        }
    }
    assert forall|d: int| 0 <= d < c implies !#[trigger] closed(b2, mx, d, e2) by {
        assert(!closed(b, mx, d, e2));
        let j = choose|j: int| d <= j < e2 && wants_left(b, mx, j, d);
        assert(wants_left(b2, mx, j, d));
    }
    lemma_cut_unique(b2, mx, e2, c);
    // 3. ... and the items of b from d1 on do not move x's position: y's position d1 is closed for y, hence for x
    if d1 < ex {
        assert(closed(b, mx, c, ex)) by {
            assert forall|j: int| c <= j < ex implies !#[trigger] wants_left(b, mx, j, c) by {
                if j >= d1 {
                    assert(!wants_left(b, my, j, d1));
                    assert(!wants_left(b, mx, j, d1));
                }
            }
        }
        assert forall|d: int| 0 <= d < c implies !#[trigger] closed(b, mx, d, ex) by {
            assert(!closed(b, mx, d, e2));
            let j = choose|j: int| d <= j < e2 && wants_left(b, mx, j, d);
            assert(wants_left(b, mx, j, d));
        }
        lemma_cut_unique(b, mx, ex, c);
    }
}

/// (B) delivery order x, then y: y gets the position it gets in the base list, one further right (x is before it)
pub proof fn lemma_l2_y_after_x(b: Seq<Node>, x: Node, y: Node, right: Option<ID>)
    requires l2_pre(x, y, right), l2_fresh(b, x, y),
    ensures ({
        let c1 = yata_cut(b, me_node(x, right));
        yata_cut(b.insert(c1, x), me_node(y, right)) == yata_cut(b, me_node(y, right)) + 1
    }),
{
    let mx = me_node(x, right);
    let my = me_node(y, right);
    lemma_l2_compare(b, x, y, right);
    lemma_l2_x_after_y(b, x, y, right);
    lemma_placement(b, mx);
    lemma_placement(b, my);
    lemma_scan_end(b, my);
    let ey = scan_end(b, my);
    let c1 = yata_cut(b, mx);
    let d1 = yata_cut(b, my);
    let b1 = b.insert(c1, x);
    lemma_right_ix_insert(b, c1, x, my);
    assert(b1[c1] == x);
    assert(lower(my, b1[c1]));
    // 1. y's scan ends one further right
    assert forall|i: int| 0 <= i < ey + 1 implies !#[trigger] ends_scan(b1, my, i) by {
        if i < c1 {
            lemma_insert_wants(b, c1, x, my, i, 0);
            assert(!ends_scan(b, my, i));
        } else if i > c1 {
            lemma_insert_wants(b, c1, x, my, i - 1, 0);
            assert(!ends_scan(b, my, i - 1));
        }
    }
    if ey + 1 < right_ix(b1, my) {
        lemma_insert_wants(b, c1, x, my, ey, 0);
        assert(ends_scan(b, my, ey));
    }
    lemma_scan_end_unique(b1, my, ey + 1);
    // 2. d1 + 1 is closed ...
    assert forall|i: int| d1 + 1 <= i < ey + 1 implies !#[trigger] wants_left(b1, my, i, d1 + 1) by {
        lemma_insert_wants(b, c1, x, my, i - 1, d1);
        assert(!wants_left(b, my, i - 1, d1));
    }
    // ... and nothing before it is
    assert forall|d: int| 0 <= d < d1 + 1 implies !#[trigger] closed(b1, my, d, ey + 1) by {
        if d <= c1 {
            assert(wants_left(b1, my, c1, d));
        } else {
            let d0 = d - 1;
            assert(!closed(b, my, d0, ey));
            let j = choose|j: int| d0 <= j < ey && wants_left(b, my, j, d0);
            lemma_insert_wants(b, c1, x, my, j, d0);
            assert(wants_left(b1, my, j + 1, d));
        }
    }
    lemma_cut_unique(b1, my, ey + 1, d1 + 1);
}

/// (L2+) CONVERGENCE OF THE TWO-ITEM CASE: both delivery orders yield the same list
pub proof fn theorem_l2_same_list(b: Seq<Node>, x: Node, y: Node, right: Option<ID>)
    requires l2_pre(x, y, right), l2_fresh(b, x, y),
    ensures ({
        let mx = me_node(x, right);
        let my = me_node(y, right);
        let c1 = yata_cut(b, mx);
        let d1 = yata_cut(b, my);
        b.insert(c1, x).insert(yata_cut(b.insert(c1, x), my), y) == b.insert(d1, y).insert(yata_cut(b.insert(d1, y), mx), x)
    }),
{
    let mx = me_node(x, right);
    let my = me_node(y, right);
    lemma_l2_x_after_y(b, x, y, right);
    lemma_l2_y_after_x(b, x, y, right);
    lemma_placement(b, mx);
    lemma_placement(b, my);
    let c1 = yata_cut(b, mx);
    let d1 = yata_cut(b, my);
    lemma_insert_commute(b, c1, d1, x, y);
}

// ---------------------------------------------------------------------------------------------
// L3: two concurrent items with the same origin and DIFFERENT right origins (any right neighbours), any base list
// ---------------------------------------------------------------------------------------------
/// z is NEW with respect to the list: no item of the list has its origin in z
pub open spec fn fresh(b: Seq<Node>, z: Node) -> bool {
    forall|j: int| 0 <= j < b.len() ==> (#[trigger] b[j]).home != Some(z.id)
}

/// the position chosen so far never moves left
pub proof fn lemma_cut_monotone(s: Seq<Node>, me: Me, k: int, k2: int)
    requires 0 <= k <= k2,
    ensures cut_at(s, me, k) <= cut_at(s, me, k2),
    decreases k2 - k,
{
    if k < k2 {
        lemma_cut_monotone(s, me, k, k2 - 1);
        lemma_cut_step(s, me, k2 - 1);
        lemma_cut_at(s, me, k2 - 1);
    }
}

/// from the final position on nothing moves it any more
pub proof fn lemma_cut_stable(s: Seq<Node>, me: Me, e: int, k: int)
    requires 0 <= e, cut_at(s, me, e) <= k <= e,
    ensures cut_at(s, me, k) == cut_at(s, me, e),
    decreases e - k,
{
    lemma_cut_at(s, me, e);
    if k < e {
        lemma_left_neighbour_pulls(s, me, e);
        assert(!pulls(s, me, k));
        lemma_cut_step(s, me, k);
        lemma_cut_monotone(s, me, k + 1, e);
        lemma_cut_at(s, me, k + 1);
        lemma_cut_at(s, me, k);
        lemma_cut_stable(s, me, e, k + 1);
    }
}

/// on the items in front of an insertion nothing changes
pub proof fn lemma_cut_insert_prefix(b: Seq<Node>, q: int, z: Node, me: Me, k: int)
    requires 0 <= k <= q <= b.len(), fresh(b, z),
    ensures cut_at(b.insert(q, z), me, k) == cut_at(b, me, k),
{
    let b2 = b.insert(q, z);
    lemma_cut_at(b, me, k);
    let c = cut_at(b, me, k);
    assert forall|j: int, d: int| 0 <= d <= j < k implies #[trigger] wants_left(b2, me, j, d) == wants_left(b, me, j, d) by {
        lemma_insert_wants(b, q, z, me, j, d);
    }
    assert forall|j: int| c <= j < k implies !#[trigger] wants_left(b2, me, j, c) by {
        assert(!wants_left(b, me, j, c));
    }
    assert forall|d: int| 0 <= d < c implies !#[trigger] closed(b2, me, d, k) by {
        assert(!closed(b, me, d, k));
        let j = choose|j: int| d <= j < k && wants_left(b, me, j, d);
        assert(wants_left(b2, me, j, d));
    }
    lemma_cut_unique(b2, me, k, c);
}

/// the scan end after the insertion of a NEW item that does not end the scan itself
pub proof fn lemma_end_insert(b: Seq<Node>, q: int, z: Node, me: Me)
    requires
        0 <= q <= b.len(),
        fresh(b, z),
        me.right != Some(z.id),
        same_origin(me, z) && !twin(me, z),
    ensures
        scan_end(b.insert(q, z), me) == (if scan_end(b, me) < q { scan_end(b, me) } else { scan_end(b, me) + 1 }),
{
    let b2 = b.insert(q, z);
    lemma_scan_end(b, me);
    lemma_right_ix_insert(b, q, z, me);
    let e = scan_end(b, me);
    let e2 = if e < q { e } else { e + 1 };
    assert(b2[q] == z);
    assert forall|i: int| 0 <= i < e2 implies !#[trigger] ends_scan(b2, me, i) by {
        if i < q {
            lemma_insert_wants(b, q, z, me, i, 0);
            assert(!ends_scan(b, me, i));
        } else if i > q {
            lemma_insert_wants(b, q, z, me, i - 1, 0);
            assert(!ends_scan(b, me, i - 1));
        }
    }
    if e2 < right_ix(b2, me) {
        lemma_insert_wants(b, q, z, me, e, 0);
        assert(ends_scan(b, me, e));
    }
    lemma_scan_end_unique(b2, me, e2);
}

/// position tracking, 1: a NEW same-origin item z that is not lower than `me` (it never pulls) was inserted at q
pub proof fn lemma_track_nonpuller(b: Seq<Node>, q: int, z: Node, me: Me, k: int)
    requires
        0 <= q <= k <= b.len(),
        fresh(b, z),
        same_origin(me, z) && !lower(me, z),
    ensures
        cut_at(b.insert(q, z), me, k + 1) == (if cut_at(b, me, k) <= q { cut_at(b, me, k) } else { cut_at(b, me, k) + 1 }),
    decreases k - q,
{
    let b2 = b.insert(q, z);
    assert(b2[q] == z);
    if k == q {
        lemma_cut_insert_prefix(b, q, z, me, q);
        lemma_cut_step(b2, me, q);
        lemma_cut_at(b, me, q);
    } else {
        lemma_track_nonpuller(b, q, z, me, k - 1);
        let c = cut_at(b, me, k - 1);
        lemma_cut_at(b, me, k - 1);
        lemma_cut_step(b, me, k - 1);
        lemma_cut_step(b2, me, k);
        lemma_insert_wants(b, q, z, me, k - 1, c);
        if c == q {
            lemma_insert_view(b, q, z, k - 1);
        }
    }
}

/// position tracking, 2: a NEW same-origin item z with a LOWER client id (it always pulls) was inserted at p, where the
/// position chosen in front of p was p itself
pub proof fn lemma_track_puller(b: Seq<Node>, p: int, z: Node, me: Me, k: int)
    requires
        0 <= p <= k <= b.len(),
        fresh(b, z),
        lower(me, z),
        cut_at(b, me, p) == p,
    ensures
        cut_at(b.insert(p, z), me, k + 1) == cut_at(b, me, k) + 1,
    decreases k - p,
{
    let b1 = b.insert(p, z);
    assert(b1[p] == z);
    if k == p {
        lemma_cut_step(b1, me, p);
    } else {
        lemma_track_puller(b, p, z, me, k - 1);
        let c = cut_at(b, me, k - 1);
        lemma_cut_monotone(b, me, p, k - 1);
        lemma_cut_step(b, me, k - 1);
        lemma_cut_step(b1, me, k);
        lemma_insert_wants(b, p, z, me, k - 1, c);
    }
}

/// the hypotheses of L3 (x is the one with the lower client id)
pub open spec fn l3_pre(b: Seq<Node>, x: Node, y: Node, rx: Option<ID>, ry: Option<ID>) -> bool {
    &&& x.origin == y.origin
    &&& x.right_origin != y.right_origin
    &&& client_lt(x.id.client, y.id.client)
    &&& fresh(b, x) && fresh(b, y)
    &&& rx != Some(x.id) && rx != Some(y.id) && ry != Some(x.id) && ry != Some(y.id)
}

/// scanning the same items the lower client's position is never right of the higher client's
pub proof fn lemma_l3_x_le_y(b: Seq<Node>, mx: Me, my: Me, k: int)
    requires
        0 <= k,
        mx.origin == my.origin,
        client_lt(mx.client, my.client),
    ensures
        cut_at(b, mx, k) <= cut_at(b, my, k),
    decreases k,
{
    if k == 0 {
        lemma_cut_at(b, mx, 0);
        lemma_cut_at(b, my, 0);
    } else {
        lemma_l3_x_le_y(b, mx, my, k - 1);
        lemma_cut_step(b, mx, k - 1);
        lemma_cut_step(b, my, k - 1);
        lemma_cut_at(b, mx, k - 1);
        lemma_cut_at(b, my, k - 1);
    }
}

/// (L3, delivery order y then x)
pub proof fn lemma_l3_x_after_y(b: Seq<Node>, x: Node, y: Node, rx: Option<ID>, ry: Option<ID>)
    requires l3_pre(b, x, y, rx, ry),
    ensures ({
        let p = yata_cut(b, me_node(x, rx));
        let q = yata_cut(b, me_node(y, ry));
        yata_cut(b.insert(q, y), me_node(x, rx)) == (if p <= q { p } else { p + 1 })
    }),
{
    let mx = me_node(x, rx);
    let my = me_node(y, ry);
    lemma_placement(b, mx);
    lemma_placement(b, my);
    let p = yata_cut(b, mx);
    let q = yata_cut(b, my);
    let ex = scan_end(b, mx);
    lemma_end_insert(b, q, y, mx);
    if ex < q {
        lemma_cut_insert_prefix(b, q, y, mx, ex);
    } else {
        lemma_track_nonpuller(b, q, y, mx, ex);
    }
}

/// (L3, delivery order x then y)
pub proof fn lemma_l3_y_after_x(b: Seq<Node>, x: Node, y: Node, rx: Option<ID>, ry: Option<ID>)
    requires l3_pre(b, x, y, rx, ry),
    ensures ({
        let p = yata_cut(b, me_node(x, rx));
        let q = yata_cut(b, me_node(y, ry));
        &&& yata_cut(b.insert(p, x), me_node(y, ry)) == (if q < p { q } else { q + 1 })
        &&& q < p <==> scan_end(b, me_node(y, ry)) < p
    }),
{
    let mx = me_node(x, rx);
    let my = me_node(y, ry);
    lemma_placement(b, mx);
    lemma_placement(b, my);
    let p = yata_cut(b, mx);
    let q = yata_cut(b, my);
    let ex = scan_end(b, mx);
    let ey = scan_end(b, my);
    lemma_end_insert(b, p, x, my);
    if ey < p {
        lemma_cut_insert_prefix(b, p, x, my, ey);
    } else {
        // in front of p the position chosen for y is p: not left of x's (which is p from p on), not right of p
        lemma_cut_stable(b, mx, ex, p);
        lemma_l3_x_le_y(b, mx, my, p);
        lemma_cut_at(b, my, p);
        lemma_track_puller(b, p, x, my, ey);
        lemma_cut_monotone(b, my, p, ey);
    }
}

/// (L3) CONVERGENCE OF TWO CONCURRENT INSERTIONS AFTER THE SAME ORIGIN WITH DIFFERENT RIGHT ORIGINS: both delivery orders
/// yield the same list, for EVERY base list
pub proof fn theorem_l3_same_list(b: Seq<Node>, x: Node, y: Node, rx: Option<ID>, ry: Option<ID>)
    requires l3_pre(b, x, y, rx, ry),
    ensures ({
        let mx = me_node(x, rx);
        let my = me_node(y, ry);
        let p = yata_cut(b, mx);
        let q = yata_cut(b, my);
        b.insert(p, x).insert(yata_cut(b.insert(p, x), my), y) == b.insert(q, y).insert(yata_cut(b.insert(q, y), mx), x)
    }),
{
    let mx = me_node(x, rx);
    let my = me_node(y, ry);
    lemma_l3_x_after_y(b, x, y, rx, ry);
    lemma_l3_y_after_x(b, x, y, rx, ry);
    lemma_placement(b, mx);
    lemma_placement(b, my);
    let p = yata_cut(b, mx);
    let q = yata_cut(b, my);
    if q < p {
        lemma_insert_commute(b, q, p, y, x);
    } else {
        lemma_insert_commute(b, p, q, x, y);
    }
}

// ---------------------------------------------------------------------------------------------
// test vectors of the specification (the spec is not vacuous and says what the comments say)
// ---------------------------------------------------------------------------------------------
pub open spec fn ex_id(client: u64, clock: u32) -> ID {
    ID { client: ClientID(client), clock }
}

pub open spec fn ex_node(client: u64, clock: u32, origin: Option<ID>, right_origin: Option<ID>, home: Option<ID>) -> Node {
    Node { id: ex_id(client, clock), len: 1, origin, right_origin, home }
}

/// the new item `me` (client 5) and the list [x (client cx)] -- both inserted after the same origin A = 9#0 (which is LEFT of the
/// list), both with no right origin: the lower client id goes first
pub proof fn example_two_siblings(cx: u64)
    requires cx != 5,
    ensures ({
        let a = Some(ex_id(9, 0));
        let s = seq![ex_node(cx, 0, a, None, a)];
        let m = Me { client: ClientID(5), origin: a, right_origin: None, right: None };
        yata_cut(s, m) == (if cx < 5 { 1int } else { 0int })
    }),
{
    let a = Some(ex_id(9, 0));
    let s = seq![ex_node(cx, 0, a, None, a)];
    let m = Me { client: ClientID(5), origin: a, right_origin: None, right: None };
    assert(s[0] == ex_node(cx, 0, a, None, a));
    if cx < 5 {
        lemma_scan_end_unique(s, m, 1);
        assert(wants_left(s, m, 0, 0));
        lemma_cut_unique(s, m, 1, 1);
    } else {
        assert(twin(m, s[0]));
        lemma_scan_end_unique(s, m, 0);
        lemma_cut_unique(s, m, 0, 0);
    }
}

/// NO INTERLEAVING: the list holds a two-element insertion [x1, x2] of client cx after origin A (x2's origin is x1); the new item
/// `me` (client 5) was also inserted after A.  It goes before BOTH (cx > 5) or after BOTH (cx < 5), never between them
pub proof fn example_no_interleaving(cx: u64)
    requires cx != 5,
    ensures ({
        let a = Some(ex_id(9, 0));
        let x1 = Some(ex_id(cx, 0));
        let s = seq![ex_node(cx, 0, a, None, a), ex_node(cx, 1, x1, None, x1)];
        let m = Me { client: ClientID(5), origin: a, right_origin: None, right: None };
        yata_cut(s, m) == (if cx < 5 { 2int } else { 0int })
    }),
{
    let a = Some(ex_id(9, 0));
    let x1 = Some(ex_id(cx, 0));
    let s = seq![ex_node(cx, 0, a, None, a), ex_node(cx, 1, x1, None, x1)];
    let m = Me { client: ClientID(5), origin: a, right_origin: None, right: None };
    assert(s[0] == ex_node(cx, 0, a, None, a));
    assert(s[1] == ex_node(cx, 1, x1, None, x1));
    if cx < 5 {
        // x1 has the lower client id; x2's origin x1 is in the list, at position 0
        lemma_pos_unique(s, ex_id(cx, 0), 0);
        assert(origin_pos(s, 1) == 0);
        assert(!ends_scan(s, m, 0));
        assert(!ends_scan(s, m, 1));
        lemma_scan_end_unique(s, m, 2);
        assert(wants_left(s, m, 0, 0));
        assert(wants_left(s, m, 1, 1));
        lemma_cut_unique(s, m, 2, 2);
    } else {
        assert(twin(m, s[0]));
        lemma_scan_end_unique(s, m, 0);
        lemma_cut_unique(s, m, 0, 0);
    }
}

/// ORIGIN CROSSING: the list is [y] where y's origin is an item LEFT of the new item's origin (not in the list: `home` is an id
/// that no list member has); the new item is placed before y whatever the client ids
pub proof fn example_origin_crossing(cy: u64)
    ensures ({
        let a = Some(ex_id(9, 5));
        let earlier = Some(ex_id(9, 0));
        let s = seq![ex_node(cy, 7, earlier, None, earlier)];
        let m = Me { client: ClientID(5), origin: a, right_origin: None, right: None };
        yata_cut(s, m) == 0
    }),
{
    let a = Some(ex_id(9, 5));
    let earlier = Some(ex_id(9, 0));
    let s = seq![ex_node(cy, 7, earlier, None, earlier)];
    let m = Me { client: ClientID(5), origin: a, right_origin: None, right: None };
    assert(s[0] == ex_node(cy, 7, earlier, None, earlier));
    lemma_pos_of(s, ex_id(9, 0));
    assert(origin_pos(s, 0) == 1);
    assert(foreign(s, m, 0));
    lemma_scan_end_unique(s, m, 0);
    lemma_cut_unique(s, m, 0, 0);
}

// ---------------------------------------------------------------------------------------------
// the list view
// ---------------------------------------------------------------------------------------------
pub open spec fn rights(start: Option<ItemPtr>) -> Seq<ItemPtr>
    decreases start,
{
    match start {
        None => Seq::empty(),
        Some(i) => seq![i] + rights(i.right),
    }
}

pub open spec fn leftmost(p: ItemPtr) -> ItemPtr
    decreases p,
{
    match p.left {
        Some(l) => leftmost(l),
        None => p,
    }
}

pub open spec fn leftmost_opt(p: Option<ItemPtr>) -> Option<ItemPtr> {
    match p { Some(q) => Some(leftmost(q)), None => None }
}

pub open spec fn branch_of(me: &Item) -> BranchPtr {
    match me.parent { TypePtr::Branch(b) => b, _ => arbitrary() }
}

/// the first conflicting item
pub open spec fn first_conflict(me: &Item) -> Option<ItemPtr> {
    match me.left {
        Some(l) => l.right,
        None => match me.parent_sub {
            Some(sub) => if branch_of(me).map@.contains_key(sub) { Some(leftmost(branch_of(me).map@[sub])) } else { None },
            None => branch_of(me).start,
        },
    }
}

pub open spec fn home_of<B: StoreApi>(st: &B, origin: Option<ID>) -> Option<ID> {
    match origin {
        Some(oid) => match st.lookup(oid) { Some(q) => Some(q.id), None => None },
        None => None,
    }
}

pub open spec fn node_of<B: StoreApi>(st: &B, p: ItemPtr) -> Node {
    Node { id: p.id, len: p.len, origin: p.origin, right_origin: p.right_origin, home: home_of(st, p.origin) }
}

pub open spec fn nodes<B: StoreApi>(st: &B, l: Seq<ItemPtr>) -> Seq<Node> {
    Seq::new(l.len(), |j: int| node_of(st, l[j]))
}

pub open spec fn me_of(it: &Item) -> Me {
    Me { client: it.id.client, origin: it.origin, right_origin: it.right_origin,
         right: match it.right { Some(r) => Some(r.id), None => None } }
}

/// the left neighbour that goes with a cut position
pub open spec fn place(l: Seq<ItemPtr>, left0: Option<ItemPtr>, c: int) -> Option<ItemPtr> {
    if c <= 0 { left0 } else { Some(l[c - 1]) }
}

/// H1
pub open spec fn ids_unique(l: Seq<ItemPtr>) -> bool {
    forall|i: int, j: int| 0 <= i < j < l.len() ==> (#[trigger] l[i]).id != (#[trigger] l[j]).id
}

/// H2
pub open spec fn lookup_identity<B: StoreApi>(st: &B, l: Seq<ItemPtr>) -> bool {
    forall|k: int, j: int| 0 <= k < l.len() && 0 <= j < l.len() && (#[trigger] l[k]).origin is Some
        && st.lookup(l[k].origin.unwrap()) is Some && st.lookup(l[k].origin.unwrap()).unwrap().id == (#[trigger] l[j]).id
        ==> st.lookup(l[k].origin.unwrap()).unwrap() == l[j]
}

pub open spec fn in_range(l: Seq<ItemPtr>, a: int, b: int, p: ItemPtr) -> bool {
    exists|j: int| a <= j < b && 0 <= j < l.len() && #[trigger] l[j] == p
}

/// the state of the scan in front of item k
pub open spec fn scan_inv<B: StoreApi>(st: &B, l: Seq<ItemPtr>, me: &Item, k: int, cs: int, left: Option<ItemPtr>, before: Set<ItemPtr>, conflicting: Set<ItemPtr>) -> bool {
    let s = nodes(st, l);
    let m = me_of(me);
    &&& 0 <= cs <= k <= l.len()
    &&& k <= right_ix(s, m) <= l.len()
    &&& end_from(s, m, k) == scan_end(s, m)
    &&& cs == cut_at(s, m, k)
    &&& left == place(l, me.left, cs)
    &&& forall|p: ItemPtr| #[trigger] before.contains(p) <==> in_range(l, 0, k, p)
    &&& forall|p: ItemPtr| #[trigger] conflicting.contains(p) <==> in_range(l, cs, k, p)
}

pub proof fn lemma_rights_skip(o: Option<ItemPtr>)
    ensures
        o is Some ==> rights(o).len() > 0 && rights(o)[0] == o.unwrap() && rights(o).skip(1) =~= rights(o.unwrap().right),
        o is None ==> rights(o).len() == 0,
{
}

/// everything the scan step needs, about position k
pub proof fn lemma_step_facts<B: StoreApi>(st: &B, l: Seq<ItemPtr>, me: &Item, k: int, cs: int, left: Option<ItemPtr>, before: Set<ItemPtr>, conflicting: Set<ItemPtr>)
    requires
        ids_unique(l),
        lookup_identity(st, l),
        scan_inv(st, l, me, k, cs, left, before, conflicting),
        k < l.len(),
    ensures ({
        let s = nodes(st, l);
        let m = me_of(me);
        let c = l[k];
        let hit = match c.origin { Some(oid) => st.lookup(oid), None => None };
        &&& s.len() == l.len()
        &&& s[k] == node_of(st, c)
        // the right neighbour
        &&& (me.right is Some && me.right.unwrap().id == c.id) <==> k == right_ix(s, m)
        &&& k == right_ix(s, m) ==> scan_end(s, m) == k
        &&& k < right_ix(s, m) && ends_scan(s, m, k) ==> scan_end(s, m) == k
        &&& k < right_ix(s, m) && !ends_scan(s, m, k) ==> end_from(s, m, k + 1) == scan_end(s, m) && k + 1 <= right_ix(s, m) && k < scan_end(s, m)
        // the tests on the two sets after `c` has been inserted into both
        &&& hit is None ==> origin_pos(s, k) > k
        &&& hit is Some ==> (before.insert(c).contains(hit.unwrap()) <==> origin_pos(s, k) <= k)
        &&& hit is Some && origin_pos(s, k) <= k ==> (conflicting.insert(c).contains(hit.unwrap()) <==> cs <= origin_pos(s, k))
        // the next state
        &&& cut_at(s, m, k + 1) == (if wants_left(s, m, k, cs) { k + 1 } else { cs })
        &&& forall|p: ItemPtr| #[trigger] before.insert(c).contains(p) <==> in_range(l, 0, k + 1, p)
        &&& forall|p: ItemPtr| #[trigger] conflicting.insert(c).contains(p) <==> in_range(l, cs, k + 1, p)
        &&& forall|p: ItemPtr| #[trigger] Set::<ItemPtr>::empty().contains(p) <==> in_range(l, k + 1, k + 1, p)
    }),
{
    let s = nodes(st, l);
    let m = me_of(me);
    let c = l[k];
    lemma_right_ix(s, m);
    lemma_scan_end(s, m);
    lemma_cut_step(s, m, k);
    if k < right_ix(s, m) { lemma_end_from(s, m, k + 1); }
    match me.right {
        Some(r) => {
            lemma_pos_of(s, r.id);
            if r.id == c.id {
                assert(s[k].id == r.id);
            }
        },
        None => {},
    }
    let hit = match c.origin { Some(oid) => st.lookup(oid), None => None };
    match hit {
        Some(p) => {
            assert(s[k].home == Some(p.id));
            lemma_pos_of(s, p.id);
            let q = pos_of(s, p.id);
            if q <= k {
                assert(s[q].id == l[q].id);
                assert(l[q] == p);
                assert(in_range(l, 0, k + 1, p));
                if cs <= q { assert(in_range(l, cs, k + 1, p)); }
            }
            if in_range(l, 0, k + 1, p) {
                let j = choose|j: int| 0 <= j < k + 1 && 0 <= j < l.len() && #[trigger] l[j] == p;
                assert(s[j].id == p.id);
            }
            if in_range(l, cs, k + 1, p) {
                let j = choose|j: int| cs <= j < k + 1 && 0 <= j < l.len() && #[trigger] l[j] == p;
                assert(s[j].id == p.id);
                if q < j { assert(l[q].id != l[j].id); }
            }
        },
        None => {},
    }
    assert forall|p: ItemPtr| #[trigger] before.insert(c).contains(p) <==> in_range(l, 0, k + 1, p) by {
        if in_range(l, 0, k + 1, p) {
            let j = choose|j: int| 0 <= j < k + 1 && 0 <= j < l.len() && #[trigger] l[j] == p;
            if j < k { assert(in_range(l, 0, k, p)); }
        }
        if in_range(l, 0, k, p) {
            let j = choose|j: int| 0 <= j < k && 0 <= j < l.len() && #[trigger] l[j] == p;
            assert(in_range(l, 0, k + 1, p));
        }
        if p == c { assert(l[k] == p); assert(in_range(l, 0, k + 1, p)); }
    }
    assert forall|p: ItemPtr| #[trigger] conflicting.insert(c).contains(p) <==> in_range(l, cs, k + 1, p) by {
        if in_range(l, cs, k + 1, p) {
            let j = choose|j: int| cs <= j < k + 1 && 0 <= j < l.len() && #[trigger] l[j] == p;
            if j < k { assert(in_range(l, cs, k, p)); }
        }
        if in_range(l, cs, k, p) {
            let j = choose|j: int| cs <= j < k && 0 <= j < l.len() && #[trigger] l[j] == p;
            assert(in_range(l, cs, k + 1, p));
        }
        if p == c { assert(l[k] == p); assert(in_range(l, cs, k + 1, p)); }
    }
}

pub proof fn lemma_scan_init<B: StoreApi>(st: &B, l: Seq<ItemPtr>, me: &Item)
    ensures scan_inv(st, l, me, 0, 0, me.left, Set::<ItemPtr>::empty(), Set::<ItemPtr>::empty()),
{
    let s = nodes(st, l);
    let m = me_of(me);
    lemma_right_ix(s, m);
    lemma_cut_at(s, m, 0);
}

// ---------------------------------------------------------------------------------------------
// the contracts
// ---------------------------------------------------------------------------------------------
pub open spec fn opt_same(a: Option<ItemPtr>, b: Option<ItemPtr>) -> bool {
    match (a, b) {
        (None, None) => true,
        (Some(x), Some(y)) => x.id == y.id,
        _ => false,
    }
}

/// (P4) the item is already glued between its two neighbours
pub open spec fn glued(me: &Item) -> bool {
    match (me.left, me.right) {
        (Some(l), _) => opt_same(l.right, me.right),
        (None, Some(r)) => r.left is None,
        (None, None) => false,
    }
}

/// H0 + H1 + H2 (see the header)
pub open spec fn heap_ok<B: StoreApi>(st: &B, me: &Item) -> bool {
    &&& me.parent is Branch
    &&& ids_unique(rights(first_conflict(me)))
    &&& lookup_identity(st, rights(first_conflict(me)))
}

/// (P1) PLACEMENT
pub open spec fn p1_placement(l: Seq<ItemPtr>, s: Seq<Node>, m: Me, left0: Option<ItemPtr>, new_left: Option<ItemPtr>) -> bool {
    let e = scan_end(s, m);
    let c = yata_cut(s, m);
    let r = right_ix(s, m);
    &&& 0 <= c <= e <= r <= l.len()
    &&& new_left == place(l, left0, c)
}

/// (P2) TIE-BREAK among the items with the new item's origin
pub open spec fn p2_tie_break(s: Seq<Node>, m: Me) -> bool {
    let e = scan_end(s, m);
    let c = yata_cut(s, m);
    let r = right_ix(s, m);
    // a scanned same-origin item with a LOWER client id is LEFT of the new item (whatever the right origins)
    &&& forall|j: int| 0 <= j < e && lower(m, #[trigger] s[j]) ==> j < c
    // a same-origin item before the right neighbour with the SAME right origin and a client id that is not lower is RIGHT of it
    // (and so is everything after it: the scan ends there)
    &&& forall|j: int| 0 <= j < r && twin(m, #[trigger] s[j]) ==> c <= e <= j
    // DIFFERENT right origin, client id not lower: RIGHT of it, unless a LATER scanned item pulls
    &&& forall|j: int| 0 <= j < e && open_case(m, #[trigger] s[j]) ==> (j < c <==> exists|k: int| j < k < e && #[trigger] pulls(s, m, k))
}

/// (P3) ORIGIN CROSSING
pub open spec fn p3_origin_crossing(s: Seq<Node>, m: Me) -> bool {
    let e = scan_end(s, m);
    let c = yata_cut(s, m);
    let r = right_ix(s, m);
    // an item (before the right neighbour) with another origin that is not among the items up to itself ends the scan: the new
    // item is placed before it
    &&& forall|j: int| 0 <= j < r && #[trigger] foreign(s, m, j) ==> c <= e <= j
    // a scanned item with another origin has its origin among the items up to itself and is on the SAME SIDE of the new item as
    // its origin
    &&& forall|j: int| 0 <= j < e && !same_origin(m, #[trigger] s[j]) ==> origin_pos(s, j) <= j && (origin_pos(s, j) < c <==> j < c)
}

/// EXACTNESS: the scan end is the FIRST item that ends the scan (or the right neighbour / the end of the list), and the chosen
/// position is the LEFT-MOST one right of which (up to the scan end) no item wants to be left of the new item
pub open spec fn p_exact(s: Seq<Node>, m: Me) -> bool {
    let e = scan_end(s, m);
    let c = yata_cut(s, m);
    let r = right_ix(s, m);
    &&& e < r ==> ends_scan(s, m, e)
    &&& forall|j: int| 0 <= j < e ==> !#[trigger] ends_scan(s, m, j)
    &&& closed(s, m, c, e)
    &&& forall|d: int| 0 <= d < c ==> !#[trigger] closed(s, m, d, e)
}

pub proof fn lemma_contract(s: Seq<Node>, m: Me)
    ensures
        0 <= yata_cut(s, m) <= scan_end(s, m) <= right_ix(s, m) <= s.len(),
        p2_tie_break(s, m),
        p3_origin_crossing(s, m),
        p_exact(s, m),
{
    lemma_placement(s, m);
    lemma_scan_end(s, m);
    let e = scan_end(s, m);
    let c = yata_cut(s, m);
    assert forall|j: int| 0 <= j < e && open_case(m, #[trigger] s[j]) implies (j < c <==> exists|k: int| j < k < e && #[trigger] pulls(s, m, k)) by {
        lemma_open_case(s, m, j);
    }
}

/// WHY THE GUARD `if item.detect_conflict() { item.resolve_conflict(..) }` OF integrate_item LOSES NOTHING: for an item that
/// is already glued between its neighbours the contract of `resolve_conflict` yields the incoming left neighbour (position 0:
/// the scan meets the right neighbour, or the end of the list, at once).  For an item without left neighbour this needs the
/// heap fact that the first conflicting item (the start of the parent's list / the left-most item of the key's chain) IS the
/// right neighbour -- `r.left is None` says exactly that of a well-linked list.
pub proof fn lemma_glued_is_noop<B: StoreApi>(st: &B, me: &Item)
    requires
        glued(me),
        me.left is None ==> opt_same(first_conflict(me), me.right),
    ensures
        yata_cut(nodes(st, rights(first_conflict(me))), me_of(me)) == 0,
        place(rights(first_conflict(me)), me.left, yata_cut(nodes(st, rights(first_conflict(me))), me_of(me))) == me.left,
{
    let l = rights(first_conflict(me));
    let s = nodes(st, l);
    let m = me_of(me);
    lemma_placement(s, m);
    lemma_rights_skip(first_conflict(me));
    assert(opt_same(first_conflict(me), me.right));
    match me.right {
        Some(r) => {
            assert(s[0].id == r.id);
            lemma_pos_unique(s, r.id, 0);
        },
        None => {},
    }
}

impl Item {
    /*@extract yrs/src/block.rs | impl Item | fn id | label=Item.id
    @ret r
    @sig
        ensures *r == self.id,
    @*/

    // (P4) exact over the view
    /*@extract yrs/src/block.rs | impl Item | fn detect_conflict
    @ret r
    @sig
        ensures
            r == !glued(self),
    @*/

    // (P1) (P2) (P3) (P5) + exactness
    /*@extract yrs/src/block.rs | impl Item | fn resolve_conflict | rules=SUB(from=fn resolve_conflict;;to=fn resolve_conflict<B: StoreApi>) SUB(from=blocks: &mut BlockStore;;to=blocks: &mut B)
    @sig
        requires
            // H0, H1, H2
            heap_ok(old(blocks), old(self)),
        ensures
            // (P5) frame: only `self.left` changes; the store is only read
            *final(blocks) == *old(blocks),
            *final(self) == (Item { left: final(self).left, ..*old(self) }),
            // (P1) PLACEMENT
            p1_placement(rights(first_conflict(old(self))), nodes(old(blocks), rights(first_conflict(old(self)))), me_of(old(self)), old(self).left, final(self).left),
            // (P2) TIE-BREAK
            p2_tie_break(nodes(old(blocks), rights(first_conflict(old(self)))), me_of(old(self))),
            // (P3) ORIGIN CROSSING
            p3_origin_crossing(nodes(old(blocks), rights(first_conflict(old(self)))), me_of(old(self))),
            // EXACT
            p_exact(nodes(old(blocks), rights(first_conflict(old(self)))), me_of(old(self))),
    @before 1 `stmt:while`
        let ghost vx_o0 = o;
    @loop 1
        invariant
            leftmost_opt(o) == leftmost_opt(vx_o0),
        ensures
            o == leftmost_opt(vx_o0),
        decreases o,
    @before 1 `stmt:while ~ items_before_origin`
        let ghost vx_l = rights(o);
        let ghost mut vx_k: int = 0;
        let ghost mut vx_cs: int = 0;
        proof {
            assert(o == first_conflict(self));
            lemma_scan_init(blocks, vx_l, self);
            assert(rights(o) =~= vx_l.skip(0));
            lemma_rights_skip(o);
        }
    @loop 2
        invariant_except_break
            scan_inv(blocks, vx_l, self, vx_k, vx_cs, left, items_before_origin@, conflicting_items@),
            rights(o) == vx_l.skip(vx_k),
            o is None ==> vx_k == vx_l.len(),
        invariant
            *self == *old(self),
            *blocks == *old(blocks),
            ids_unique(vx_l),
            lookup_identity(blocks, vx_l),
        ensures
            left == place(vx_l, self.left, yata_cut(nodes(blocks, vx_l), me_of(self))),
        decreases o,
    @loopstart 2
        proof {
            lemma_rights_skip(o);
            assert(vx_l.skip(vx_k).len() > 0);
            assert(item == vx_l[vx_k]);
            lemma_step_facts(blocks, vx_l, self, vx_k, vx_cs, left, items_before_origin@, conflicting_items@);
        }
    @closure 1 `|id: &ID| -> (vx_r: Option<ItemPtr>)`
        ensures vx_r == blocks.lookup(*id),
    @loopend 2
        proof {
            vx_cs = if wants_left(nodes(blocks, vx_l), me_of(self), vx_k, vx_cs) { vx_k + 1 } else { vx_cs };
            vx_k = vx_k + 1;
            assert(vx_l.skip(vx_k - 1).skip(1) =~= vx_l.skip(vx_k));
            lemma_rights_skip(o);
        }
    @afterloop 2
        proof {
            lemma_contract(nodes(blocks, vx_l), me_of(self));
        }
    @*/
}

// The three parts of `resolve_conflict` in front of / inside the scan loop, each lifted on its own (R18 statement regions; same
// source text), so that an edit of one of them fails a CONTRACT clause of real code and not only a hint spliced into
// `resolve_conflict`:
//   (1) the choice of the first conflicting item
/*@extract yrs/src/block.rs | impl Item | region resolve_conflict | stmt=stmt:let o | stmtnth=1 | tail=o | label=yata_first_conflict | rules=SUB(from=self.;;to=this.)
@header
    fn yata_first_conflict(this: &Item, parent: &BranchPtr) -> (r: Option<ItemPtr>)
@sig
    requires
        this.parent == TypePtr::Branch(*parent),
    ensures
        // left.right, or the left-most item of the key's chain, or the start of the parent's list
        r == first_conflict(this),
@before 1 `stmt:while`
    let ghost vx_o0 = o;
@loop 1
    invariant
        leftmost_opt(o) == leftmost_opt(vx_o0),
    ensures
        o == leftmost_opt(vx_o0),
    decreases o,
@*/

//   (1b) the BODY of the walk to the left-most item of a key's chain (`continue` is spelled `return (true, o)`, `break`
//        `return (false, o)`)
/*@extract yrs/src/block.rs | impl Item | region resolve_conflict | stmt=stmt:while #1 >> stmt:if | stmtnth=1 | upto=stmt:while #1 >> stmt:break | tail=(false, o) | label=yata_chain_step | rules=SUB(from=continue;;to=return (true, o)) SUB(from=break;;to=return (false, o))
@header
    fn yata_chain_step(item: ItemPtr, mut o: Option<ItemPtr>) -> (r: (bool, Option<ItemPtr>))
@sig
    requires
        o == Some(item),
    ensures
        // the walk goes on, to the LEFT neighbour, iff there is one; otherwise it stays on the item
        r.0 == (item.left is Some),
        r.1 == (if item.left is Some { item.left } else { Some(item) }),
        leftmost_opt(r.1) == Some(leftmost(item)),
@*/

//   (2) the initial state of the scan
/*@extract yrs/src/block.rs | impl Item | region resolve_conflict | stmt=stmt:let left | stmtnth=1 | upto=stmt:let items_before_origin | tail=(left, conflicting_items, items_before_origin) | label=yata_scan_init | rules=SUB(from=self.;;to=this.)
@header
    fn yata_scan_init<B: StoreApi>(this: &Item, Ghost(st): Ghost<&B>, Ghost(vx_l): Ghost<Seq<ItemPtr>>) -> (r: (Option<ItemPtr>, HashSet<ItemPtr>, HashSet<ItemPtr>))
@sig
    ensures
        // in front of item 0: nothing scanned, the position is the incoming one
        scan_inv(st, vx_l, this, 0, 0, r.0, r.2@, r.1@),
@after 1 `stmt:let items_before_origin`
    proof {
        lemma_scan_init(st, vx_l, this);
    }
@*/

//   (3) the BODY of the scan loop: one scan step as a function with a contract over positions (`break` is spelled
//       `return (false, left, o)`, falling through returns (true, left, o); `self` is the parameter `this`; the ghost parameters
//       name the list view, the position k of `item` in it and the position chosen so far)
/*@extract yrs/src/block.rs | impl Item | region resolve_conflict | stmt=stmt:while ~ items_before_origin >> stmt:if | stmtnth=1 | upto=stmt:while ~ items_before_origin >> stmt:assign o | tail=(true, left, o) | label=yata_scan_step | rules=SUB(from=self.;;to=this.) SUB(from=break;;to=return (false, left, o))
@header
    fn yata_scan_step<B: StoreApi>(this: &Item, blocks: &mut B, item: ItemPtr, mut o: Option<ItemPtr>, mut left: Option<ItemPtr>, conflicting_items: &mut HashSet<ItemPtr>, items_before_origin: &mut HashSet<ItemPtr>, Ghost(vx_l): Ghost<Seq<ItemPtr>>, Ghost(vx_k): Ghost<int>, Ghost(vx_cs): Ghost<int>) -> (r: (bool, Option<ItemPtr>, Option<ItemPtr>))
@sig
    requires
        // H1, H2
        ids_unique(vx_l),
        lookup_identity(old(blocks), vx_l),
        // the scan stands in front of item k of the list
        scan_inv(old(blocks), vx_l, this, vx_k, vx_cs, left, old(items_before_origin)@, old(conflicting_items)@),
        vx_k < vx_l.len(),
        item == vx_l[vx_k],
        o == Some(item),
    ensures
        *final(blocks) == *old(blocks),
        // the scan goes on iff item k is before the scan end
        r.0 == (vx_k < scan_end(nodes(old(blocks), vx_l), me_of(this))),
        // going on: next item, and the state of the scan in front of item k + 1 (the position chosen so far is the cut for the
        // first k + 1 items)
        r.0 ==> r.2 == item.right && scan_inv(old(blocks), vx_l, this, vx_k + 1, cut_at(nodes(old(blocks), vx_l), me_of(this), vx_k + 1), r.1, final(items_before_origin)@, final(conflicting_items)@),
        // ending: item k IS the scan end and the left neighbour is the one of the final position
        !r.0 ==> vx_k == scan_end(nodes(old(blocks), vx_l), me_of(this)) && r.1 == place(vx_l, this.left, yata_cut(nodes(old(blocks), vx_l), me_of(this))),
@start
    proof {
        lemma_step_facts(blocks, vx_l, this, vx_k, vx_cs, left, items_before_origin@, conflicting_items@);
    }
@closure 1 `|id: &ID| -> (vx_r: Option<ItemPtr>)`
    ensures vx_r == blocks.lookup(*id),
@*/

} // verus!
fn main() {}
