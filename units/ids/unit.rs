// unit `ids` — IdRanges<T> (yrs/src/ids.rs, yrs/src/id_set.rs) under contract.  Serves C16.
// Function bodies are pulled from /repo on every run by vx/extract.py; this file holds only the
// abstraction (view / canonical form), the contracts and the proof hints.
#![allow(unused_imports, unused_variables, unused_mut, dead_code, unused_parens, unused_braces)]
use vstd::prelude::*;

verus! {

/*@rules R1 R2(elem=(Range<u32>, T)) R3 R4 R5 R6 R9 R10 @*/

pub mod vx_base {
    use vstd::prelude::*;
    use core::ops::Range;
    use vstd::std_specs::cmp::PartialEqSpec;

/*@include units/ids_common/base.rs @*/
}

pub mod vx_ids {
    use vstd::prelude::*;
    use core::ops::Range;
    use vstd::std_specs::cmp::PartialEqSpec;
    use super::vx_base::*;

    broadcast use vx_clone_axioms;

/*@include units/ids_common/spec.rs @*/


    // ------------------------------------------------------------------------------------------
    // sequence-surgery lemmas used by `remove`
    // ------------------------------------------------------------------------------------------
    /// shrink entry `i` to `[start, new_end)`
    pub proof fn lemma_set_end<T: Merge>(s: Seq<Ent<T>>, i: int, new_end: u32, t: Seq<Ent<T>>)
        requires
            canon(s),
            0 <= i < s.len(),
            s[i].0.start < new_end <= s[i].0.end,
            t == s.update(i, (s[i].0.start..new_end, s[i].1)),
        ensures
            canon(t),
            forall|c: int| covers(t, c) <==> covers(s, c) && !(new_end <= c < s[i].0.end),
            forall|c: int| covers(t, c) ==> #[trigger] val_at(t, c) == val_at(s, c),
    {
        assert forall|a: int, b: int| 0 <= a < b < t.len() implies (#[trigger] t[a]).0.end <= (#[trigger] t[b]).0.start by {
            assert(s[a].0.end <= s[b].0.start);
        }
        assert forall|k: int, k1: int| 0 <= k && k1 == k + 1 && k1 < t.len() && (#[trigger] t[k]).0.end == (#[trigger] t[k1]).0.start implies !t[k].1.eq_spec(&t[k1].1) by {
            assert(s[k].0.end <= s[k + 1].0.start);
            assert(t[k].1 == s[k].1 && t[k + 1].1 == s[k + 1].1);
        }
        assert forall|c: int| covers(t, c) <==> covers(s, c) && !(new_end <= c < s[i].0.end) by {
            if covers(t, c) {
                let k = idx_of(t, c);
                assert(inr(t[k].0, c));
                assert(inr(s[k].0, c));
                if new_end <= c < s[i].0.end {
                    lemma_idx_unique(s, i, c);
                    lemma_idx_unique(s, k, c);
                }
            }
            if covers(s, c) && !(new_end <= c < s[i].0.end) {
                let k = idx_of(s, c);
                assert(inr(s[k].0, c));
                assert(inr(t[k].0, c));
            }
        }
        assert forall|c: int| covers(t, c) implies #[trigger] val_at(t, c) == val_at(s, c) by {
            let k = idx_of(t, c);
            assert(inr(t[k].0, c));
            assert(inr(s[k].0, c));
            lemma_idx_unique(s, k, c);
        }
    }

    /// shrink entry `j` to `[new_start, end)`
    pub proof fn lemma_set_start<T: Merge>(s: Seq<Ent<T>>, j: int, new_start: u32, t: Seq<Ent<T>>)
        requires
            canon(s),
            0 <= j < s.len(),
            s[j].0.start <= new_start < s[j].0.end,
            t == s.update(j, (new_start..s[j].0.end, s[j].1)),
        ensures
            canon(t),
            forall|c: int| covers(t, c) <==> covers(s, c) && !(s[j].0.start <= c < new_start),
            forall|c: int| covers(t, c) ==> #[trigger] val_at(t, c) == val_at(s, c),
    {
        assert forall|a: int, b: int| 0 <= a < b < t.len() implies (#[trigger] t[a]).0.end <= (#[trigger] t[b]).0.start by {
            assert(s[a].0.end <= s[b].0.start);
        }
        assert forall|k: int, k1: int| 0 <= k && k1 == k + 1 && k1 < t.len() && (#[trigger] t[k]).0.end == (#[trigger] t[k1]).0.start implies !t[k].1.eq_spec(&t[k1].1) by {
            assert(s[k].0.end <= s[k + 1].0.start);
            assert(t[k].1 == s[k].1 && t[k + 1].1 == s[k + 1].1);
        }
        assert forall|c: int| covers(t, c) <==> covers(s, c) && !(s[j].0.start <= c < new_start) by {
            if covers(t, c) {
                let k = idx_of(t, c);
                assert(inr(t[k].0, c));
                assert(inr(s[k].0, c));
                if s[j].0.start <= c < new_start {
                    lemma_idx_unique(s, j, c);
                    lemma_idx_unique(s, k, c);
                }
            }
            if covers(s, c) && !(s[j].0.start <= c < new_start) {
                let k = idx_of(s, c);
                assert(inr(s[k].0, c));
                assert(inr(t[k].0, c));
            }
        }
        assert forall|c: int| covers(t, c) implies #[trigger] val_at(t, c) == val_at(s, c) by {
            let k = idx_of(t, c);
            assert(inr(t[k].0, c));
            assert(inr(s[k].0, c));
            lemma_idx_unique(s, k, c);
        }
    }

    /// element-wise description of dropping the entries `[i, j)`
    pub open spec fn is_cut<T>(s: Seq<Ent<T>>, i: int, j: int, t: Seq<Ent<T>>) -> bool {
        &&& t.len() == s.len() - (j - i)
        &&& forall|k: int| 0 <= k < i ==> #[trigger] t[k] == s[k]
        &&& forall|k: int| i <= k < t.len() ==> #[trigger] t[k] == s[k + (j - i)]
    }

    pub proof fn lemma_cut_elems<T>(s: Seq<Ent<T>>, i: int, j: int, t: Seq<Ent<T>>)
        requires
            0 <= i <= j <= s.len(),
            t == s.subrange(0, i) + s.subrange(j, s.len() as int),
        ensures
            is_cut(s, i, j, t),
    {
    }

    /// drop the entries `[i, j)`
    pub proof fn lemma_cut<T: Merge>(s: Seq<Ent<T>>, i: int, j: int, t: Seq<Ent<T>>)
        requires
            canon(s),
            0 <= i < j <= s.len(),
            is_cut(s, i, j, t),
        ensures
            canon(t),
            forall|c: int| covers(t, c) <==> covers(s, c) && !(s[i].0.start <= c < s[j - 1].0.end),
            forall|c: int| covers(t, c) ==> #[trigger] val_at(t, c) == val_at(s, c),
    {
        let d = j - i;
        assert forall|a: int, b: int| 0 <= a < b < t.len() implies (#[trigger] t[a]).0.end <= (#[trigger] t[b]).0.start by {
            let a2 = if a < i { a } else { a + d };
            let b2 = if b < i { b } else { b + d };
            assert(t[a] == s[a2] && t[b] == s[b2]);
            assert(s[a2].0.end <= s[b2].0.start);
        }
        assert forall|k: int, k1: int| 0 <= k && k1 == k + 1 && k1 < t.len() && (#[trigger] t[k]).0.end == (#[trigger] t[k1]).0.start implies !t[k].1.eq_spec(&t[k1].1) by {
            if k == i - 1 {
                // s[i-1].end <= s[i].start < s[i].end <= s[j].start : not adjacent
                assert(t[k] == s[i - 1] && t[k1] == s[j]);
                assert(s[i - 1].0.end <= s[i].0.start);
                assert(s[i].0.end <= s[j].0.start);
            } else if k < i - 1 {
                assert(t[k] == s[k] && t[k1] == s[k + 1]);
            } else {
                assert(t[k] == s[k + d] && t[k1] == s[k + d + 1]);
            }
        }
        assert(nonempty(t)) by {
            assert forall|k: int| 0 <= k < t.len() implies (#[trigger] t[k]).0.start < t[k].0.end by {
                let k2 = if k < i { k } else { k + d };
                assert(t[k] == s[k2]);
            }
        }
        assert(vals_wf(t)) by {
            assert forall|k: int| 0 <= k < t.len() implies (#[trigger] t[k]).1.wf() by {
                let k2 = if k < i { k } else { k + d };
                assert(t[k] == s[k2]);
            }
        }
        assert forall|c: int| covers(t, c) <==> covers(s, c) && !(s[i].0.start <= c < s[j - 1].0.end) by {
            if covers(t, c) {
                let k = idx_of(t, c);
                assert(inr(t[k].0, c));
                let k2 = if k < i { k } else { k + d };
                assert(t[k] == s[k2]);
                assert(inr(s[k2].0, c));
                if k2 < i { assert(s[k2].0.end <= s[i].0.start); } else { if j - 1 < k2 { assert(s[j - 1].0.end <= s[k2].0.start); } }
            }
            if covers(s, c) && !(s[i].0.start <= c < s[j - 1].0.end) {
                let k = idx_of(s, c);
                assert(inr(s[k].0, c));
                if i <= k < j {
                    if i < k { assert(s[i].0.end <= s[k].0.start); }
                    if k < j - 1 { assert(s[k].0.end <= s[j - 1].0.start); }
                    assert(false);
                }
                let k2 = if k < i { k } else { k - d };
                assert(t[k2] == s[k]);
                assert(inr(t[k2].0, c));
            }
        }
        assert forall|c: int| covers(t, c) implies #[trigger] val_at(t, c) == val_at(s, c) by {
            let k = idx_of(t, c);
            assert(inr(t[k].0, c));
            let k2 = if k < i { k } else { k + d };
            assert(t[k] == s[k2]);
            assert(inr(s[k2].0, c));
            lemma_idx_unique(s, k2, c);
        }
    }

    /// split entry `i` in two by cutting `[lo, hi)` strictly inside it
    pub proof fn lemma_split<T: Merge>(s: Seq<Ent<T>>, i: int, lo: u32, hi: u32, t: Seq<Ent<T>>)
        requires
            canon(s),
            0 <= i < s.len(),
            s[i].0.start < lo < hi < s[i].0.end,
            t == s.update(i, (s[i].0.start..lo, s[i].1)).insert(i + 1, (hi..s[i].0.end, s[i].1)),
        ensures
            canon(t),
            forall|c: int| covers(t, c) <==> covers(s, c) && !(lo <= c < hi),
            forall|c: int| covers(t, c) ==> #[trigger] val_at(t, c) == val_at(s, c),
    {
        assert forall|k: int| 0 <= k < t.len() implies #[trigger] t[k] == (if k < i { s[k] } else if k == i { (s[i].0.start..lo, s[i].1) } else if k == i + 1 { (hi..s[i].0.end, s[i].1) } else { s[k - 1] }) by {}
        assert forall|a: int, b: int| 0 <= a < b < t.len() implies (#[trigger] t[a]).0.end <= (#[trigger] t[b]).0.start by {
            let a2 = if a <= i { a } else { a - 1 };
            let b2 = if b <= i { b } else { b - 1 };
            if a2 < b2 { assert(s[a2].0.end <= s[b2].0.start); }
        }
        assert forall|k: int, k1: int| 0 <= k && k1 == k + 1 && k1 < t.len() && (#[trigger] t[k]).0.end == (#[trigger] t[k1]).0.start implies !t[k].1.eq_spec(&t[k1].1) by {
            if k < i - 1 {
                assert(t[k] == s[k] && t[k + 1] == s[k + 1]);
            } else if k == i - 1 {
                assert(t[k] == s[k] && t[k + 1].0.start == s[i].0.start && t[k + 1].1 == s[i].1);
                assert(s[k].0.end <= s[k + 1].0.start);
            } else if k == i {
            } else if k == i + 1 {
                assert(t[k].0.end == s[i].0.end && t[k].1 == s[i].1 && t[k + 1] == s[i + 1]);
            } else {
                assert(t[k] == s[k - 1] && t[k + 1] == s[k]);
            }
        }
        assert forall|c: int| covers(t, c) <==> covers(s, c) && !(lo <= c < hi) by {
            if covers(t, c) {
                let k = idx_of(t, c);
                assert(inr(t[k].0, c));
                let k2 = if k <= i { k } else { k - 1 };
                assert(inr(s[k2].0, c));
                if lo <= c < hi { lemma_idx_unique(s, i, c); lemma_idx_unique(s, k2, c); }
            }
            if covers(s, c) && !(lo <= c < hi) {
                let k = idx_of(s, c);
                assert(inr(s[k].0, c));
                if k < i { assert(inr(t[k].0, c)); } else if k > i { assert(inr(t[k + 1].0, c)); } else {
                    if c < lo { assert(inr(t[i].0, c)); } else { assert(inr(t[i + 1].0, c)); }
                }
            }
        }
        assert forall|c: int| covers(t, c) implies #[trigger] val_at(t, c) == val_at(s, c) by {
            let k = idx_of(t, c);
            assert(inr(t[k].0, c));
            let k2 = if k <= i { k } else { k - 1 };
            assert(inr(s[k2].0, c));
            lemma_idx_unique(s, k2, c);
        }
    }

    impl<T: Merge> IdRanges<T> {
        /*@extract yrs/src/ids.rs | impl<T: Merge> IdRanges<T> | fn len
        @ret r
        @sig
            ensures r == self@.len(),
        @*/

        /*@extract yrs/src/ids.rs | impl<T: Merge> IdRanges<T> | fn is_empty
        @ret r
        @sig
            ensures r == (self@.len() == 0),
        @*/

        /*@extract yrs/src/ids.rs | impl<T: Merge> IdRanges<T> | fn clock_start
        @ret r
        @sig
            requires canon(self@),
            ensures
                r.is_none() <==> self@.len() == 0,
                // the least covered clock
                r.is_some() ==> covers(self@, r.unwrap() as int) && forall|c: int| covers(self@, c) ==> r.unwrap() <= c,
        @start
            proof {
                if self@.len() > 0 {
                    assert(inr(self@[0].0, self@[0].0.start as int));
                    assert forall|c: int| covers(self@, c) implies self@[0].0.start <= c by {
                        let i = idx_of(self@, c);
                        assert(inr(self@[i].0, c));
                        if i > 0 { assert(self@[0].0.end <= self@[i].0.start); }
                    }
                }
            }
        @*/

        /*@extract yrs/src/ids.rs | impl<T: Merge> IdRanges<T> | fn clock_end
        @ret r
        @sig
            requires canon(self@),
            ensures
                r.is_none() <==> self@.len() == 0,
                // one past the greatest covered clock
                r.is_some() ==> r.unwrap() > 0 && covers(self@, r.unwrap() as int - 1) && forall|c: int| covers(self@, c) ==> c < r.unwrap(),
        @start
            proof {
                if self@.len() > 0 {
                    let n = self@.len() - 1;
                    assert(inr(self@[n].0, self@[n].0.end as int - 1));
                    assert forall|c: int| covers(self@, c) implies c < self@[n].0.end by {
                        let i = idx_of(self@, c);
                        assert(inr(self@[i].0, c));
                        if i < n { assert(self@[i].0.end <= self@[n].0.start); }
                    }
                }
            }
        @*/

        /*@extract yrs/src/ids.rs | impl<T: Merge> IdRanges<T> | fn contains_clock
        @ret r
        @sig
            requires canon(self@),
            ensures r == covers(self@, clock as int),
        @before 1 `stmt:expr idx`
            proof {
                let s = self@;
                let c = clock as int;
                if idx > 0 && s[idx - 1].0.end > clock {
                    assert(inr(s[idx - 1].0, c));
                } else {
                    if covers(s, c) {
                        let k = idx_of(s, c);
                        assert(inr(s[k].0, c));
                        if k < idx - 1 {
                            assert(s[k].0.end <= s[idx - 1].0.start);
                        }
                    }
                }
            }
        @*/

        /*@extract yrs/src/ids.rs | impl<T: Merge> IdRanges<T> | fn find_start
        @ret r
        @sig
            requires canon(self@),
            ensures
                // the least index whose entry ends after `clock` (i.e. contains it or starts after it)
                r.is_none() ==> forall|i: int| 0 <= i < self@.len() ==> (#[trigger] self@[i]).0.end <= clock,
                r.is_some() ==> r.unwrap() < self@.len() && clock < self@[r.unwrap() as int].0.end
                    && forall|i: int| 0 <= i < r.unwrap() ==> (#[trigger] self@[i]).0.end <= clock,
        @start
            proof { axiom_vec_len_bound(&self.0); }
        @loop 1
            invariant
                canon(self@),
                0 < self@.len() <= usize::MAX / 8,
                left <= self@.len(),
                right < self@.len(),
                forall|i: int| 0 <= i < left ==> (#[trigger] self@[i]).0.end <= clock,
                forall|i: int| right < i < self@.len() ==> clock < (#[trigger] self@[i]).0.start,
            ensures
                left <= self@.len(),
                forall|i: int| 0 <= i < left ==> (#[trigger] self@[i]).0.end <= clock,
                left < self@.len() ==> clock < self@[left as int].0.end,
            decreases right + 1 - left,
        @before 1 `stmt:assign left`
            proof {
                assert forall|i: int| 0 <= i < mid + 1 implies (#[trigger] self@[i]).0.end <= clock by {
                    if i < mid { assert(self@[i].0.end <= self@[mid as int].0.start); }
                }
            }
        @before 1 `stmt:assign right`
            proof {
                assert forall|i: int| mid - 1 < i < self@.len() implies clock < (#[trigger] self@[i]).0.start by {
                    if mid < i { assert(self@[mid as int].0.end <= self@[i].0.start); }
                }
            }
        @*/

        /*@extract yrs/src/ids.rs | impl<T: Merge> IdRanges<T> | fn remove
        @sig
            requires canon(old(self)@),
            ensures
                canon(final(self)@),
                forall|c: int| covers(final(self)@, c) <==> covers(old(self)@, c) && !inr(range, c),
                forall|c: int| covers(final(self)@, c) ==> val_at(final(self)@, c) == val_at(old(self)@, c),
        @start
            let ghost s0 = self@;
        @before 2 `stmt:return`
            proof {
                // every entry ends at or before range.start: nothing to remove
                assert forall|c: int| covers(s0, c) implies !inr(range, c) by {
                    let k = idx_of(s0, c);
                    assert(inr(s0[k].0, c));
                }
            }
        @after 2 `stmt:if`
            proof {
                // entries before i end at or before range.start; entry i ends after it
                assert(forall|k: int| 0 <= k < i ==> (#[trigger] s0[k]).0.end <= range.start);
                assert(s0[i as int].0.end > range.start);
            }
            let ghost i0 = i as int;
        @before 3 `stmt:return`
            proof {
                lemma_split(s0, i0, range.start, range.end, self@);
            }
        @after 4 `stmt:if`
            let ghost s1 = self@;
            proof {
                if s0[i0].0.start < range.start {
                    lemma_set_end(s0, i0, range.start, s1);
                    assert(i == i0 + 1);
                } else {
                    assert(s1 == s0 && i == i0);
                }
                // s1: canon; covers(s1, c) <==> covers(s0, c) && !(c in [range.start, s0[i0].end) when trimmed)
                // all entries before i end at or before range.start, all entries from i on start at or after it
                assert forall|k: int| 0 <= k < i implies (#[trigger] s1[k]).0.end <= range.start by {
                    if k < i0 { assert(s1[k] == s0[k]); }
                }
                assert forall|k: int| i <= k < s1.len() implies range.start <= (#[trigger] s1[k]).0.start by {
                    assert(s1[k] == s0[k]);
                    if k > i0 { assert(s0[i0].0.end <= s0[k].0.start); }
                }
            }
        @loop 1
            invariant
                self@ == s1,
                canon(s1),
                i <= j <= s1.len(),
                forall|k: int| i <= k < j ==> (#[trigger] s1[k]).0.end <= range.end,
            decreases self.0.len() - j,
        @after 1 `stmt:while`
            proof {
                // entries from j on end after range.end
                assert forall|k: int| j <= k < s1.len() implies range.end < (#[trigger] s1[k]).0.end by {
                    if k > j { assert(s1[j as int].0.end <= s1[k].0.start); }
                }
            }
        @after 5 `stmt:if`
            let ghost s2 = self@;
            proof {
                if j < s1.len() && s1[j as int].0.start < range.end {
                    lemma_set_start(s1, j as int, range.end, s2);
                } else {
                    assert(s2 == s1);
                }
                assert forall|k: int| j <= k < s2.len() implies range.end <= (#[trigger] s2[k]).0.start by {
                    if k > j { assert(s1[j as int].0.end <= s1[k].0.start); assert(s2[k] == s1[k]); }
                }
                assert forall|k: int| i <= k < j implies range.start <= (#[trigger] s2[k]).0.start && s2[k].0.end <= range.end by {
                    assert(s2[k] == s1[k]);
                }
                assert forall|k: int| 0 <= k < i implies (#[trigger] s2[k]).0.end <= range.start by {
                    assert(s2[k] == s1[k]);
                }
            }
        @end
            proof {
                let s3 = self@;
                if j > i {
                    lemma_cut_elems(s2, i as int, j as int, s3);
                    lemma_cut(s2, i as int, j as int, s3);
                } else {
                    assert(s3 == s2);
                }
                assert forall|c: int| covers(s3, c) <==> covers(s0, c) && !inr(range, c) by {
                    if covers(s3, c) {
                        let k = idx_of(s3, c);
                        assert(inr(s3[k].0, c));
                    }
                    if covers(s0, c) && !inr(range, c) {
                        let k = idx_of(s0, c);
                        assert(inr(s0[k].0, c));
                    }
                    if covers(s2, c) {
                        let k = idx_of(s2, c);
                        assert(inr(s2[k].0, c));
                        if i <= k < j {
                            if (i as int) < k { assert(s2[i as int].0.end <= s2[k].0.start); }
                            if k < j - 1 { assert(s2[k].0.end <= s2[j - 1].0.start); }
                        }
                    }
                }
            }
        @*/

    }
}

} // verus!
fn main() {}
