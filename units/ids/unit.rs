// unit `ids` — IdRanges<T> (yrs/src/ids.rs, yrs/src/id_set.rs) under contract.  Serves C16.
// Function bodies are pulled from /repo on every run by vx/extract.py; this file holds only the
// abstraction (view / canonical form), the contracts and the proof hints.
#![allow(unused_imports, unused_variables, unused_mut, dead_code, unused_parens, unused_braces)]
use vstd::prelude::*;

verus! {

/*@rules R1 R2(elem=(Range<u32>, T)) R3 R4 R5 R6 R9 R10 @*/

pub mod vx_base {
    use vstd::prelude::*;
    use core::ops::Range;
    use vstd::std_specs::cmp::PartialEqSpec;

/*@include units/ids_common/base.rs @*/
}

pub mod vx_ids {
    use vstd::prelude::*;
    use core::ops::Range;
    use vstd::std_specs::cmp::PartialEqSpec;
    use super::vx_base::*;

    broadcast use vx_clone_axioms;

/*@include units/ids_common/spec.rs @*/

    impl<T: Merge> IdRanges<T> {
        /*@extract yrs/src/ids.rs | impl<T: Merge> IdRanges<T> | fn len
        @ret r
        @sig
            ensures r == self@.len(),
        @*/

        /*@extract yrs/src/ids.rs | impl<T: Merge> IdRanges<T> | fn is_empty
        @ret r
        @sig
            ensures r == (self@.len() == 0),
        @*/

        /*@extract yrs/src/ids.rs | impl<T: Merge> IdRanges<T> | fn clock_start
        @ret r
        @sig
            requires canon(self@),
            ensures
                r.is_none() <==> self@.len() == 0,
                // the least covered clock
                r.is_some() ==> covers(self@, r.unwrap() as int) && forall|c: int| covers(self@, c) ==> r.unwrap() <= c,
        @start
            proof {
                if self@.len() > 0 {
                    assert(inr(self@[0].0, self@[0].0.start as int));
                    assert forall|c: int| covers(self@, c) implies self@[0].0.start <= c by {
                        let i = idx_of(self@, c);
                        assert(inr(self@[i].0, c));
                        if i > 0 { assert(self@[0].0.end <= self@[i].0.start); }
                    }
                }
            }
        @*/

        /*@extract yrs/src/ids.rs | impl<T: Merge> IdRanges<T> | fn clock_end
        @ret r
        @sig
            requires canon(self@),
            ensures
                r.is_none() <==> self@.len() == 0,
                // one past the greatest covered clock
                r.is_some() ==> r.unwrap() > 0 && covers(self@, r.unwrap() as int - 1) && forall|c: int| covers(self@, c) ==> c < r.unwrap(),
        @start
            proof {
                if self@.len() > 0 {
                    let n = self@.len() - 1;
                    assert(inr(self@[n].0, self@[n].0.end as int - 1));
                    assert forall|c: int| covers(self@, c) implies c < self@[n].0.end by {
                        let i = idx_of(self@, c);
                        assert(inr(self@[i].0, c));
                        if i < n { assert(self@[i].0.end <= self@[n].0.start); }
                    }
                }
            }
        @*/

        /*@extract yrs/src/ids.rs | impl<T: Merge> IdRanges<T> | fn contains_clock
        @ret r
        @sig
            requires canon(self@),
            ensures r == covers(self@, clock as int),
        @before 1 `idx > 0 &&`
            proof {
                let s = self@;
                let c = clock as int;
                if idx > 0 && s[idx - 1].0.end > clock {
                    assert(inr(s[idx - 1].0, c));
                } else {
                    if covers(s, c) {
                        let k = idx_of(s, c);
                        assert(inr(s[k].0, c));
                        if k < idx - 1 {
                            assert(s[k].0.end <= s[idx - 1].0.start);
                        }
                    }
                }
            }
        @*/

        /*@extract yrs/src/ids.rs | impl<T: Merge> IdRanges<T> | fn find_start
        @ret r
        @sig
            requires canon(self@),
            ensures
                // the least index whose entry ends after `clock` (i.e. contains it or starts after it)
                r.is_none() ==> forall|i: int| 0 <= i < self@.len() ==> (#[trigger] self@[i]).0.end <= clock,
                r.is_some() ==> r.unwrap() < self@.len() && clock < self@[r.unwrap() as int].0.end
                    && forall|i: int| 0 <= i < r.unwrap() ==> (#[trigger] self@[i]).0.end <= clock,
                @loop 1
            decreases right + 1 - left,
        @*/

        /*@extract yrs/src/ids.rs | impl<T: Merge> IdRanges<T> | fn remove
        @sig
            requires canon(old(self)@),
            ensures
                canon(final(self)@),
                forall|c: int| covers(final(self)@, c) <==> covers(old(self)@, c) && !inr(range, c),
                forall|c: int| covers(final(self)@, c) ==> val_at(final(self)@, c) == val_at(old(self)@, c),
                @loop 1
            decreases self.0.len() - j,
        @*/

        /*@extract yrs/src/ids.rs | impl<T: Merge> IdRanges<T> | fn insert_with
        @sig
            requires canon(old(self)@), value.wf(),
            ensures
                canon(final(self)@),
                forall|c: int| covers(final(self)@, c) <==> covers(old(self)@, c) || inr(range, c),
                forall|c: int| covers(old(self)@, c) && !inr(range, c) ==> #[trigger] val_at(final(self)@, c).eq_spec(&val_at(old(self)@, c)),
                forall|c: int| !covers(old(self)@, c) && inr(range, c) ==> #[trigger] val_at(final(self)@, c).eq_spec(&value),
                forall|c: int| covers(old(self)@, c) && inr(range, c) ==> #[trigger] val_at(final(self)@, c).eq_spec(&val_at(old(self)@, c).merge_spec(&value)),
                @loop 1
            decreases self.0.len() - hi,
        @*/
    }
}

} // verus!
fn main() {}
