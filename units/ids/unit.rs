// unit `ids` — IdRanges<T> (yrs/src/ids.rs, yrs/src/id_set.rs) under contract.  Serves C16.
// Function bodies are pulled from /repo on every run by vx/extract.py; this file holds only the
// abstraction (view / canonical form), the contracts and the proof hints.
#![allow(unused_imports, unused_variables, unused_mut, dead_code, unused_parens, unused_braces)]
use vstd::prelude::*;

verus! {

/*@rules R1 R2(elem=(Range<u32>, T)) R3 R4 R5 R6 R9 R10 @*/

pub mod vx_base {
    use vstd::prelude::*;
    use core::ops::Range;
    use vstd::std_specs::cmp::PartialEqSpec;

/*@include vx/prelude.rs @*/

    // ------------------------------------------------------------------------------------------
    // trait Merge: the real declaration, plus the ghost interface the callers rely on.
    //   wf          value-level invariant (e.g. "attribute list has no duplicates")
    //   merge_spec  what `merge` computes
    //   eq_spec     (from PartialEqSpec) what `==` computes; required to be an equivalence on wf values
    // The laws are proof obligations of every impl inside this unit (proved for `()`), and assumptions
    // about implementors outside it (A3).
    // ------------------------------------------------------------------------------------------
    pub trait Merge: Clone + PartialEq + Sized {
        spec fn wf(&self) -> bool;

        spec fn merge_spec(&self, other: &Self) -> Self;

        /*@extract yrs/src/ids.rs | trait Merge: Clone + PartialEq | fn merge
        @sig
            requires old(self).wf(), other.wf(),
            ensures final(self).wf(), *final(self) == old(self).merge_spec(other),
        @*/

        proof fn law_obeys_eq()
            ensures Self::obeys_eq_spec();

        proof fn law_eq_refl(&self)
            requires self.wf(),
            ensures self.eq_spec(self);

        proof fn law_eq_sym(&self, b: &Self)
            requires self.wf(), b.wf(), self.eq_spec(b),
            ensures b.eq_spec(self);

        proof fn law_eq_trans(&self, b: &Self, c: &Self)
            requires self.wf(), b.wf(), c.wf(), self.eq_spec(b), b.eq_spec(c),
            ensures self.eq_spec(c);
    }

    /// A3: `Clone` of a `Merge` value (and of a `(Range<u32>, T)` entry, whose Clone is std's tuple impl)
    /// returns a structurally equal value.  True for `()` and for `ContentAttributes` (SmallVec of Arc).
    pub broadcast axiom fn axiom_clone_merge<T: Merge>(a: &T, b: T)
        requires #[trigger] call_ensures(T::clone, (a,), b),
        ensures *a == b;

    pub broadcast axiom fn axiom_clone_entry<T: Merge>(a: (Range<u32>, T), b: (Range<u32>, T))
        requires #[trigger] cloned(a, b),
        ensures a == b;

    pub broadcast group vx_clone_axioms { axiom_clone_merge, axiom_clone_entry }
}

pub mod vx_ids {
    use vstd::prelude::*;
    use core::ops::Range;
    use vstd::std_specs::cmp::PartialEqSpec;
    use super::vx_base::*;

    broadcast use vx_clone_axioms;

    // ------------------------------------------------------------------------------------------
    // abstraction
    // ------------------------------------------------------------------------------------------
    pub type Ent<T> = (Range<u32>, T);

    /// clock `c` lies in the half-open range `r`
    pub open spec fn inr(r: Range<u32>, c: int) -> bool {
        r.start <= c < r.end
    }

    /// the set of clocks: `c` is covered by some entry
    pub open spec fn covers<T>(s: Seq<Ent<T>>, c: int) -> bool {
        exists|i: int| 0 <= i < s.len() && #[trigger] inr(s[i].0, c)
    }

    pub open spec fn idx_of<T>(s: Seq<Ent<T>>, c: int) -> int {
        choose|i: int| 0 <= i < s.len() && #[trigger] inr(s[i].0, c)
    }

    /// the value attached to clock `c` (meaningful when `covers(s, c)`)
    pub open spec fn val_at<T>(s: Seq<Ent<T>>, c: int) -> T {
        s[idx_of(s, c)].1
    }

    pub open spec fn nonempty<T>(s: Seq<Ent<T>>) -> bool {
        forall|i: int| 0 <= i < s.len() ==> (#[trigger] s[i]).0.start < s[i].0.end
    }

    /// sorted and pairwise disjoint
    pub open spec fn sorted<T>(s: Seq<Ent<T>>) -> bool {
        forall|i: int, j: int| 0 <= i < j < s.len() ==> (#[trigger] s[i]).0.end <= (#[trigger] s[j]).0.start
    }

    pub open spec fn vals_wf<T: Merge>(s: Seq<Ent<T>>) -> bool {
        forall|i: int| 0 <= i < s.len() ==> (#[trigger] s[i]).1.wf()
    }

    /// adjacent ranges with equal values are coalesced
    pub open spec fn coalesced<T: Merge>(s: Seq<Ent<T>>) -> bool {
        forall|i: int| 0 <= i < s.len() - 1 && (#[trigger] s[i]).0.end == s[i + 1].0.start ==> !s[i].1.eq_spec(&s[i + 1].1)
    }

    /// shape invariant that does not mention values (used for the `other: &IdRanges<U>` of `exclude`)
    pub open spec fn ranges_ok<T>(s: Seq<Ent<T>>) -> bool {
        nonempty(s) && sorted(s)
    }

    /// canonical form of C16: sorted, non-overlapping, no empty ranges, adjacent equal-valued ranges coalesced
    pub open spec fn canon<T: Merge>(s: Seq<Ent<T>>) -> bool {
        nonempty(s) && sorted(s) && vals_wf(s) && coalesced(s)
    }

    // ------------------------------------------------------------------------------------------
    // lemmas (pure; no executable code)
    // ------------------------------------------------------------------------------------------
    /// in a sorted sequence the covering entry is unique
    pub proof fn lemma_idx_unique<T>(s: Seq<Ent<T>>, i: int, c: int)
        requires
            sorted(s),
            0 <= i < s.len(),
            inr(s[i].0, c),
        ensures
            covers(s, c),
            idx_of(s, c) == i,
            val_at(s, c) == s[i].1,
    {
        let j = idx_of(s, c);
        assert(0 <= j < s.len() && inr(s[j].0, c));
        if j < i {
            assert(s[j].0.end <= s[i].0.start);
        } else if i < j {
            assert(s[i].0.end <= s[j].0.start);
        }
    }

    /*@extract yrs/src/ids.rs | - | struct IdRanges @*/

    impl<T: Merge> IdRanges<T> {
        pub closed spec fn view(&self) -> Seq<Ent<T>> {
            self.0@
        }

        /*@extract yrs/src/ids.rs | impl<T: Merge> IdRanges<T> | fn len
        @ret r
        @sig
            ensures r == self@.len(),
        @*/

        /*@extract yrs/src/ids.rs | impl<T: Merge> IdRanges<T> | fn is_empty
        @ret r
        @sig
            ensures r == (self@.len() == 0),
        @*/

        /*@extract yrs/src/ids.rs | impl<T: Merge> IdRanges<T> | fn clock_start
        @ret r
        @sig
            requires canon(self@),
            ensures
                r.is_none() <==> self@.len() == 0,
                // the least covered clock
                r.is_some() ==> covers(self@, r.unwrap() as int) && forall|c: int| covers(self@, c) ==> r.unwrap() <= c,
        @start
            proof {
                if self@.len() > 0 {
                    assert(inr(self@[0].0, self@[0].0.start as int));
                    assert forall|c: int| covers(self@, c) implies self@[0].0.start <= c by {
                        let i = idx_of(self@, c);
                        assert(inr(self@[i].0, c));
                        if i > 0 { assert(self@[0].0.end <= self@[i].0.start); }
                    }
                }
            }
        @*/

        /*@extract yrs/src/ids.rs | impl<T: Merge> IdRanges<T> | fn clock_end
        @ret r
        @sig
            requires canon(self@),
            ensures
                r.is_none() <==> self@.len() == 0,
                // one past the greatest covered clock
                r.is_some() ==> r.unwrap() > 0 && covers(self@, r.unwrap() as int - 1) && forall|c: int| covers(self@, c) ==> c < r.unwrap(),
        @start
            proof {
                if self@.len() > 0 {
                    let n = self@.len() - 1;
                    assert(inr(self@[n].0, self@[n].0.end as int - 1));
                    assert forall|c: int| covers(self@, c) implies c < self@[n].0.end by {
                        let i = idx_of(self@, c);
                        assert(inr(self@[i].0, c));
                        if i < n { assert(self@[i].0.end <= self@[n].0.start); }
                    }
                }
            }
        @*/

        /*@extract yrs/src/ids.rs | impl<T: Merge> IdRanges<T> | fn contains_clock
        @ret r
        @sig
            requires canon(self@),
            ensures r == covers(self@, clock as int),
        @before 1 `idx > 0 &&`
            proof {
                let s = self@;
                let c = clock as int;
                if idx > 0 && s[idx - 1].0.end > clock {
                    assert(inr(s[idx - 1].0, c));
                } else {
                    if covers(s, c) {
                        let k = idx_of(s, c);
                        assert(inr(s[k].0, c));
                        if k < idx - 1 {
                            assert(s[k].0.end <= s[idx - 1].0.start);
                        }
                    }
                }
            }
        @*/
    }
}

} // verus!
fn main() {}
