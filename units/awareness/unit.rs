// unit `awareness` — the per-client merge step of the awareness protocol (yrs/src/sync/awareness.rs). Serves C18.
//
// VERIFIED (statement level, rule R18 statement regions): the WHOLE `match self.states.entry(client_id) { .. }` statement
//   -- arm patterns, guards, dispatch and arm bodies -- of
//     apply_update_internal  (the statement inside `for (client_id, entry) in update.clients`)   label apply_update_match
//     remove_state           (`let is_removed = match .. ;`)                                     label remove_state_match
//     set_local_state_raw    (`let prev = match .. ;`)                                           label set_local_state_match
//   is lifted mechanically into a function over the states MAP (`StatesMap`, view Map<ClientID, ClientState>) and proved
//   against a contract on that map:  reg(final[client]) == step(reg(old[client]) or None, client == local, clock, new)
//   for apply (the spec `step` the five lemmas are about), the exact inserted/updated ClientState for remove_state /
//   set_local_state_raw, "every other client is untouched", and explicitly "the client's clock never goes backwards".
//   A change of an arm header (e.g. `Entry::Occupied(mut e) if e.get().data.is_some()` + a catch-all arm that re-inserts
//   a tombstoned client with clock 1) therefore fails a CONTRACT clause instead of losing an anchor.
//   ClientState::new is verified whole.  The five C18 clauses are lemmas over `step` for every u32 clock.
// TRUSTED
//   A2/R17 `StatesMap::vx_entry` = dashmap::DashMap::entry, the ONE external_body: the entry for key k is a mutable optional
//          slot of the map, Occupied (holding the stored value) iff k is present; what the slot holds when the entry is
//          dropped is what the map holds for k.  DashMap's sharding / locking is not modelled.  OccupiedEntry::{get, get_mut},
//          VacantEntry::insert, Entry::insert are VERIFIED against that slot model (stand-in types, documented at the model).
//   A2     Option::replace (std contract).
//   R13    Arc<str> payloads are opaque values with equality (`Str`); ClientID is compared for equality only.
//   SUB    self.states.entry -> states.vx_entry, self.doc.client_id() -> local_id, self.clock.now() -> now (receiver
//          expressions that became parameters of the lifted statements), Arc<str> -> Str.
// NOT IN THE VERIFIED TEXT: the loop over update.clients and the 'null' detection before the statement, the value of the
//   apply match (discarded by the source: `match .. ;`), the summary vectors' contents, observer notifications.
#![allow(unused_imports, unused_variables, unused_mut, dead_code, unused_parens, unused_braces, unused_assignments)]
use vstd::prelude::*;

verus! {

/*@rules R10 SUB(from=Arc<str>;;to=Str) SUB(from=self.doc.client_id();;to=local_id) SUB(from=self.clock.now();;to=now)
   SUB(from=self.states.entry;;to=states.vx_entry)
@*/

// R13: strings are opaque values with equality only (the merge step never looks inside the JSON payload)
#[derive(PartialEq, Eq, Structural, Clone, Copy)]
pub struct Str(pub u64);

// the client id is compared for equality only
#[derive(PartialEq, Eq, Structural, Clone, Copy)]
pub struct ClientID(pub u64);

pub type Timestamp = u64;

/// A2: std `Option::replace`
pub assume_specification<T>[ Option::<T>::replace ](o: &mut Option<T>, value: T) -> (res: Option<T>)
    ensures
        res == *old(o),
        *final(o) == Some(value),
;

/*@extract yrs/src/sync/awareness.rs | - | struct ClientState @*/

// ---------------------------------------------------------------------------------------------
// specification: one client's register is None (unknown client) or Some((clock, payload))
// ---------------------------------------------------------------------------------------------
pub type Reg = Option<(u32, Option<Str>)>;

pub open spec fn reg_of(s: ClientState) -> Reg {
    Some((s.clock, s.data))
}

/// the merge step as the property states it: a last-writer-wins register on the clock, where a null payload at the
/// SAME clock removes a live state (timeout removal), and the local client's live state is never erased by a remote
/// message (instead the clock is pushed past the remote one)
pub open spec fn step(r: Reg, is_local: bool, clock: u32, new: Option<Str>) -> Reg {
    match r {
        None => Some((clock, new)),
        Some((sc, sd)) => {
            let is_removed = sc == clock && new.is_none() && sd.is_some();
            if sc < clock || is_removed {
                match new {
                    None => if is_local && sd.is_some() { Some((bump(clock), sd)) } else { Some((clock, None)) },
                    Some(x) => Some((clock, Some(x))),
                }
            } else {
                r
            }
        },
    }
}

/// the clock one past `c`, saturating at u32::MAX
pub open spec fn bump(c: u32) -> u32 {
    if c < u32::MAX { (c + 1) as u32 } else { c }
}

pub open spec fn reg_clock(r: Reg) -> int {
    match r { None => -1, Some((c, _)) => c as int }
}

pub open spec fn reg_live(r: Reg) -> bool {
    match r { None => false, Some((_, d)) => d.is_some() }
}

// ---- the five awareness clauses of C18 as lemmas over `step`, for every u32 clock

/// applying the same update twice is the same as applying it once
pub proof fn lemma_idempotent(r: Reg, is_local: bool, clock: u32, new: Option<Str>)
    ensures step(step(r, is_local, clock, new), is_local, clock, new) == step(r, is_local, clock, new),
{
}

/// a client's clock never goes backwards
pub proof fn lemma_clock_monotone(r: Reg, is_local: bool, clock: u32, new: Option<Str>)
    ensures reg_clock(step(r, is_local, clock, new)) >= reg_clock(r),
{
}

/// a state with a lower clock never replaces one with a higher clock
pub proof fn lemma_lower_clock_ignored(r: Reg, is_local: bool, clock: u32, new: Option<Str>)
    requires (clock as int) < reg_clock(r),
    ensures step(r, is_local, clock, new) == r,
{
}

/// a peer never lets a remote message erase its own live state
pub proof fn lemma_local_live_kept(r: Reg, clock: u32, new: Option<Str>)
    requires reg_live(r), new.is_none(),
    ensures reg_live(step(r, true, clock, new)),
            r is Some ==> step(r, true, clock, new).unwrap().1 == r.unwrap().1,
{
}

/// order-insensitive for remote clients: two updates that agree on the payload whenever they carry the same clock
/// (or one of them is the null removal) commute
pub proof fn lemma_commute(r: Reg, c1: u32, n1: Option<Str>, c2: u32, n2: Option<Str>)
    requires c1 == c2 ==> (n1 == n2 || n1.is_none() || n2.is_none()),
    ensures step(step(r, false, c1, n1), false, c2, n2) == step(step(r, false, c2, n2), false, c1, n1),
{
}

impl ClientState {
    /*@extract yrs/src/sync/awareness.rs | impl ClientState | fn new
    @ret r
    @sig
        ensures r.clock == clock, r.last_updated == last_updated, r.data == state,
    @*/
}

// ---------------------------------------------------------------------------------------------
// dashmap::{DashMap, Entry, OccupiedEntry, VacantEntry}  (A2, R17 stand-in; same model as unit ids_lift uses for std's BTreeMap)
// Model: `Awareness::states` is a map ClientID -> ClientState, and the entry for key `k` is a mutable optional SLOT of
// that map.  The ONLY trusted function is `vx_entry` (dashmap: "Advanced entry API that tries to mimic std::collections::
// HashMap. See the documentation on dashmap::mapref::entry for more details."; std: "Gets the given key's corresponding
// entry in the map for in-place manipulation.").  Sharding and the shard lock held by the entry are NOT modelled (the
// entry is used and dropped inside one statement of a `&mut self` method).  The methods are verified against the slot:
//   OccupiedEntry::get       "Gets a reference to the value in the entry."            (&self -> &V)
//   OccupiedEntry::get_mut   "Gets a mutable reference to the value in the entry."    (&mut self -> &mut V)
//   VacantEntry::insert      "Sets the value of the entry with the VacantEntry's key, and returns a mutable reference to it."
//   Entry::insert            "Sets the value of the entry, and returns a reference to the inserted value."
// ---------------------------------------------------------------------------------------------
pub struct OccupiedEntry<'a, V> { pub slot: &'a mut Option<V> }

pub struct VacantEntry<'a, V> { pub slot: &'a mut Option<V> }

pub enum Entry<'a, V> {
    Occupied(OccupiedEntry<'a, V>),
    Vacant(VacantEntry<'a, V>),
}

/// the map after the borrow of key `k`'s slot ends with content `s`
pub open spec fn slot_map<V>(m: Map<ClientID, V>, k: ClientID, s: Option<V>) -> Map<ClientID, V> {
    match s {
        Some(v) => m.insert(k, v),
        None => if m.contains_key(k) { m.remove(k) } else { m },
    }
}

/// the DISPATCH: the entry is Occupied (holding the stored value) iff the key is present
pub open spec fn entry_of<V>(e: Entry<'_, V>, m: Map<ClientID, V>, k: ClientID) -> bool {
    if m.contains_key(k) {
        e is Occupied && *e->Occupied_0.slot == Some(m[k])
    } else {
        e is Vacant && *e->Vacant_0.slot == None::<V>
    }
}

#[verifier::prophetic]
pub open spec fn entry_final<V>(e: Entry<'_, V>) -> Option<V> {
    match e {
        Entry::Occupied(o) => *final(o.slot),
        Entry::Vacant(v) => *final(v.slot),
    }
}

/// stand-in for `DashMap<ClientID, ClientState>` (field `Awareness::states`)
pub struct StatesMap { pub m: Ghost<Map<ClientID, ClientState>> }

impl StatesMap {
    pub open spec fn vx_view(&self) -> Map<ClientID, ClientState> { self.m@ }

    /// A2 (trusted): `dashmap::DashMap::entry`
    #[verifier::external_body]
    pub fn vx_entry<'a>(&'a mut self, k: ClientID) -> (r: Entry<'a, ClientState>)
        ensures
            entry_of(r, old(self).vx_view(), k),
            final(self).vx_view() == slot_map(old(self).vx_view(), k, entry_final(r)),
    {
        unimplemented!()
    }
}

impl<'a, V> OccupiedEntry<'a, V> {
    pub fn get(&self) -> (r: &V)
        requires old(self.slot).is_some(),
        ensures *r == old(self.slot).unwrap(),
    {
        self.slot.as_ref().unwrap()
    }

    pub fn get_mut(&mut self) -> (r: &mut V)
        requires old(self).slot.is_some(),
        ensures
            *r == old(self).slot.unwrap(),
            *final(self).slot == Some(*final(r)),
            *final(final(self).slot) == *final(old(self).slot),
    {
        self.slot.as_mut().unwrap()
    }
}

impl<'a, V> VacantEntry<'a, V> {
    pub fn insert(self, v: V) -> (r: &'a mut V)
        ensures
            *r == v,
            *final(self.slot) == Some(*final(r)),
    {
        *self.slot = Some(v);
        self.slot.as_mut().unwrap()
    }
}

impl<'a, V> Entry<'a, V> {
    pub fn insert(self, v: V) -> (r: &'a mut V)
        ensures
            *r == v,
            entry_final(self) == Some(*final(r)),
    {
        match self {
            Entry::Occupied(e) => {
                *e.slot = Some(v);
                e.slot.as_mut().unwrap()
            },
            Entry::Vacant(e) => e.insert(v),
        }
    }
}

/// the register of client `k` in the states map (None = unknown client)
pub open spec fn reg_at(m: Map<ClientID, ClientState>, k: ClientID) -> Reg {
    if m.contains_key(k) { reg_of(m[k]) } else { None }
}

/// every client other than `k` is untouched
pub open spec fn others_same(m1: Map<ClientID, ClientState>, m0: Map<ClientID, ClientState>, k: ClientID) -> bool {
    forall|c: ClientID| c != k ==> (#[trigger] m1.contains_key(c) == m0.contains_key(c)) && (m0.contains_key(c) ==> m1[c] == m0[c])
}

// ---------------------------------------------------------------------------------------------
// the real `match self.states.entry(client_id) { .. }` statements, dispatch included
// ---------------------------------------------------------------------------------------------

// apply_update_internal: the whole per-client transition of the loop body equals the spec `step`
/*@extract yrs/src/sync/awareness.rs | impl Awareness | region apply_update_internal | stmt=stmt:match | stmtnth=1 | label=apply_update_match
@header
    fn aw_apply_update_entry(states: &mut StatesMap, client_id: ClientID, mut clock: u32, new: Option<Str>, local_id: ClientID,
        generate_summary: bool, now: Timestamp, added: &mut Vec<ClientID>, updated: &mut Vec<ClientID>, changed: &mut Vec<ClientID>,
        removed: &mut Vec<ClientID>)
@sig
    ensures
        reg_at(final(states).vx_view(), client_id) == step(reg_at(old(states).vx_view(), client_id), client_id == local_id, clock, new),
        final(states).vx_view().contains_key(client_id),
        // C18: a client's clock never goes backwards (-1 = unknown client)
        reg_clock(reg_at(final(states).vx_view(), client_id)) >= reg_clock(reg_at(old(states).vx_view(), client_id)),
        others_same(final(states).vx_view(), old(states).vx_view(), client_id),
        // a stale message leaves the stored state (incl. its timestamp) alone
        old(states).vx_view().contains_key(client_id) && !(old(states).vx_view()[client_id].clock < clock
            || (old(states).vx_view()[client_id].clock == clock && new.is_none() && old(states).vx_view()[client_id].data.is_some()))
            ==> final(states).vx_view() == old(states).vx_view(),
@*/

// remove_state(client): local "mark as disconnected" -- payload cleared, clock bumped (never backwards)
/*@extract yrs/src/sync/awareness.rs | impl Awareness | region remove_state | stmt=stmt:let is_removed | tail=is_removed | label=remove_state_match
@header
    fn aw_remove_state(states: &mut StatesMap, client_id: ClientID, now: Timestamp) -> (is_removed: bool)
@sig
    ensures
        final(states).vx_view().contains_key(client_id),
        final(states).vx_view()[client_id].data.is_none(),
        others_same(final(states).vx_view(), old(states).vx_view(), client_id),
        is_removed == old(states).vx_view().contains_key(client_id),
        // C18: a client's clock never goes backwards
        old(states).vx_view().contains_key(client_id) ==> final(states).vx_view()[client_id].clock >= old(states).vx_view()[client_id].clock,
        old(states).vx_view().contains_key(client_id) ==> final(states).vx_view()[client_id].clock == bump(old(states).vx_view()[client_id].clock),
        old(states).vx_view().contains_key(client_id) ==> final(states).vx_view()[client_id].last_updated == old(states).vx_view()[client_id].last_updated,
        // an unknown client is recorded as a tombstone with the first clock
        !old(states).vx_view().contains_key(client_id) ==> final(states).vx_view()[client_id].clock == 1,
        !old(states).vx_view().contains_key(client_id) ==> final(states).vx_view()[client_id].last_updated == now,
@*/

/// the local client's state after `set_local_state_raw(json)` at time `now`: first clock 1, afterwards one past the stored one
pub open spec fn set_local_spec(m: Map<ClientID, ClientState>, k: ClientID, now: Timestamp, json: Str) -> ClientState {
    ClientState { clock: if m.contains_key(k) { bump(m[k].clock) } else { 1u32 }, last_updated: now, data: Some(json) }
}

// set_local_state_raw(json): the local client's state is replaced, clock bumped (never backwards), previous payload returned
/*@extract yrs/src/sync/awareness.rs | impl Awareness | region set_local_state_raw | stmt=stmt:let prev | tail=prev | label=set_local_state_match
@header
    fn aw_set_local_state(states: &mut StatesMap, client_id: ClientID, now: Timestamp, json: Str) -> (prev: Option<Str>)
@sig
    ensures
        // C18: a client's clock never goes backwards
        old(states).vx_view().contains_key(client_id) ==> final(states).vx_view()[client_id].clock >= old(states).vx_view()[client_id].clock,
        final(states).vx_view() == old(states).vx_view().insert(client_id, set_local_spec(old(states).vx_view(), client_id, now, json)),
        final(states).vx_view().contains_key(client_id),
        final(states).vx_view()[client_id].clock == (if old(states).vx_view().contains_key(client_id) { bump(old(states).vx_view()[client_id].clock) } else { 1u32 }),
        final(states).vx_view()[client_id].last_updated == now,
        final(states).vx_view()[client_id].data == Some(json),
        others_same(final(states).vx_view(), old(states).vx_view(), client_id),
        prev == (if old(states).vx_view().contains_key(client_id) { old(states).vx_view()[client_id].data } else { None }),
@*/

} // verus!
fn main() {}
