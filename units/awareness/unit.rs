// unit `awareness` — the per-client merge step of the awareness protocol (yrs/src/sync/awareness.rs). Serves C18.
// The bodies of the `Entry::Occupied` / `Entry::Vacant` arms of apply_update_internal, remove_state and
// set_local_state_raw are lifted mechanically into functions (rule R18); the DashMap entry dispatch, the loop over
// the update's clients and the observer notifications are NOT part of the verified text (listed in the evidence).
#![allow(unused_imports, unused_variables, unused_mut, dead_code, unused_parens, unused_braces, unused_assignments)]
use vstd::prelude::*;

verus! {

/*@rules R10 SUB(from=Arc<str>;;to=Str) SUB(from=self.doc.client_id();;to=local_id) SUB(from=self.clock.now();;to=now) @*/

// R13: strings are opaque values with equality only (the merge step never looks inside the JSON payload)
#[derive(PartialEq, Eq, Structural, Clone, Copy)]
pub struct Str(pub u64);

// the client id is compared for equality only
#[derive(PartialEq, Eq, Structural, Clone, Copy)]
pub struct ClientID(pub u64);

pub type Timestamp = u64;

/// A2: std `Option::replace`
pub assume_specification<T>[ Option::<T>::replace ](o: &mut Option<T>, value: T) -> (res: Option<T>)
    ensures
        res == *old(o),
        *final(o) == Some(value),
;

/*@extract yrs/src/sync/awareness.rs | - | struct ClientState @*/

// ---------------------------------------------------------------------------------------------
// specification: one client's register is None (unknown client) or Some((clock, payload))
// ---------------------------------------------------------------------------------------------
pub type Reg = Option<(u32, Option<Str>)>;

pub open spec fn reg_of(s: ClientState) -> Reg {
    Some((s.clock, s.data))
}

/// the merge step as the property states it: a last-writer-wins register on the clock, where a null payload at the
/// SAME clock removes a live state (timeout removal), and the local client's live state is never erased by a remote
/// message (instead the clock is pushed past the remote one)
pub open spec fn step(r: Reg, is_local: bool, clock: u32, new: Option<Str>) -> Reg {
    match r {
        None => Some((clock, new)),
        Some((sc, sd)) => {
            let is_removed = sc == clock && new.is_none() && sd.is_some();
            if sc < clock || is_removed {
                match new {
                    None => if is_local && sd.is_some() { Some((bump(clock), sd)) } else { Some((clock, None)) },
                    Some(x) => Some((clock, Some(x))),
                }
            } else {
                r
            }
        },
    }
}

/// the clock one past `c`, saturating at u32::MAX
pub open spec fn bump(c: u32) -> u32 {
    if c < u32::MAX { (c + 1) as u32 } else { c }
}

pub open spec fn reg_clock(r: Reg) -> int {
    match r { None => -1, Some((c, _)) => c as int }
}

pub open spec fn reg_live(r: Reg) -> bool {
    match r { None => false, Some((_, d)) => d.is_some() }
}

// ---- the five awareness clauses of C18 as lemmas over `step`, for every u32 clock

/// applying the same update twice is the same as applying it once
pub proof fn lemma_idempotent(r: Reg, is_local: bool, clock: u32, new: Option<Str>)
    ensures step(step(r, is_local, clock, new), is_local, clock, new) == step(r, is_local, clock, new),
{
}

/// a client's clock never goes backwards
pub proof fn lemma_clock_monotone(r: Reg, is_local: bool, clock: u32, new: Option<Str>)
    ensures reg_clock(step(r, is_local, clock, new)) >= reg_clock(r),
{
}

/// a state with a lower clock never replaces one with a higher clock
pub proof fn lemma_lower_clock_ignored(r: Reg, is_local: bool, clock: u32, new: Option<Str>)
    requires (clock as int) < reg_clock(r),
    ensures step(r, is_local, clock, new) == r,
{
}

/// a peer never lets a remote message erase its own live state
pub proof fn lemma_local_live_kept(r: Reg, clock: u32, new: Option<Str>)
    requires reg_live(r), new.is_none(),
    ensures reg_live(step(r, true, clock, new)),
            r is Some ==> step(r, true, clock, new).unwrap().1 == r.unwrap().1,
{
}

/// order-insensitive for remote clients: two updates that agree on the payload whenever they carry the same clock
/// (or one of them is the null removal) commute
pub proof fn lemma_commute(r: Reg, c1: u32, n1: Option<Str>, c2: u32, n2: Option<Str>)
    requires c1 == c2 ==> (n1 == n2 || n1.is_none() || n2.is_none()),
    ensures step(step(r, false, c1, n1), false, c2, n2) == step(step(r, false, c2, n2), false, c1, n1),
{
}

// ---------------------------------------------------------------------------------------------
// the real arms
// ---------------------------------------------------------------------------------------------
/*@extract yrs/src/sync/awareness.rs | impl Awareness | region apply_update_internal | arm=Entry::Occupied(mut e) => | label=apply_occupied
@header
    fn aw_apply_occupied(state: &mut ClientState, mut clock: u32, new: Option<Str>, client_id: ClientID, local_id: ClientID,
        generate_summary: bool, now: Timestamp, removed: &mut Vec<ClientID>, updated: &mut Vec<ClientID>, changed: &mut Vec<ClientID>) -> (r: bool)
@drop `let state: &mut ClientState = e.get_mut();`
@sig
    ensures
        reg_of(*final(state)) == step(reg_of(*old(state)), client_id == local_id, clock, new),
        // the entry was touched iff the step changed the register or refreshed it
        r == (old(state).clock < clock || (old(state).clock == clock && new.is_none() && old(state).data.is_some())),
        !r ==> *final(state) == *old(state),
@*/

/// R17/R18 stand-in for `dashmap::VacantEntry`: `insert` makes the value the client's state (trusted map contract)
pub struct VacantSlot { pub v: Option<ClientState> }

impl VacantSlot {
    pub fn insert(&mut self, v: ClientState)
        requires old(self).v.is_none(),
        ensures final(self).v == Some(v),
    {
        self.v = Some(v);
    }
}

impl ClientState {
    /*@extract yrs/src/sync/awareness.rs | impl ClientState | fn new
    @ret r
    @sig
        ensures r.clock == clock, r.last_updated == last_updated, r.data == state,
    @*/
}

/*@extract yrs/src/sync/awareness.rs | impl Awareness | region apply_update_internal | arm=Entry::Vacant(e) => | label=apply_vacant
@header
    fn aw_apply_vacant(e: &mut VacantSlot, mut clock: u32, new: Option<Str>, client_id: ClientID,
        generate_summary: bool, now: Timestamp, added: &mut Vec<ClientID>) -> (r: bool)
@sig
    requires
        old(e).v.is_none(),
    ensures
        final(e).v.is_some(),
        reg_of(final(e).v.unwrap()) == step(None, false, clock, new),
        r == new.is_some(),
@*/

// remove_state(client): local "mark as disconnected" -- clock strictly increases, payload cleared
/*@extract yrs/src/sync/awareness.rs | impl Awareness | region remove_state | arm=Entry::Occupied(mut e) => | label=remove_occupied
@header
    fn aw_remove_occupied(state: &mut ClientState) -> (r: bool)
@drop `let state = e.get_mut();`
@sig
    ensures
        final(state).data.is_none(),
        final(state).clock == bump(old(state).clock),
        final(state).clock >= old(state).clock,
@*/

/*@extract yrs/src/sync/awareness.rs | impl Awareness | region set_local_state_raw | arm=Entry::Occupied(mut e) => | label=set_local_occupied
@header
    fn aw_set_local_occupied(state: &mut ClientState, now: Timestamp, json: Str) -> (r: Option<Str>)
@drop `let state = e.get_mut();`
@sig
    ensures
        final(state).data == Some(json),
        final(state).clock == bump(old(state).clock),
        final(state).clock >= old(state).clock,
        r == old(state).data,
@*/

} // verus!
fn main() {}
