// unit `sv` — the state-vector kernel (yrs/src/state_vector.rs; Store::diff_state_vectors and the GC guard of
// Store::encode_state_from_snapshot in yrs/src/store.rs).
// Serves C06 (state-vector lattice, partial order, exact diff of two state vectors) and C13 (Snapshot::is_visible,
// "GC enabled => refused, nothing written").
//
// Abstraction: a state vector is the total map client -> clock with default 0 (`sv_get`); where the code
// distinguishes "absent" from "0" (set_min, the domain of the result of set_max/merge, the second loop of
// diff_state_vectors) the contract is stated on the Map view itself.
//
// TRUSTED (module vx_trusted, listed by the trust scanner):
//  * `axiom_client_id_key_model` (A4: derived Hash/Eq of ClientID agree),
//  * `axiom_ordering_eq_structural` (A3: derived PartialEq of core::cmp::Ordering is structural; vstd leaves it uninterpreted),
//  * `vx_or_default` (A2: std `HashMap::entry(k).or_default()`, map-level contract).
// REWRITES / what is NOT part of the verified text (all logged in the evidence):
//  * the hasher: the type `HashMap<ClientID, u32, BuildHasherDefault<ClientHasher>>` is spelled `HashMap<ClientID, u32>`
//    (SUB rule; Verus rejects `BuildHasherDefault` without two more external type specifications and a
//    `builds_valid_hashers` axiom; hasher quality is assumption A4),
//  * `self.0.entry(client).or_default()` is the trusted helper `vx_or_default` (SUB rule),
//  * the dispatch of `match self.0.entry(client) { Occupied / Vacant }` in set_min (Occupied iff the key is present, and
//    `into_mut` / `VacantEntry::insert` address the value of that key) is TRUSTED: the two arm blocks are lifted (R18,
//    `VacantSlot` stands in for `VacantEntry`) and `lemma_set_min_dispatch` recombines them,
//  * `for (client, clock) in other.0` (consuming IntoIter, no Verus specification) is iterated as `other.0.iter()` with
//    the two bindings copied out (SUB rule; same (key, value) pairs),
//  * `(client, &remote_clock)` (reference pattern, rejected by Verus) is bound as `(client, vx_rc)` + `let remote_clock = *vx_rc`,
//  * `PartialOrd::partial_cmp` is emitted as an inherent method (body unchanged),
//  * `Snapshot` is made generic in its `IdSet` (any type with `contains`, trait `IdSetApi`): IdSet is opaque here,
//  * Store::encode_state_from_snapshot is ingested whole; `Store` is reduced to the field `skip_gc`, `Error`, `Encoder`,
//    `Store::write_blocks_to` and `IdSet::encode` are stand-ins with the weakest contract (may do anything to the encoder).
#![allow(unused_imports, unused_variables, unused_mut, dead_code, unused_parens, unused_braces, unused_assignments)]
use vstd::prelude::*;
use std::collections::HashMap;
use std::cmp::Ordering;
use vstd::std_specs::iter::IteratorSpec;

verus! {

/*@rules R10
  SUB(from=HashMap<ClientID, u32, BuildHasherDefault<ClientHasher>>;;to=HashMap<ClientID, u32>)
  SUB(from=self.0.entry(client).or_default();;to=vx_or_default(&mut self.0, client))
@*/

// the client id is an opaque value with structural equality (derived Eq/Hash in /repo: `ClientID(NonZeroU64)`)
#[derive(PartialEq, Eq, Structural, Clone, Copy, Hash)]
pub struct ClientID(pub u64);

pub mod vx_trusted {
    use vstd::prelude::*;
    use vstd::std_specs::hash::*;
    use std::collections::HashMap;
    use std::cmp::Ordering;
    use vstd::std_specs::cmp::PartialEqSpec;
    use super::ClientID;

    /// A4: the derived `Hash` and `Eq` of ClientID agree (equal ids hash equally, `==` is structural equality), i.e.
    /// ClientID is a lawful std::collections::HashMap key.
    /// (stated as an `external_body` proof fn rather than `axiom fn` so that the framework's trust scanner lists it)
    #[verifier::external_body] pub broadcast proof fn axiom_client_id_key_model()
        ensures
            #[trigger] obeys_key_model::<ClientID>(),
    {
    }

    /// A3: the derived `PartialEq` of the fieldless std enum `core::cmp::Ordering` is structural equality (vstd specifies
    /// `u32::cmp` and `==` on `Option<T>` in terms of `T`, but leaves `==` on `Ordering` uninterpreted).  Needed only for
    /// the match guards `result == Some(Ordering::Greater)` / `== Some(Ordering::Less)` of partial_cmp.
    #[verifier::external_body] pub broadcast proof fn axiom_ordering_eq_structural()
        ensures
            #[trigger] <Ordering as PartialEqSpec>::obeys_eq_spec(),
            forall|a: Ordering, b: Ordering| #[trigger] a.eq_spec(&b) == (a == b),
    {
    }

    /// A2: std `HashMap::entry(k).or_default()` for `V = u32`: a mutable reference to the value of `k`, which is
    /// inserted as `u32::default() == 0` when absent; no other key is touched.
    #[verifier::external_body] pub fn vx_or_default<'a>(m: &'a mut HashMap<ClientID, u32>, k: ClientID) -> (r: &'a mut u32)
        ensures
            *r == (if old(m)@.contains_key(k) { old(m)@[k] } else { 0u32 }),
            final(m)@ == old(m)@.insert(k, *final(r)),
    {
        m.entry(k).or_default()
    }
}
use vx_trusted::*;

broadcast use {axiom_client_id_key_model, axiom_ordering_eq_structural};

/*@extract yrs/src/block.rs | - | struct ID @*/

/*@extract yrs/src/state_vector.rs | - | struct StateVector @*/

impl View for StateVector {
    type V = Map<ClientID, u32>;

    closed spec fn view(&self) -> Map<ClientID, u32> {
        self.0@
    }
}

// ---------------------------------------------------------------------------------------------
// specification
// ---------------------------------------------------------------------------------------------
/// the clock of client `c`: absent means 0
pub open spec fn sv_get(m: Map<ClientID, u32>, c: ClientID) -> u32 {
    if m.contains_key(c) { m[c] } else { 0 }
}

pub open spec fn max_u32(a: u32, b: u32) -> u32 {
    if a >= b { a } else { b }
}

pub open spec fn min_u32(a: u32, b: u32) -> u32 {
    if a <= b { a } else { b }
}

/// pointwise order / equality of two state vectors
pub open spec fn sv_le(a: Map<ClientID, u32>, b: Map<ClientID, u32>) -> bool {
    forall|c: ClientID| sv_get(a, c) <= sv_get(b, c)
}

pub open spec fn sv_equiv(a: Map<ClientID, u32>, b: Map<ClientID, u32>) -> bool {
    forall|c: ClientID| sv_get(a, c) == sv_get(b, c)
}

/// the join (least upper bound): pointwise maximum; a client is listed iff one of the two lists it
pub open spec fn sv_join(a: Map<ClientID, u32>, b: Map<ClientID, u32>) -> Map<ClientID, u32> {
    Map::new(a.dom().union(b.dom()), |c: ClientID| max_u32(sv_get(a, c), sv_get(b, c)))
}

/// the state vector that knows only `c` at clock `k`
pub open spec fn sv_single(c: ClientID, k: u32) -> Map<ClientID, u32> {
    Map::<ClientID, u32>::empty().insert(c, k)
}

// ---- lattice laws of the join (C06: merging state vectors is idempotent, commutative, associative, monotone)
pub proof fn lemma_join_get(a: Map<ClientID, u32>, b: Map<ClientID, u32>, c: ClientID)
    ensures
        sv_get(sv_join(a, b), c) == max_u32(sv_get(a, c), sv_get(b, c)),
        sv_join(a, b).contains_key(c) <==> a.contains_key(c) || b.contains_key(c),
{
}

pub proof fn lemma_join_idempotent(a: Map<ClientID, u32>)
    ensures
        sv_join(a, a) == a,
{
    assert(sv_join(a, a) =~= a);
}

pub proof fn lemma_join_commutative(a: Map<ClientID, u32>, b: Map<ClientID, u32>)
    ensures
        sv_join(a, b) == sv_join(b, a),
{
    assert(sv_join(a, b) =~= sv_join(b, a));
}

pub proof fn lemma_join_associative(a: Map<ClientID, u32>, b: Map<ClientID, u32>, c: Map<ClientID, u32>)
    ensures
        sv_join(sv_join(a, b), c) == sv_join(a, sv_join(b, c)),
{
    assert forall|x: ClientID| #[trigger] sv_join(sv_join(a, b), c).contains_key(x) <==> sv_join(a, sv_join(b, c)).contains_key(x) by {
        lemma_join_get(a, b, x);
        lemma_join_get(b, c, x);
    }
    assert forall|x: ClientID| sv_join(sv_join(a, b), c).contains_key(x) implies #[trigger] sv_join(sv_join(a, b), c)[x] == sv_join(a, sv_join(b, c))[x] by {
        lemma_join_get(a, b, x);
        lemma_join_get(b, c, x);
    }
    assert(sv_join(sv_join(a, b), c) =~= sv_join(a, sv_join(b, c)));
}

/// the join is an upper bound of both arguments (a replica's state vector never decreases by merging) ...
pub proof fn lemma_join_monotone(a: Map<ClientID, u32>, b: Map<ClientID, u32>)
    ensures
        sv_le(a, sv_join(a, b)),
        sv_le(b, sv_join(a, b)),
{
    assert forall|c: ClientID| sv_get(a, c) <= sv_get(sv_join(a, b), c) && sv_get(b, c) <= sv_get(sv_join(a, b), c) by {
        lemma_join_get(a, b, c);
    }
}

/// ... and the least one
pub proof fn lemma_join_least(a: Map<ClientID, u32>, b: Map<ClientID, u32>, u: Map<ClientID, u32>)
    requires
        sv_le(a, u),
        sv_le(b, u),
    ensures
        sv_le(sv_join(a, b), u),
{
    assert forall|c: ClientID| sv_get(sv_join(a, b), c) <= sv_get(u, c) by {
        lemma_join_get(a, b, c);
        assert(sv_get(a, c) <= sv_get(u, c) && sv_get(b, c) <= sv_get(u, c));
    }
}

/// merging something already known changes no clock (re-applying a known update / an update encoded against the
/// receiver's own state vector leaves the state vector unchanged)
pub proof fn lemma_join_absorb(a: Map<ClientID, u32>, b: Map<ClientID, u32>)
    requires
        sv_le(b, a),
    ensures
        sv_equiv(sv_join(a, b), a),
        sv_equiv(sv_join(sv_join(a, b), b), sv_join(a, b)),
{
    assert forall|c: ClientID| sv_get(sv_join(a, b), c) == sv_get(a, c) by {
        lemma_join_get(a, b, c);
        assert(sv_get(b, c) <= sv_get(a, c));
    }
    assert forall|c: ClientID| sv_get(sv_join(sv_join(a, b), b), c) == sv_get(sv_join(a, b), c) by {
        lemma_join_get(sv_join(a, b), b, c);
        lemma_join_get(a, b, c);
    }
}

/// the join respects pointwise equality (explicit zero entries do not matter)
pub proof fn lemma_join_congruent(a: Map<ClientID, u32>, a2: Map<ClientID, u32>, b: Map<ClientID, u32>, b2: Map<ClientID, u32>)
    requires
        sv_equiv(a, a2),
        sv_equiv(b, b2),
    ensures
        sv_equiv(sv_join(a, b), sv_join(a2, b2)),
{
    assert forall|c: ClientID| sv_get(sv_join(a, b), c) == sv_get(sv_join(a2, b2), c) by {
        lemma_join_get(a, b, c);
        lemma_join_get(a2, b2, c);
        assert(sv_get(a, c) == sv_get(a2, c) && sv_get(b, c) == sv_get(b2, c));
    }
}

/// `set_max(c, k)` is the join with the single-entry vector
pub proof fn lemma_set_max_is_join(m: Map<ClientID, u32>, c: ClientID, k: u32)
    ensures
        m.insert(c, max_u32(sv_get(m, c), k)) == sv_join(m, sv_single(c, k)),
{
    assert(m.insert(c, max_u32(sv_get(m, c), k)) =~= sv_join(m, sv_single(c, k)));
}


// ---- iteration over the map (vstd's HashMap::iter: a duplicate-free sequence of exactly the map's (key, value) pairs)
/// `s` enumerates the map `m`
pub open spec fn iter_of(s: Seq<(&ClientID, &u32)>, m: Map<ClientID, u32>) -> bool {
    &&& s.len() == m.len()
    &&& s.no_duplicates()
    &&& forall|i: int| 0 <= i < s.len() ==> m.contains_key(*(#[trigger] s[i]).0) && m[*s[i].0] == *s[i].1
    &&& forall|k: ClientID| m.contains_key(k) ==> exists|i: int| 0 <= i < s.len() && *(#[trigger] s[i]).0 == k
}

/// the clients among the first `n` pairs
pub open spec fn keys_upto(s: Seq<(&ClientID, &u32)>, n: int) -> ISet<ClientID> {
    ISet::new(|c: ClientID| exists|j: int| 0 <= j < n && *(#[trigger] s[j]).0 == c)
}

pub proof fn lemma_keys_upto_zero(s: Seq<(&ClientID, &u32)>)
    ensures
        keys_upto(s, 0) == ISet::<ClientID>::empty(),
{
    assert(keys_upto(s, 0) =~= ISet::<ClientID>::empty());
}

/// one more pair: its client is new (keys are distinct) and is listed in the map with the pair's clock
pub proof fn lemma_keys_upto_step(s: Seq<(&ClientID, &u32)>, m: Map<ClientID, u32>, n: int)
    requires
        iter_of(s, m),
        0 <= n < s.len(),
    ensures
        keys_upto(s, n + 1) == keys_upto(s, n).insert(*s[n].0),
        !keys_upto(s, n).contains(*s[n].0),
        m.contains_key(*s[n].0),
        m[*s[n].0] == *s[n].1,
        forall|c: ClientID| keys_upto(s, n).contains(c) ==> m.contains_key(c),
{
    let c = *s[n].0;
    assert forall|x: ClientID| keys_upto(s, n + 1).contains(x) <==> keys_upto(s, n).insert(c).contains(x) by {
        if keys_upto(s, n + 1).contains(x) {
            let j = choose|j: int| 0 <= j < n + 1 && *(#[trigger] s[j]).0 == x;
            if j < n {
                assert(0 <= j < n && *s[j].0 == x);
            }
        }
        if keys_upto(s, n).contains(x) {
            let j = choose|j: int| 0 <= j < n && *(#[trigger] s[j]).0 == x;
            assert(0 <= j < n + 1 && *s[j].0 == x);
        }
        if x == c {
            assert(0 <= n < n + 1 && *s[n].0 == x);
        }
    }
    assert(keys_upto(s, n + 1) =~= keys_upto(s, n).insert(c));
    if keys_upto(s, n).contains(c) {
        let j = choose|j: int| 0 <= j < n && *(#[trigger] s[j]).0 == c;
        // same key => same value => the same pair twice
        assert(m[*s[j].0] == *s[j].1 && m[*s[n].0] == *s[n].1);
        assert(s[j] == s[n]);
        assert(false);
    }
    assert forall|x: ClientID| keys_upto(s, n).contains(x) implies m.contains_key(x) by {
        let j = choose|j: int| 0 <= j < n && *(#[trigger] s[j]).0 == x;
        assert(m.contains_key(*s[j].0));
    }
}

/// all pairs: exactly the map's clients
pub proof fn lemma_keys_upto_all(s: Seq<(&ClientID, &u32)>, m: Map<ClientID, u32>)
    requires
        iter_of(s, m),
    ensures
        keys_upto(s, s.len() as int) == m.dom().to_iset(),
        forall|x: ClientID| keys_upto(s, s.len() as int).contains(x) <==> m.contains_key(x),
{
    assert forall|x: ClientID| keys_upto(s, s.len() as int).contains(x) <==> m.contains_key(x) by {
        if keys_upto(s, s.len() as int).contains(x) {
            let j = choose|j: int| 0 <= j < s.len() && *(#[trigger] s[j]).0 == x;
            assert(m.contains_key(*s[j].0));
        }
        if m.contains_key(x) {
            let j = choose|j: int| 0 <= j < s.len() && *(#[trigger] s[j]).0 == x;
            assert(0 <= j < s.len() as int && *s[j].0 == x);
        }
    }
    assert(keys_upto(s, s.len() as int) =~= m.dom().to_iset());
}

/// state of `merge` after the clients in `seen` (all listed in `b`) have been merged into `a0`
pub open spec fn merge_inv(cur: Map<ClientID, u32>, a0: Map<ClientID, u32>, b: Map<ClientID, u32>, seen: ISet<ClientID>) -> bool {
    &&& forall|x: ClientID| #[trigger] cur.contains_key(x) <==> a0.contains_key(x) || seen.contains(x)
    &&& forall|x: ClientID| #[trigger] cur.contains_key(x) ==> cur[x] == (if seen.contains(x) { max_u32(sv_get(a0, x), sv_get(b, x)) } else { sv_get(a0, x) })
}

pub proof fn lemma_merge_step(cur: Map<ClientID, u32>, a0: Map<ClientID, u32>, b: Map<ClientID, u32>, seen: ISet<ClientID>, c: ClientID, k: u32, nxt: Map<ClientID, u32>)
    requires
        merge_inv(cur, a0, b, seen),
        !seen.contains(c),
        b.contains_key(c) && b[c] == k,
        nxt == cur.insert(c, max_u32(sv_get(cur, c), k)),
    ensures
        merge_inv(nxt, a0, b, seen.insert(c)),
{
    let seen2 = seen.insert(c);
    assert(cur.contains_key(c) <==> a0.contains_key(c));
    assert(sv_get(cur, c) == sv_get(a0, c));
    assert forall|x: ClientID| #[trigger] nxt.contains_key(x) <==> a0.contains_key(x) || seen2.contains(x) by {
        assert(cur.contains_key(x) <==> a0.contains_key(x) || seen.contains(x));
    }
    assert forall|x: ClientID| #[trigger] nxt.contains_key(x) implies nxt[x] == (if seen2.contains(x) { max_u32(sv_get(a0, x), sv_get(b, x)) } else { sv_get(a0, x) }) by {
        if x != c {
            assert(cur.contains_key(x));
            assert(nxt[x] == cur[x]);
            assert(seen2.contains(x) <==> seen.contains(x));
        }
    }
}

pub proof fn lemma_merge_done(cur: Map<ClientID, u32>, a0: Map<ClientID, u32>, b: Map<ClientID, u32>, seen: ISet<ClientID>)
    requires
        merge_inv(cur, a0, b, seen),
        forall|x: ClientID| seen.contains(x) <==> b.contains_key(x),
    ensures
        cur == sv_join(a0, b),
        forall|x: ClientID| sv_get(cur, x) == max_u32(sv_get(a0, x), sv_get(b, x)),
{
    assert forall|x: ClientID| #[trigger] cur.contains_key(x) <==> sv_join(a0, b).contains_key(x) by {
        assert(cur.contains_key(x) <==> a0.contains_key(x) || seen.contains(x));
    }
    assert forall|x: ClientID| #[trigger] cur.contains_key(x) implies cur[x] == sv_join(a0, b)[x] by {
        assert(seen.contains(x) <==> b.contains_key(x));
    }
    assert(cur =~= sv_join(a0, b));
    assert forall|x: ClientID| sv_get(cur, x) == max_u32(sv_get(a0, x), sv_get(b, x)) by {
        lemma_join_get(a0, b, x);
    }
}


// ---- the partial order (C06 observes replicas through `partial_cmp` of their state vectors)
pub open spec fn sv_cmp(a: Map<ClientID, u32>, b: Map<ClientID, u32>) -> Option<Ordering> {
    if sv_le(a, b) && sv_le(b, a) {
        Some(Ordering::Equal)
    } else if sv_le(a, b) {
        Some(Ordering::Less)
    } else if sv_le(b, a) {
        Some(Ordering::Greater)
    } else {
        None
    }
}

/// `a <= b` on the clients in `seen`
pub open spec fn le_on(a: Map<ClientID, u32>, b: Map<ClientID, u32>, seen: ISet<ClientID>) -> bool {
    forall|c: ClientID| seen.contains(c) ==> sv_get(a, c) <= sv_get(b, c)
}

/// `result` is the comparison restricted to the clients seen so far
pub open spec fn cmp_inv(a: Map<ClientID, u32>, b: Map<ClientID, u32>, seen: ISet<ClientID>, result: Option<Ordering>) -> bool {
    match result {
        Some(Ordering::Equal) => le_on(a, b, seen) && le_on(b, a, seen),
        Some(Ordering::Less) => le_on(a, b, seen) && !le_on(b, a, seen),
        Some(Ordering::Greater) => le_on(b, a, seen) && !le_on(a, b, seen),
        None => false,
    }
}

pub proof fn lemma_le_on_insert(a: Map<ClientID, u32>, b: Map<ClientID, u32>, seen: ISet<ClientID>, c: ClientID)
    ensures
        le_on(a, b, seen.insert(c)) <==> le_on(a, b, seen) && sv_get(a, c) <= sv_get(b, c),
{
    if le_on(a, b, seen.insert(c)) {
        assert(seen.insert(c).contains(c));
        assert forall|x: ClientID| seen.contains(x) implies sv_get(a, x) <= sv_get(b, x) by {
            assert(seen.insert(c).contains(x));
        }
    }
    if le_on(a, b, seen) && sv_get(a, c) <= sv_get(b, c) {
        assert forall|x: ClientID| seen.insert(c).contains(x) implies sv_get(a, x) <= sv_get(b, x) by {
            if x != c {
                assert(seen.contains(x));
            }
        }
    }
}

/// a violation of `<=` on some seen clients is a violation of the pointwise order
pub proof fn lemma_not_le_on(a: Map<ClientID, u32>, b: Map<ClientID, u32>, seen: ISet<ClientID>)
    requires
        !le_on(a, b, seen),
    ensures
        !sv_le(a, b),
{
    let c = choose|c: ClientID| seen.contains(c) && !(sv_get(a, c) <= sv_get(b, c));
    assert(!(sv_get(a, c) <= sv_get(b, c)));
}

/// one more client `c`; `ord` is `sv_get(a, c).cmp(sv_get(b, c))`.  Mirrors the four match arms from the property's side:
/// a conflict (one client ahead, another behind) makes the vectors incomparable, otherwise the running result is updated.
pub proof fn lemma_cmp_step(a: Map<ClientID, u32>, b: Map<ClientID, u32>, seen: ISet<ClientID>, result: Option<Ordering>, c: ClientID)
    requires
        cmp_inv(a, b, seen, result),
    ensures
        sv_get(a, c) == sv_get(b, c) ==> cmp_inv(a, b, seen.insert(c), result),
        sv_get(a, c) < sv_get(b, c) && result == Some(Ordering::Greater) ==> sv_cmp(a, b) == None::<Ordering>,
        sv_get(a, c) > sv_get(b, c) && result == Some(Ordering::Less) ==> sv_cmp(a, b) == None::<Ordering>,
        sv_get(a, c) < sv_get(b, c) && result != Some(Ordering::Greater) ==> cmp_inv(a, b, seen.insert(c), Some(Ordering::Less)),
        sv_get(a, c) > sv_get(b, c) && result != Some(Ordering::Less) ==> cmp_inv(a, b, seen.insert(c), Some(Ordering::Greater)),
{
    lemma_le_on_insert(a, b, seen, c);
    lemma_le_on_insert(b, a, seen, c);
    if sv_get(a, c) < sv_get(b, c) && result == Some(Ordering::Greater) {
        lemma_not_le_on(a, b, seen);
        assert(!(sv_get(b, c) <= sv_get(a, c)));
    }
    if sv_get(a, c) > sv_get(b, c) && result == Some(Ordering::Less) {
        lemma_not_le_on(b, a, seen);
        assert(!(sv_get(a, c) <= sv_get(b, c)));
    }
}

/// every client listed by either vector has been seen: the running result is the comparison
pub proof fn lemma_cmp_done(a: Map<ClientID, u32>, b: Map<ClientID, u32>, seen: ISet<ClientID>, result: Option<Ordering>)
    requires
        cmp_inv(a, b, seen, result),
        forall|c: ClientID| a.contains_key(c) || b.contains_key(c) ==> seen.contains(c),
    ensures
        result == sv_cmp(a, b),
{
    assert(le_on(a, b, seen) <==> sv_le(a, b)) by {
        if le_on(a, b, seen) {
            assert forall|c: ClientID| sv_get(a, c) <= sv_get(b, c) by {
                if a.contains_key(c) || b.contains_key(c) {
                    assert(seen.contains(c));
                }
            }
        }
    }
    assert(le_on(b, a, seen) <==> sv_le(b, a)) by {
        if le_on(b, a, seen) {
            assert forall|c: ClientID| sv_get(b, c) <= sv_get(a, c) by {
                if a.contains_key(c) || b.contains_key(c) {
                    assert(seen.contains(c));
                }
            }
        }
    }
}

/// the result of `partial_cmp` read as the property states it
pub proof fn lemma_cmp_meaning(a: Map<ClientID, u32>, b: Map<ClientID, u32>)
    ensures
        sv_cmp(a, b) == Some(Ordering::Equal) <==> sv_equiv(a, b),
        sv_cmp(a, b) == Some(Ordering::Less) <==> sv_le(a, b) && !sv_equiv(a, b),
        sv_cmp(a, b) == Some(Ordering::Greater) <==> sv_le(b, a) && !sv_equiv(a, b),
        sv_cmp(a, b) == None::<Ordering> <==> !sv_le(a, b) && !sv_le(b, a),
{
    if sv_le(a, b) && sv_le(b, a) {
        assert forall|c: ClientID| sv_get(a, c) == sv_get(b, c) by {
            assert(sv_get(a, c) <= sv_get(b, c) && sv_get(b, c) <= sv_get(a, c));
        }
    }
    if sv_equiv(a, b) {
        assert forall|c: ClientID| sv_get(a, c) <= sv_get(b, c) && sv_get(b, c) <= sv_get(a, c) by {
            assert(sv_get(a, c) == sv_get(b, c));
        }
    }
}


// ---- Store::diff_state_vectors: which clients' blocks, and from which clock on, the sender has to write
/// `(c, k)` is in the diff of `local` against `remote`: the remote lists `c` but is behind (send from its clock on), or
/// the remote does not list `c` at all (send everything, from clock 0).  The Map view matters here: a client that
/// `local` lists explicitly is sent to a remote that does not list it even if its clock is 0.
pub open spec fn diff_has(local: Map<ClientID, u32>, remote: Map<ClientID, u32>, c: ClientID, k: u32) -> bool {
    ||| remote.contains_key(c) && sv_get(local, c) > remote[c] && k == remote[c]
    ||| local.contains_key(c) && !remote.contains_key(c) && k == 0
}

/// state of the two loops: the clients in `s1` have been looked at by the first loop, those in `s2` by the second
pub open spec fn diff_inv(d: Seq<(ClientID, u32)>, local: Map<ClientID, u32>, remote: Map<ClientID, u32>, s1: ISet<ClientID>, s2: ISet<ClientID>) -> bool {
    &&& forall|c: ClientID, k: u32| #[trigger] d.contains((c, k)) <==> diff_has(local, remote, c, k) && (if remote.contains_key(c) { s1.contains(c) } else { s2.contains(c) })
    &&& forall|i: int, j: int| 0 <= i < j < d.len() ==> (#[trigger] d[i]).0 != (#[trigger] d[j]).0
}

pub proof fn lemma_diff_init(local: Map<ClientID, u32>, remote: Map<ClientID, u32>)
    ensures
        diff_inv(Seq::<(ClientID, u32)>::empty(), local, remote, ISet::empty(), ISet::empty()),
{
    let d = Seq::<(ClientID, u32)>::empty();
    assert forall|c: ClientID, k: u32| !(#[trigger] d.contains((c, k))) by {
        if d.contains((c, k)) {
            let i = choose|i: int| 0 <= i < d.len() && d[i] == (c, k);
        }
    }
}

/// a client `c` is looked at and nothing is pushed
pub proof fn lemma_diff_skip(d: Seq<(ClientID, u32)>, local: Map<ClientID, u32>, remote: Map<ClientID, u32>, s1: ISet<ClientID>, s2: ISet<ClientID>, c: ClientID, first: bool)
    requires
        diff_inv(d, local, remote, s1, s2),
        first ==> remote.contains_key(c) && !(sv_get(local, c) > remote[c]),
        !first ==> remote.contains_key(c) || !local.contains_key(c),
    ensures
        first ==> diff_inv(d, local, remote, s1.insert(c), s2),
        !first ==> diff_inv(d, local, remote, s1, s2.insert(c)),
{
    let t1 = if first { s1.insert(c) } else { s1 };
    let t2 = if first { s2 } else { s2.insert(c) };
    assert forall|x: ClientID, k: u32| #[trigger] d.contains((x, k)) <==> diff_has(local, remote, x, k) && (if remote.contains_key(x) { t1.contains(x) } else { t2.contains(x) }) by {
        assert(d.contains((x, k)) <==> diff_has(local, remote, x, k) && (if remote.contains_key(x) { s1.contains(x) } else { s2.contains(x) }));
        if x != c {
            assert(t1.contains(x) <==> s1.contains(x));
            assert(t2.contains(x) <==> s2.contains(x));
        }
    }
}

/// a client `c` not looked at before is looked at and `(c, k)` is pushed
pub proof fn lemma_diff_push(d: Seq<(ClientID, u32)>, local: Map<ClientID, u32>, remote: Map<ClientID, u32>, s1: ISet<ClientID>, s2: ISet<ClientID>, c: ClientID, k: u32, first: bool)
    requires
        diff_inv(d, local, remote, s1, s2),
        diff_has(local, remote, c, k),
        first ==> remote.contains_key(c) && !s1.contains(c),
        !first ==> !remote.contains_key(c) && !s2.contains(c),
    ensures
        first ==> diff_inv(d.push((c, k)), local, remote, s1.insert(c), s2),
        !first ==> diff_inv(d.push((c, k)), local, remote, s1, s2.insert(c)),
{
    let t1 = if first { s1.insert(c) } else { s1 };
    let t2 = if first { s2 } else { s2.insert(c) };
    let e = d.push((c, k));
    // no entry of `d` is about `c`
    assert forall|i: int| 0 <= i < d.len() implies (#[trigger] d[i]).0 != c by {
        if d[i].0 == c {
            assert(d.contains((c, d[i].1)));
        }
    }
    assert forall|x: ClientID, y: u32| #[trigger] e.contains((x, y)) <==> diff_has(local, remote, x, y) && (if remote.contains_key(x) { t1.contains(x) } else { t2.contains(x) }) by {
        assert(d.contains((x, y)) <==> diff_has(local, remote, x, y) && (if remote.contains_key(x) { s1.contains(x) } else { s2.contains(x) }));
        if e.contains((x, y)) {
            let i = choose|i: int| 0 <= i < e.len() && e[i] == (x, y);
            if i < d.len() {
                assert(d[i] == (x, y));
                assert(d.contains((x, y)));
                assert(x != c);
            }
        }
        if d.contains((x, y)) {
            let i = choose|i: int| 0 <= i < d.len() && d[i] == (x, y);
            assert(e[i] == (x, y));
        }
        if x == c && y == k {
            assert(e[d.len() as int] == (x, y));
        }
        if x != c {
            assert(t1.contains(x) <==> s1.contains(x));
            assert(t2.contains(x) <==> s2.contains(x));
        }
    }
    assert forall|i: int, j: int| 0 <= i < j < e.len() implies (#[trigger] e[i]).0 != (#[trigger] e[j]).0 by {
        if j < d.len() {
            assert(d[i].0 != d[j].0);
        } else {
            assert(e[i] == d[i]);
        }
    }
}

/// both loops done: the result is exactly the diff; it is empty iff every client listed by `local` is listed by
/// `remote` with a clock that is not behind
pub proof fn lemma_diff_done(d: Seq<(ClientID, u32)>, local: Map<ClientID, u32>, remote: Map<ClientID, u32>, s1: ISet<ClientID>, s2: ISet<ClientID>)
    requires
        diff_inv(d, local, remote, s1, s2),
        forall|c: ClientID| remote.contains_key(c) ==> s1.contains(c),
        forall|c: ClientID| local.contains_key(c) ==> s2.contains(c),
    ensures
        forall|c: ClientID, k: u32| #[trigger] d.contains((c, k)) <==> diff_has(local, remote, c, k),
        forall|i: int, j: int| 0 <= i < j < d.len() ==> (#[trigger] d[i]).0 != (#[trigger] d[j]).0,
        d.len() == 0 <==> (forall|c: ClientID| local.contains_key(c) ==> remote.contains_key(c) && local[c] <= remote[c]),
{
    assert forall|c: ClientID, k: u32| #[trigger] d.contains((c, k)) <==> diff_has(local, remote, c, k) by {
        assert(d.contains((c, k)) <==> diff_has(local, remote, c, k) && (if remote.contains_key(c) { s1.contains(c) } else { s2.contains(c) }));
    }
    if d.len() == 0 {
        assert forall|c: ClientID| local.contains_key(c) implies remote.contains_key(c) && local[c] <= remote[c] by {
            if !remote.contains_key(c) {
                assert(diff_has(local, remote, c, 0));
                assert(d.contains((c, 0u32)));
            } else if local[c] > remote[c] {
                assert(diff_has(local, remote, c, remote[c]));
                assert(d.contains((c, remote[c])));
            }
        }
    } else {
        let e = d[0];
        assert(d.contains((e.0, e.1)));
        assert(diff_has(local, remote, e.0, e.1));
        if forall|c: ClientID| local.contains_key(c) ==> remote.contains_key(c) && local[c] <= remote[c] {
            if local.contains_key(e.0) {
                assert(remote.contains_key(e.0) && local[e.0] <= remote[e.0]);
            }
            assert(false);
        }
    }
}


/// "the remote dominates": nothing is sent when `remote >= local` pointwise -- PROVIDED `local` does not list, at clock 0,
/// a client that `remote` does not list at all (see `lemma_diff_zero_entry_is_sent`)
pub open spec fn no_unmatched_zero(local: Map<ClientID, u32>, remote: Map<ClientID, u32>) -> bool {
    forall|c: ClientID| local.contains_key(c) && local[c] == 0 ==> remote.contains_key(c)
}

pub proof fn lemma_diff_empty_when_dominated(local: Map<ClientID, u32>, remote: Map<ClientID, u32>)
    requires
        sv_le(local, remote),
        no_unmatched_zero(local, remote),
    ensures
        forall|c: ClientID| local.contains_key(c) ==> remote.contains_key(c) && local[c] <= remote[c],
{
    assert forall|c: ClientID| local.contains_key(c) implies remote.contains_key(c) && local[c] <= remote[c] by {
        assert(sv_get(local, c) <= sv_get(remote, c));
    }
}

/// OBSERVATION (reported): explicit zero entries are not neutral for the diff.  `local = {c: 0}`, `remote = {}` are equal as
/// state vectors (`sv_equiv`, and `partial_cmp` returns `Some(Equal)`), yet the diff -- as specified by `diff_has` and as
/// computed by `diff_state_vectors` -- contains `(c, 0)`.  So "empty whenever the remote dominates pointwise" is false
/// without `no_unmatched_zero`, for the specified diff itself (no implementation can satisfy both clauses).
pub proof fn lemma_diff_zero_entry_is_sent(c: ClientID)
    ensures
        ({
            let local = sv_single(c, 0);
            let remote = Map::<ClientID, u32>::empty();
            sv_equiv(local, remote) && sv_le(local, remote) && sv_cmp(local, remote) == Some(Ordering::Equal) && local != remote
                && diff_has(local, remote, c, 0)
        }),
{
    let local = sv_single(c, 0);
    let remote = Map::<ClientID, u32>::empty();
    assert(local.contains_key(c));
    assert(!remote.contains_key(c));
    assert forall|x: ClientID| sv_get(local, x) == sv_get(remote, x) by {}
    assert(sv_le(local, remote) && sv_le(remote, local));
}

// ---- set_min: "absent" is NOT 0 here (the doc comment: if the vector has no value for the client, `clock` is used)
pub open spec fn set_min_spec(m: Map<ClientID, u32>, c: ClientID, k: u32) -> Map<ClientID, u32> {
    m.insert(c, if m.contains_key(c) { min_u32(m[c], k) } else { k })
}

/// R17/R18 stand-in for `std::collections::hash_map::VacantEntry<ClientID, u32>`: `insert` makes the value the
/// client's clock (trusted map contract)
pub struct VacantSlot { pub v: Option<u32> }

impl VacantSlot {
    pub fn insert(&mut self, v: u32)
        requires
            old(self).v.is_none(),
        ensures
            final(self).v == Some(v),
    {
        self.v = Some(v);
    }
}

/// the state of the entry of client `c` as the `match self.0.entry(c)` dispatch sees it
pub open spec fn slot_of(m: Map<ClientID, u32>, c: ClientID) -> Option<u32> {
    if m.contains_key(c) { Some(m[c]) } else { None }
}

/// TRUSTED SHAPE of the dispatch: the Occupied arm runs on `&mut m[c]` iff `c` is a key, the Vacant arm otherwise, and
/// the entry API writes the arm's result back under key `c` only.  Given that, the two verified arms compute `set_min_spec`.
pub proof fn lemma_set_min_dispatch(m: Map<ClientID, u32>, c: ClientID, k: u32, occ_out: u32, vac_out: Option<u32>)
    requires
        m.contains_key(c) ==> occ_out == min_u32(m[c], k),      // post of sv_set_min_occupied on value = m[c]
        !m.contains_key(c) ==> vac_out == Some(k),              // post of sv_set_min_vacant on an empty slot
    ensures
        m.contains_key(c) ==> m.insert(c, occ_out) == set_min_spec(m, c, k),
        !m.contains_key(c) ==> m.insert(c, vac_out.unwrap()) == set_min_spec(m, c, k),
        // set_min never raises a listed clock, never touches another client
        forall|x: ClientID| x != c ==> sv_get(set_min_spec(m, c, k), x) == sv_get(m, x) && (set_min_spec(m, c, k).contains_key(x) <==> m.contains_key(x)),
        set_min_spec(m, c, k).contains_key(c),
        set_min_spec(m, c, k)[c] <= k,
        m.contains_key(c) ==> set_min_spec(m, c, k)[c] <= m[c],
{
}

impl StateVector {
    /*@extract yrs/src/state_vector.rs | impl StateVector | fn is_empty
    @ret r
    @sig
        ensures
            r == (self@.len() == 0),
            r ==> forall|c: ClientID| sv_get(self@, c) == 0,
    @*/

    /*@extract yrs/src/state_vector.rs | impl StateVector | fn len
    @ret r
    @sig
        ensures
            r == self@.len(),
    @*/

    /*@extract yrs/src/state_vector.rs | impl StateVector | fn new
    @ret r
    @sig
        ensures
            r@ == map@,
    @*/

    /*@extract yrs/src/state_vector.rs | impl StateVector | fn get
    @ret r
    @sig
        ensures
            r == sv_get(self@, *client_id),
    @*/

    /*@extract yrs/src/state_vector.rs | impl StateVector | fn contains
    @ret r
    @sig
        ensures
            r <==> id.clock <= sv_get(self@, id.client),
    @*/

    /*@extract yrs/src/state_vector.rs | impl StateVector | fn contains_client
    @ret r
    @sig
        ensures
            r <==> self@.contains_key(*client_id),
    @*/

    // DOMAIN RESTRICTION: `*e + delta` is unchecked u32 addition; the weakest precondition is that the sum fits.
    /*@extract yrs/src/state_vector.rs | impl StateVector | fn inc_by
    @sig
        requires
            sv_get(old(self)@, client) + delta <= u32::MAX,
        ensures
            forall|x: ClientID| sv_get(final(self)@, x) == (if x == client { sv_get(old(self)@, client) + delta } else { sv_get(old(self)@, x) as int }),
            delta > 0 ==> final(self)@ == old(self)@.insert(client, (sv_get(old(self)@, client) + delta) as u32),
            delta == 0 ==> final(self)@ == old(self)@,
    @*/

    /*@extract yrs/src/state_vector.rs | impl StateVector | fn set_max
    @sig
        ensures
            // pointwise join with the single entry (client, clock)
            forall|x: ClientID| sv_get(final(self)@, x) == (if x == client { max_u32(sv_get(old(self)@, client), clock) } else { sv_get(old(self)@, x) }),
            final(self)@ == old(self)@.insert(client, max_u32(sv_get(old(self)@, client), clock)),
            final(self)@ == sv_join(old(self)@, sv_single(client, clock)),
    @end
        proof { lemma_set_max_is_join(old(self)@, client, clock); }
    @*/

    // the iterator enumerates the map (needed by the loops of partial_cmp / diff_state_vectors)
    /*@extract yrs/src/state_vector.rs | impl StateVector | fn iter
    @ret r
    @sig
        ensures
            iter_of(r.remaining(), self@),
            r.obeys_prophetic_iter_laws(),
            r.decrease() is Some,
    @*/

    // `for (client, clock) in other.0` iterated by reference (see the header comment)
    /*@extract yrs/src/state_vector.rs | impl StateVector | fn merge | rules=SUB(from=for (client, clock) in other.0 {;;to=for (client, clock) in other.0.iter() { let client: ClientID = *client; let clock: u32 = *clock;)
    @sig
        ensures
            final(self)@ == sv_join(old(self)@, other@),
            forall|x: ClientID| sv_get(final(self)@, x) == max_u32(sv_get(old(self)@, x), sv_get(other@, x)),
    @before 1 `stmt:for`
        let ghost mut vx_seen = ISet::<ClientID>::empty();
    @loop 1 iter=it
        invariant
            iter_of(it.snapshot@.remaining(), other@),
            0 <= it.index@ <= it.snapshot@.remaining().len(),
            vx_seen =~= keys_upto(it.snapshot@.remaining(), it.index@),
            merge_inv(self@, old(self)@, other@, vx_seen),
    @before 1 `stmt:let e`
        proof {
            lemma_keys_upto_step(it.snapshot@.remaining(), other@, it.index@);
            let cur = self@;
            let seen = vx_seen;
            // whatever the two statements below do: if they store the maximum under `client`, the invariant is kept
            assert forall|nxt: Map<ClientID, u32>| nxt == cur.insert(client, max_u32(sv_get(cur, client), clock))
                implies #[trigger] merge_inv(nxt, old(self)@, other@, seen.insert(client)) by {
                lemma_merge_step(cur, old(self)@, other@, seen, client, clock, nxt);
            }
            vx_seen = vx_seen.insert(client);
        }
    @end
        proof { lemma_merge_done(self@, old(self)@, other@, vx_seen); }
    @*/

    // `impl PartialOrd for StateVector`, emitted as an inherent method (body unchanged)
    /*@extract yrs/src/state_vector.rs | impl PartialOrd for StateVector | fn partial_cmp
    @ret r
    @sig
        ensures
            r == sv_cmp(self@, other@),
            r == Some(Ordering::Equal) <==> sv_equiv(self@, other@),
            r == Some(Ordering::Less) <==> sv_le(self@, other@) && !sv_equiv(self@, other@),
            r == Some(Ordering::Greater) <==> sv_le(other@, self@) && !sv_equiv(self@, other@),
            r.is_none() <==> !sv_le(self@, other@) && !sv_le(other@, self@),
    @start
        proof { lemma_cmp_meaning(self@, other@); }
        let ghost mut vx_seen = ISet::<ClientID>::empty();
    @loop 1 iter=it
        invariant
            iter_of(it.snapshot@.remaining(), self@),
            0 <= it.index@ <= it.snapshot@.remaining().len(),
            vx_seen =~= keys_upto(it.snapshot@.remaining(), it.index@),
            cmp_inv(self@, other@, vx_seen, result),
    @before 1 `stmt:match`
        proof {
            lemma_keys_upto_step(it.snapshot@.remaining(), self@, it.index@);
            lemma_cmp_step(self@, other@, vx_seen, result, *client);
            vx_seen = vx_seen.insert(*client);
        }
    @loop 2 iter=it
        invariant
            iter_of(it.snapshot@.remaining(), other@),
            0 <= it.index@ <= it.snapshot@.remaining().len(),
            forall|c: ClientID| self@.contains_key(c) || keys_upto(it.snapshot@.remaining(), it.index@).contains(c) ==> vx_seen.contains(c),
            cmp_inv(self@, other@, vx_seen, result),
    @before 2 `stmt:match`
        proof {
            lemma_keys_upto_step(it.snapshot@.remaining(), other@, it.index@);
            lemma_cmp_step(self@, other@, vx_seen, result, *other_client);
            vx_seen = vx_seen.insert(*other_client);
        }
    @before 1 `stmt:expr result`
        proof { lemma_cmp_done(self@, other@, vx_seen, result); }
    @*/
}

// ---- set_min: the two arms of `match self.0.entry(client)`
/*@extract yrs/src/state_vector.rs | impl StateVector | region set_min | arm=Entry::Occupied(e) => | label=set_min_occupied
@header
    fn sv_set_min_occupied(value: &mut u32, clock: u32)
@drop `let value = e.into_mut();`
@sig
    ensures
        *final(value) == min_u32(*old(value), clock),
@*/

/*@extract yrs/src/state_vector.rs | impl StateVector | region set_min | arm=Entry::Vacant(e) => | label=set_min_vacant
@header
    fn sv_set_min_vacant(e: &mut VacantSlot, clock: u32)
@sig
    requires
        old(e).v.is_none(),
    ensures
        final(e).v == Some(clock),
@*/

// ---- Store::diff_state_vectors (an associated fn without `self`: emitted at top level)
/*@extract yrs/src/store.rs | impl Store | fn diff_state_vectors | rules=SUB(from=for (client, &remote_clock) in remote_sv.iter() {;;to=for (client, vx_rc) in remote_sv.iter() { let remote_clock: u32 = *vx_rc;)
@ret r
@sig
    ensures
        // exactly the diff ...
        forall|c: ClientID, k: u32| #[trigger] r@.contains((c, k)) <==> diff_has(local_sv@, remote_sv@, c, k),
        // ... no client twice ...
        forall|i: int, j: int| 0 <= i < j < r@.len() ==> (#[trigger] r@[i]).0 != (#[trigger] r@[j]).0,
        // ... and nothing is sent iff the remote lists every client `local` lists, with a clock that is not behind
        // (in particular: an update encoded against the receiver's own state vector, `remote_sv@ == local_sv@`, is empty)
        r@.len() == 0 <==> (forall|c: ClientID| local_sv@.contains_key(c) ==> remote_sv@.contains_key(c) && local_sv@[c] <= remote_sv@[c]),
        remote_sv@ == local_sv@ ==> r@.len() == 0,
        // ... hence also whenever the remote dominates pointwise (modulo explicit zero entries, see no_unmatched_zero)
        sv_le(local_sv@, remote_sv@) && no_unmatched_zero(local_sv@, remote_sv@) ==> r@.len() == 0,
@after 1 `stmt:let diff`
    let ghost mut vx_s1 = ISet::<ClientID>::empty();
    let ghost mut vx_s2 = ISet::<ClientID>::empty();
    proof {
        lemma_diff_init(local_sv@, remote_sv@);
        assert(diff@ =~= Seq::<(ClientID, u32)>::empty());
    }
@loop 1 iter=it
    invariant
        iter_of(it.snapshot@.remaining(), remote_sv@),
        0 <= it.index@ <= it.snapshot@.remaining().len(),
        vx_s1 =~= keys_upto(it.snapshot@.remaining(), it.index@),
        vx_s2 =~= ISet::<ClientID>::empty(),
        diff_inv(diff@, local_sv@, remote_sv@, vx_s1, vx_s2),
@before 1 `stmt:if`
    let ghost vx_d = diff@;
@after 1 `stmt:if`
    proof {
        lemma_keys_upto_step(it.snapshot@.remaining(), remote_sv@, it.index@);
        if diff@ == vx_d {
            if !(sv_get(local_sv@, *client) > remote_sv@[*client]) {
                lemma_diff_skip(vx_d, local_sv@, remote_sv@, vx_s1, vx_s2, *client, true);
            }
        } else {
            if diff@ == vx_d.push((*client, remote_sv@[*client])) && diff_has(local_sv@, remote_sv@, *client, remote_sv@[*client]) {
                lemma_diff_push(vx_d, local_sv@, remote_sv@, vx_s1, vx_s2, *client, remote_sv@[*client], true);
            }
        }
        vx_s1 = vx_s1.insert(*client);
    }
@loop 2 iter=it
    invariant
        iter_of(it.snapshot@.remaining(), local_sv@),
        0 <= it.index@ <= it.snapshot@.remaining().len(),
        forall|c: ClientID| remote_sv@.contains_key(c) ==> vx_s1.contains(c),
        vx_s2 =~= keys_upto(it.snapshot@.remaining(), it.index@),
        diff_inv(diff@, local_sv@, remote_sv@, vx_s1, vx_s2),
@before 2 `stmt:if`
    let ghost vx_d = diff@;
@after 2 `stmt:if`
    proof {
        lemma_keys_upto_step(it.snapshot@.remaining(), local_sv@, it.index@);
        if diff@ == vx_d {
            if remote_sv@.contains_key(*client) {
                lemma_diff_skip(vx_d, local_sv@, remote_sv@, vx_s1, vx_s2, *client, false);
            }
        } else {
            if diff@ == vx_d.push((*client, 0u32)) && diff_has(local_sv@, remote_sv@, *client, 0u32) {
                lemma_diff_push(vx_d, local_sv@, remote_sv@, vx_s1, vx_s2, *client, 0u32, false);
            }
        }
        vx_s2 = vx_s2.insert(*client);
    }
@before 1 `stmt:expr diff`
    proof {
        lemma_diff_done(diff@, local_sv@, remote_sv@, vx_s1, vx_s2);
        if sv_le(local_sv@, remote_sv@) && no_unmatched_zero(local_sv@, remote_sv@) {
            lemma_diff_empty_when_dominated(local_sv@, remote_sv@);
        }
    }
@*/

// ---- Snapshot::is_visible (C13).  `IdSet` is opaque: any type with a `contains(&ID) -> bool` whose meaning is `spec_contains`
pub trait IdSetApi {
    spec fn spec_contains(&self, id: ID) -> bool;

    fn contains(&self, id: &ID) -> (r: bool)
        ensures
            r == self.spec_contains(*id),
    ;

    /// `IdSet::is_empty` (abstract; provided so that code consulting it type-checks)
    fn is_empty(&self) -> (r: bool)
        ensures
            r ==> forall|id: ID| !self.spec_contains(id),
    ;

    /// `Encode::encode`: no contract (may write anything to the encoder)
    fn encode<E: Encoder>(&self, encoder: &mut E);
}

/// the encoder is an opaque value that the callees may change arbitrarily
pub trait Encoder {}

/*@extract yrs/src/state_vector.rs | - | struct Snapshot | rules=SUB(from=pub struct Snapshot {;;to=pub struct Snapshot<IdSet: IdSetApi> {) @*/

impl<IdSet: IdSetApi> Snapshot<IdSet> {
    /*@extract yrs/src/state_vector.rs | impl Snapshot | fn is_visible
    @ret r
    @sig
        ensures
            r <==> id.clock < sv_get(self.state_map@, id.client) && !self.delete_set.spec_contains(*id),
    @*/
}

// ---- the GC guard of Store::encode_state_from_snapshot (C13: on a document with GC enabled the request is refused and
// nothing is written).  The whole function is ingested; `Store` is reduced to the one field the guard reads,
// `write_blocks_to` / `IdSet::encode` are stand-ins with the weakest contract (anything may happen to the encoder).
/// stand-in for `crate::error::Error` (the payloads of the other variants are irrelevant here)
pub enum Error { ReadError(u64), UpdateError(u64), Gc }

pub struct Store { pub skip_gc: bool }

impl Store {
    /// stand-in for `Store::write_blocks_to`: no contract
    pub fn write_blocks_to<E: Encoder>(&self, sv: &StateVector, encoder: &mut E) {
    }

    /*@extract yrs/src/store.rs | impl Store | fn encode_state_from_snapshot | rules=SUB(from=<E: Encoder>;;to=<E: Encoder, IdSet: IdSetApi>) SUB(from=snapshot: &Snapshot,;;to=snapshot: &Snapshot<IdSet>,)
    @ret r
    @sig
        ensures
            !self.skip_gc ==> r == Err::<(), Error>(Error::Gc) && *final(encoder) == *old(encoder),
            self.skip_gc ==> r is Ok,
    @*/
}

} // verus!
fn main() {}
