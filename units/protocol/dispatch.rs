// units/protocol/dispatch.rs — the default methods of `trait Protocol` over an abstract peer

pub mod vx_dispatch {
    use vstd::prelude::*;
    use vstd::std_specs::control_flow::spec_from;
    use super::*;

    /// lib0's `read::Error` (named `Error` at the top level of this file; here `Error` is the protocol's error type)
    pub type ReadError = super::Error;

    /// `yrs::error::UpdateError`: payload stand-in (never inspected by the dispatch code)
    pub struct UpdateError {
        pub vx_code: u64,
    }

    /// `yrs::sync::awareness::Error`: payload stand-in
    pub mod awareness {
        pub struct Error {
            pub vx_code: u64,
        }
    }

    /// `std::io::Error`, `Box<dyn std::error::Error + Send + Sync>`: payload stand-ins (never constructed here)
    pub struct IoErrorStandIn;

    pub struct OtherErrorStandIn;

    /// `yrs::sync::protocol::Error`: sliced stand-in with the same variants (as `read::Error` in units/lib0_common/base.rs: the real
    /// enum carries thiserror attributes `#[error(..)]` / `#[from]` on its variants, which Verus cannot take)
    pub enum Error {
        DecodingError(ReadError),
        AwarenessEncoding(awareness::Error),
        PermissionDenied { reason: String },
        Unsupported(u8),
        IO(IoErrorStandIn),
        Update(UpdateError),
        Other(OtherErrorStandIn),
    }

    // ---- what thiserror's `#[from]` generates for the three conversions the dispatch code performs with `?`
    impl vstd::std_specs::convert::FromSpecImpl<ReadError> for Error {
        open spec fn obeys_from_spec() -> bool {
            true
        }

        open spec fn from_spec(e: ReadError) -> Error {
            Error::DecodingError(e)
        }
    }

    impl From<ReadError> for Error {
        fn from(e: ReadError) -> (r: Error) {
            Error::DecodingError(e)
        }
    }

    impl vstd::std_specs::convert::FromSpecImpl<awareness::Error> for Error {
        open spec fn obeys_from_spec() -> bool {
            true
        }

        open spec fn from_spec(e: awareness::Error) -> Error {
            Error::AwarenessEncoding(e)
        }
    }

    impl From<awareness::Error> for Error {
        fn from(e: awareness::Error) -> (r: Error) {
            Error::AwarenessEncoding(e)
        }
    }

    impl vstd::std_specs::convert::FromSpecImpl<UpdateError> for Error {
        open spec fn obeys_from_spec() -> bool {
            true
        }

        open spec fn from_spec(e: UpdateError) -> Error {
            Error::Update(e)
        }
    }

    impl From<UpdateError> for Error {
        fn from(e: UpdateError) -> (r: Error) {
            Error::Update(e)
        }
    }

    /// `yrs::Update`: opaque
    #[verifier::external_body]
    pub struct Update {
        opaque: (),
    }

    /// what `Update::decode_v1` computes on ANY byte string (None = Err): uninterpreted, i.e. only "a function of the bytes"
    pub uninterp spec fn upd_dec(b: Seq<u8>) -> Option<Update>;

    impl Update {
        /// TRUSTED stand-in for `<Update as Decode>::decode_v1` (its kernels: units upd_dec / dec_comp / content_codec, C10)
        #[verifier::external_body]
        pub fn decode_v1(data: &[u8]) -> (r: Result<Update, ReadError>)
            ensures
                match upd_dec(data@) {
                    Some(u) => r is Ok && r->Ok_0 == u,
                    None => r is Err,
                },
        {
            unimplemented!()
        }
    }

    /// the value of `StateVector::default()` (the empty state vector): uninterpreted
    pub uninterp spec fn sv_default() -> StateVector;

    /// TRUSTED stand-in for the derived `Default` of StateVector.  Not used by the real bodies: it only lets the canary
    /// `start_empty_state_vector` type-check, so that it is rejected by `start`'s contract and not by the compiler.
    impl Default for StateVector {
        #[verifier::external_body]
        fn default() -> (r: StateVector)
            ensures
                r == sv_default(),
        {
            unimplemented!()
        }
    }

    /// the ABSTRACT peer (`Awareness` with its `Doc`): bodiless methods, ghost state.  Nothing is assumed about an implementation.
    pub trait AwDoc: Sized {
        /// document: the state vector `doc().transact().state_vector()` returns
        spec fn sv(&self) -> StateVector;

        /// document: the bytes `doc().transact().encode_state_as_update_v1(&sv)` returns
        spec fn diff(&self, sv: StateVector) -> Seq<u8>;

        /// document: the updates handed to `TransactionMut::apply_update` so far (one entry per call, in order)
        spec fn applied(&self) -> Seq<Update>;

        /// document: the result `apply_update(u)` has in this state
        spec fn apply_res(&self, u: Update) -> Result<(), UpdateError>;

        /// awareness: the result of `Awareness::update()` in this state
        spec fn aw_update(&self) -> Result<AwarenessUpdate, awareness::Error>;

        /// awareness: the updates handed to `Awareness::apply_update` so far (one entry per call, in order)
        spec fn aw_applied(&self) -> Seq<AwarenessUpdate>;

        /// awareness: the result `apply_update(u)` has in this state
        spec fn aw_apply_res(&self, u: AwarenessUpdate) -> Result<(), awareness::Error>;

        /// `awareness.doc().transact().state_vector()`
        fn vx_state_vector(&self) -> (r: StateVector)
            ensures
                r == self.sv(),
        ;

        /// `awareness.doc().transact().encode_state_as_update_v1(&sv)`
        fn vx_encode_diff(&self, sv: &StateVector) -> (r: Vec<u8>)
            ensures
                r@ == self.diff(*sv),
        ;

        /// `awareness.doc().transact_mut().apply_update(update)`: recorded whether or not it fails
        fn vx_apply_update(&mut self, update: Update) -> (r: Result<(), UpdateError>)
            ensures
                final(self).applied() == old(self).applied().push(update),
                final(self).aw_applied() == old(self).aw_applied(),
                r == old(self).apply_res(update),
        ;

        /// `Awareness::update` (real name)
        fn update(&self) -> (r: Result<AwarenessUpdate, awareness::Error>)
            ensures
                r == self.aw_update(),
        ;

        /// `Awareness::apply_update` (real name): recorded whether or not it fails
        fn apply_update(&mut self, update: AwarenessUpdate) -> (r: Result<(), awareness::Error>)
            ensures
                final(self).aw_applied() == old(self).aw_applied().push(update),
                final(self).applied() == old(self).applied(),
                r == old(self).aw_apply_res(update),
        ;
    }

    // ---------------------------------------------------------------------------------------------
    // the specification: one relation per handler, and the routing table
    // ---------------------------------------------------------------------------------------------
    pub open spec fn is_ok_none(r: Result<Option<Message>, Error>) -> bool {
        r is Ok && r->Ok_0 is None
    }

    pub open spec fn is_ok_some(r: Result<Option<Message>, Error>, m: MsgV) -> bool {
        r is Ok && r->Ok_0 is Some && r->Ok_0->Some_0.v() == m
    }

    /// SyncStep1(sv): reply SyncStep2(diff(doc, sv)); no state change
    pub open spec fn step1_post<A: AwDoc>(pre: A, sv: StateVector, post: A, r: Result<Option<Message>, Error>) -> bool {
        post == pre && is_ok_some(r, MsgV::Sync(SyncV::Step2(pre.diff(sv))))
    }

    /// SyncStep2 / Update (decoded): exactly ONE document apply, no reply
    pub open spec fn apply_post<A: AwDoc>(pre: A, u: Update, post: A, r: Result<Option<Message>, Error>) -> bool {
        post.applied() == pre.applied().push(u) && post.aw_applied() == pre.aw_applied() && match pre.apply_res(u) {
            Ok(_) => is_ok_none(r),
            Err(e) => r is Err && spec_from::<Error, UpdateError>(e, r->Err_0),
        }
    }

    /// SyncStep2 / Update (bytes): `Update::decode_v1` first; a decoding error is returned and nothing happens
    pub open spec fn apply_bytes_post<A: AwDoc>(pre: A, b: Seq<u8>, post: A, r: Result<Option<Message>, Error>) -> bool {
        match upd_dec(b) {
            Some(u) => apply_post(pre, u, post, r),
            None => post == pre && r is Err,
        }
    }

    pub open spec fn auth_post<A: AwDoc>(pre: A, reason: Option<Seq<char>>, post: A, r: Result<Option<Message>, Error>) -> bool {
        post == pre && match reason {
            None => is_ok_none(r),
            Some(s) => r is Err && r->Err_0 is PermissionDenied && r->Err_0->reason@ == s,
        }
    }

    /// AwarenessQuery: reply Awareness(own update); no state change
    pub open spec fn query_post<A: AwDoc>(pre: A, post: A, r: Result<Option<Message>, Error>) -> bool {
        post == pre && match pre.aw_update() {
            Ok(u) => is_ok_some(r, MsgV::Awareness(u)),
            Err(e) => r is Err && spec_from::<Error, awareness::Error>(e, r->Err_0),
        }
    }

    /// Awareness(u): exactly ONE awareness apply, no reply
    pub open spec fn aw_apply_post<A: AwDoc>(pre: A, u: AwarenessUpdate, post: A, r: Result<Option<Message>, Error>) -> bool {
        post.aw_applied() == pre.aw_applied().push(u) && post.applied() == pre.applied() && match pre.aw_apply_res(u) {
            Ok(_) => is_ok_none(r),
            Err(e) => r is Err && spec_from::<Error, awareness::Error>(e, r->Err_0),
        }
    }

    pub open spec fn missing_post<A: AwDoc>(pre: A, tag: u8, post: A, r: Result<Option<Message>, Error>) -> bool {
        post == pre && r is Err && r->Err_0 is Unsupported && r->Err_0->Unsupported_0 == tag
    }

    /// THE ROUTING TABLE of `handle_message`
    pub open spec fn route<A: AwDoc>(pre: A, m: MsgV, post: A, r: Result<Option<Message>, Error>) -> bool {
        match m {
            MsgV::Sync(SyncV::Step1(sv)) => step1_post(pre, sv, post, r),
            MsgV::Sync(SyncV::Step2(b)) => apply_bytes_post(pre, b, post, r),
            MsgV::Sync(SyncV::Update(b)) => apply_bytes_post(pre, b, post, r),
            MsgV::Auth(reason) => auth_post(pre, reason, post, r),
            MsgV::AwarenessQuery => query_post(pre, post, r),
            MsgV::Awareness(u) => aw_apply_post(pre, u, post, r),
            MsgV::Custom(tag, data) => missing_post(pre, tag, post, r),
        }
    }

    pub open spec fn opt_str_view(o: Option<String>) -> Option<Seq<char>> {
        match o {
            Some(s) => Some(s@),
            None => None,
        }
    }

    pub trait Protocol<Awareness: AwDoc> {
        /*@extract yrs/src/sync/protocol.rs | trait Protocol | fn start
        @ret r
        @sig
            ensures
                match awareness.aw_update() {
                    Ok(u) => r is Ok && final(encoder).out() == old(encoder).out()
                        + enc_msg(MsgV::Sync(SyncV::Step1(awareness.sv()))) + enc_msg(MsgV::Awareness(u)),
                    // nothing is written when the awareness update cannot be produced
                    Err(e) => r is Err && spec_from::<Error, awareness::Error>(e, r->Err_0) && final(encoder).out() == old(encoder).out(),
                },
        @*/

        /*@extract yrs/src/sync/protocol.rs | trait Protocol | fn handle_message
        @ret r
        @sig
            ensures
                route(*old(awareness), message.v(), *final(awareness), r),
        @*/

        /*@extract yrs/src/sync/protocol.rs | trait Protocol | fn handle_sync_step1
        @ret r
        @sig
            ensures
                step1_post(*old(awareness), sv, *final(awareness), r),
        @*/

        /*@extract yrs/src/sync/protocol.rs | trait Protocol | fn handle_sync_step2
        @ret r
        @sig
            ensures
                apply_post(*old(awareness), update, *final(awareness), r),
        @*/

        /*@extract yrs/src/sync/protocol.rs | trait Protocol | fn handle_update
        @ret r
        @sig
            ensures
                apply_post(*old(awareness), update, *final(awareness), r),
        @*/

        /*@extract yrs/src/sync/protocol.rs | trait Protocol | fn handle_auth
        @ret r
        @sig
            ensures
                auth_post(*old(_awareness), opt_str_view(deny_reason), *final(_awareness), r),
                // the reason is handed over as it is (not only its text)
                deny_reason is Some ==> r->Err_0->reason == deny_reason->Some_0,
        @*/

        /*@extract yrs/src/sync/protocol.rs | trait Protocol | fn handle_awareness_query
        @ret r
        @sig
            ensures
                query_post(*old(awareness), *final(awareness), r),
        @*/

        /*@extract yrs/src/sync/protocol.rs | trait Protocol | fn handle_awareness_update
        @ret r
        @sig
            ensures
                aw_apply_post(*old(awareness), update, *final(awareness), r),
        @*/

        /*@extract yrs/src/sync/protocol.rs | trait Protocol | fn missing_handle
        @ret r
        @sig
            ensures
                missing_post(*old(_awareness), tag, *final(_awareness), r),
        @*/
    }

    // ---------------------------------------------------------------------------------------------
    // the handshake at dispatch level (pure; over the routing table `route`, i.e. over the contract of handle_message)
    // ---------------------------------------------------------------------------------------------
    /// the reply a handler result carries
    pub open spec fn reply_v(r: Result<Option<Message>, Error>) -> Option<MsgV> {
        if r is Ok && r->Ok_0 is Some {
            Some(r->Ok_0->Some_0.v())
        } else {
            None
        }
    }

    /// `me` receives, in order, the two messages `peer.start` wrote in state `peer0` (contract of `start`):
    /// SyncStep1(sv(peer0)) then Awareness(update(peer0))
    pub open spec fn recv_start<P: AwDoc, M: AwDoc>(
        peer0: P,
        me0: M,
        me1: M,
        r1: Result<Option<Message>, Error>,
        me2: M,
        r2: Result<Option<Message>, Error>,
    ) -> bool {
        route(me0, MsgV::Sync(SyncV::Step1(peer0.sv())), me1, r1) && route(me1, MsgV::Awareness(peer0.aw_update()->Ok_0), me2, r2)
    }

    /// C18 at DISPATCH level.  Both peers `start` (states a0, b0), each handles the other's two messages (a0 -> a1 -> a2,
    /// b0 -> b1 -> b2) and then the reply to its own SyncStep1 (a2 -> a3, b2 -> b3).  Then: each SyncStep1 is answered with exactly
    /// SyncStep2(diff(answering side, sv(asking side))) computed in the INITIAL states, answering changes nothing, and each side
    /// applies exactly ONE update -- the one decoded from the diff the other side computed against its state vector -- and exactly
    /// one awareness update (the peer's).  Hypothesis: the diff bytes are a decodable update (encode/decode of `Update`, C09 / C10).
    /// NOT decided here: that `a0 + diff(b0, sv(a0))` and `b0 + diff(a0, sv(b0))` are EQUAL documents (document level: C06 / C02).
    pub proof fn lemma_handshake<A: AwDoc, B: AwDoc>(
        a0: A, a1: A, a2: A, a3: A,
        b0: B, b1: B, b2: B, b3: B,
        ra1: Result<Option<Message>, Error>, ra2: Result<Option<Message>, Error>, ra3: Result<Option<Message>, Error>,
        rb1: Result<Option<Message>, Error>, rb2: Result<Option<Message>, Error>, rb3: Result<Option<Message>, Error>,
        ua: Update, ub: Update,
    )
        requires
            a0.aw_update() is Ok,
            b0.aw_update() is Ok,
            recv_start(a0, b0, b1, rb1, b2, rb2),
            recv_start(b0, a0, a1, ra1, a2, ra2),
            reply_v(rb1) is Some ==> route(a2, reply_v(rb1)->Some_0, a3, ra3),
            reply_v(ra1) is Some ==> route(b2, reply_v(ra1)->Some_0, b3, rb3),
            upd_dec(b0.diff(a0.sv())) == Some(ub),
            upd_dec(a0.diff(b0.sv())) == Some(ua),
        ensures
            // SyncStep1 is answered with SyncStep2 of the diff against the asker's state vector; answering changes nothing
            reply_v(rb1) == Some(MsgV::Sync(SyncV::Step2(b0.diff(a0.sv())))),
            reply_v(ra1) == Some(MsgV::Sync(SyncV::Step2(a0.diff(b0.sv())))),
            a1 == a0,
            b1 == b0,
            // the awareness message is applied once and not answered
            reply_v(ra2) is None,
            reply_v(rb2) is None,
            // each side has applied exactly the diff the other side computed, and the peer's awareness update; no reply
            a3.applied() == a0.applied().push(ub),
            b3.applied() == b0.applied().push(ua),
            a3.aw_applied() == a0.aw_applied().push(b0.aw_update()->Ok_0),
            b3.aw_applied() == b0.aw_applied().push(a0.aw_update()->Ok_0),
            reply_v(ra3) is None,
            reply_v(rb3) is None,
    {
    }

    /*@extract yrs/src/sync/protocol.rs | - | struct DefaultProtocol @*/

    /// real: `impl Protocol for DefaultProtocol {}` -- the default methods, for every abstract peer
    impl<Awareness: AwDoc> Protocol<Awareness> for DefaultProtocol {}
}
