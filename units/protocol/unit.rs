// unit `protocol` -- the DISPATCH of the y-sync protocol: the default methods of `trait Protocol` (yrs/src/sync/protocol.rs,
// sync flavour).  Serves C18 (dispatch level): "after the standard handshake (each side sends SyncStep1 with its state vector and
// answers the peer's SyncStep1 with SyncStep2) both documents are equal ...; every protocol message survives encode/decode".
//
// FUNCTIONS UNDER CONTRACT (whole real bodies; `Awareness` is the abstract peer `AwDoc`, see STAND-INS)
//   handle_sync_step1(aw, sv)       Ok(Some(Sync(SyncStep2(diff(aw, sv))))), the peer state is unchanged
//   handle_sync_step2(aw, update)   exactly ONE document apply of `update` (ghost log `applied()` grows by exactly that entry, awareness
//                                   log untouched); Ok(None) iff the apply succeeds, else Err = the `From` conversion of its error
//   handle_update(aw, update)       the same contract (it forwards to handle_sync_step2)
//   handle_auth(aw, reason)         None -> Ok(None); Some(reason) -> Err(PermissionDenied { reason }); state unchanged
//   handle_awareness_query(aw)      Ok(Some(Awareness(own update))) / Err if `update()` fails; state unchanged
//   handle_awareness_update(aw, u)  exactly ONE awareness apply of u (log `aw_applied()`), document log untouched; Ok(None) / Err
//   missing_handle(aw, tag, data)   Err(Unsupported(tag)); state unchanged
//   handle_message(aw, message)     THE ROUTING TABLE `route` (exact, see the spec fn): the composition of the above; SyncStep2 / Update
//                                   payloads go through `Update::decode_v1` first: a decoding error is returned with NO state change
//   start(aw, encoder)              appends exactly enc_msg(Sync(SyncStep1(sv(aw)))) ++ enc_msg(Awareness(own update)) to the encoder
//                                   (byte level: the REAL `Message::encode` / `SyncMessage::encode` bodies of unit tags are included
//                                   and verified here again); Err iff `awareness.update()` fails, and then NOTHING is written (the code
//                                   evaluates both the state vector and `update()?` BEFORE the first write)
//   lemma_handshake                 pure: A.start -> B.handle_message -> reply -> A.handle_message makes A apply exactly the update
//                                   decoded from diff(B, sv(A)) (and symmetric); that this makes the documents EQUAL is the
//                                   document-level property C06 / C02 (NOT decided here)
//
// STAND-INS / WHAT IS ASSUMED
//   Awareness        ABSTRACT: the trait's type parameter named `Awareness` (so the real signatures are kept) bounded by `AwDoc`,
//                    a trait of BODILESS methods with ghost state -- nothing is assumed about an implementation, the contracts hold for
//                    every one:  sv() / diff(sv) (document reads), applied() (log of document applies), aw_update() (the result of
//                    `Awareness::update`), aw_applied() (log of awareness applies), apply_res / aw_apply_res (whether an apply fails).
//                    `update()` and `apply_update(AwarenessUpdate)` keep their REAL names (no rewrite).  The document side is pointer code
//                    (Doc / Store / transactions) and is reached through logged SUBs whose from= is the real expression text:
//                      awareness.doc().transact().state_vector()                    -> awareness.vx_state_vector()
//                      awareness.doc().transact().encode_state_as_update_v1(&sv)    -> awareness.vx_encode_diff(&sv)
//                      let mut txn = awareness.doc().transact_mut()                 -> let txn = ()
//                      txn.apply_update(update)                                     -> awareness.vx_apply_update(update)
//                    NOT decided here: what state_vector / encode_state_as_update_v1 / apply_update compute (C06 / C02 kernels).
//   Update           opaque; `Update::decode_v1` is a TRUSTED stand-in: a deterministic function `upd_dec` of the bytes (uninterpreted).
//   UpdateError, awareness::Error, IoErrorStandIn, OtherErrorStandIn   payload stand-ins of the real `enum Error` (extracted; SUBs logged)
//   `impl From<..> for Error`  what thiserror's `#[from]` generates (written out).  Verus models the conversion `?` performs as the
//                    uninterpreted relation `spec_from(e, e')`; the contracts state a propagated error in exactly that form.
//   StateVector, AwarenessUpdate, utf8, to_vec, from_utf8   the trusted stand-ins of unit tags (copied verbatim: A-SV, A-AU, A-STR, A-STR2).
//   crate::Transact  empty marker trait (the bodies say `use crate::Transact;`).
//   handle(aw, data)                INGESTED (whole real body: DecoderV1 over the real Cursor, MessageReader holding `&mut D`, `while let`,
//                                   SmallVec -> Vec by R1) with a PARTIAL contract: the loop terminates (every decoded message consumes
//                                   >= 1 byte), the decoder stays well-formed, and on EVERY exit (Ok, decoding error, failing handler) both
//                                   logs only GREW: effects of the messages handled before an error stay applied (no rollback), nothing is
//                                   dropped or reordered.  NOT stated: "the replies are the non-None results in order" (needs a ghost trace
//                                   of the un-named result of `self.handle_message(..)?` inside the `if let`).
//   MessageReader::next             one message per call = what the spec decoder `dec_msg` of unit tags reads from the unread input
//                                   (>= 1 byte); an undecodable rest gives None (EndOfBuffer) or Some(Err)
//   DecoderV1::{new, read_u8, read_exact}   real bodies (as in unit dec_comp)
// FILES: unit.rs (environment), dispatch.rs (AwDoc, routing table, Protocol, lemma_handshake), handle.rs (reader + handle).
// EXCLUDED: the `async` twin `AsyncProtocol` (async fn / async_trait: not ingestible); its bodies are textually the same modulo
//   `.await`, except `AsyncProtocol::start`, which evaluates `awareness.update()?` BEFORE taking the state vector and RETURNS the two
//   messages instead of writing them.
#![allow(unused_imports, unused_variables, unused_mut, dead_code, unused_parens, unused_braces, unused_assignments)]
use vstd::prelude::*;
use vstd::slice::*;
use std::convert::TryInto;

verus! {

/*@rules R10 SUB(from=read::Error;;to=Error) SUB(from=buf.into();;to=buf.to_vec())
   SUB(from=awareness.doc().transact().state_vector();;to=awareness.vx_state_vector())
   SUB(from=awareness.doc().transact().encode_state_as_update_v1(&sv);;to=awareness.vx_encode_diff(&sv))
   SUB(from=let mut txn = awareness.doc().transact_mut();;to=let txn = ())
   SUB(from=txn.apply_update(update);;to=awareness.vx_apply_update(update))
@*/

/*@include units/lib0_common/base.rs @*/

/*@include units/lib0_common/spec.rs @*/

/*@include units/lib0_common/varint.rs @*/

// ---- copied verbatim from units/tags/unit.rs (the environment units/tags/proto.rs needs) ----
// ---------------------------------------------------------------------------------------------
// trusted environment of the framing code
// ---------------------------------------------------------------------------------------------
/// std `slice::to_vec`: "Copies self into a new Vec" (element-wise clone)
pub assume_specification<T: Clone>[ <[T]>::to_vec ](s: &[T]) -> (r: Vec<T>)
    ensures
        r@.len() == s@.len(),
        forall|i: int| 0 <= i < s@.len() ==> cloned(s@[i], #[trigger] r@[i]),
;

/// for bytes, an element-wise clone is a copy
pub proof fn lemma_to_vec_u8(s: Seq<u8>)
    ensures
        forall|r: Vec<u8>| (#[trigger] r@).len() == s.len() && (forall|i: int| 0 <= i < s.len() ==> cloned(s[i], #[trigger] r@[i])) ==> r@ == s,
{
    assert forall|r: Vec<u8>| (#[trigger] r@).len() == s.len() && (forall|i: int| 0 <= i < s.len() ==> cloned(s[i], #[trigger] r@[i])) implies r@ == s by {
        assert(r@ =~= s);
    }
}

pub trait Encoder: Write {}

pub trait Decoder: Read {}

#[verifier::external_body] pub struct StateVector { opaque: () }

#[verifier::external_body] pub struct AwarenessUpdate { opaque: () }

pub uninterp spec fn sv_enc(x: StateVector) -> Seq<u8>;
pub uninterp spec fn sv_dec(b: Seq<u8>) -> Option<StateVector>;
pub uninterp spec fn au_enc(x: AwarenessUpdate) -> Seq<u8>;
pub uninterp spec fn au_dec(b: Seq<u8>) -> Option<AwarenessUpdate>;

/// A-SV (ASSUMED law, an axiom spelled as an external_body proof fn so that the trust scanner lists it):
/// the ONE assumption about StateVector: decode_v1(encode_v1(x)) == Ok(x)
#[verifier::external_body] pub proof fn law_sv_round_trip(x: StateVector)
    ensures sv_dec(sv_enc(x)) == Some(x),
{
}

/// A-AU (ASSUMED law): the ONE assumption about AwarenessUpdate: decode_v1(encode_v1(x)) == Ok(x)
#[verifier::external_body] pub proof fn law_au_round_trip(x: AwarenessUpdate)
    ensures au_dec(au_enc(x)) == Some(x),
{
}

impl StateVector {
    #[verifier::external_body] pub fn encode_v1(&self) -> (r: Vec<u8>)
        ensures r@ == sv_enc(*self),
    {
        unimplemented!()
    }

    #[verifier::external_body] pub fn decode_v1(data: &[u8]) -> (r: Result<StateVector, Error>)
        ensures
            match sv_dec(data@) {
                Some(x) => r is Ok && r->Ok_0 == x,
                None => r is Err,
            },
    {
        unimplemented!()
    }
}

impl AwarenessUpdate {
    #[verifier::external_body] pub fn encode_v1(&self) -> (r: Vec<u8>)
        ensures r@ == au_enc(*self),
    {
        unimplemented!()
    }

    #[verifier::external_body] pub fn decode_v1(data: &[u8]) -> (r: Result<AwarenessUpdate, Error>)
        ensures
            match au_dec(data@) {
                Some(x) => r is Ok && r->Ok_0 == x,
                None => r is Err,
            },
    {
        unimplemented!()
    }
}

/// the UTF-8 bytes of a string / the string `std::str::from_utf8` makes of a VALID byte buffer / validity of a byte buffer
pub uninterp spec fn utf8(s: Seq<char>) -> Seq<u8>;
pub uninterp spec fn from_utf8(b: Seq<u8>) -> Seq<char>;
pub uninterp spec fn valid_utf8(b: Seq<u8>) -> bool;

/// A-STR (ASSUMED law): decoding the UTF-8 bytes of a string gives the string back
#[verifier::external_body] pub proof fn law_utf8_round_trip(s: Seq<char>)
    ensures from_utf8(utf8(s)) == s,
{
}

/// A-STR2 (ASSUMED law): the bytes of a string (what `write_string` writes: `str::as_bytes`) are valid UTF-8 (a `str` is
/// valid UTF-8 by its type invariant)
#[verifier::external_body] pub proof fn law_utf8_valid(s: Seq<char>)
    ensures valid_utf8(utf8(s)),
{
}

impl VxBytes for str {
    open spec fn bytes(&self) -> Seq<u8> {
        utf8(self@)
    }

    /// std `str::as_bytes` (trusted: names the bytes of the string)
    #[verifier::external_body] fn as_ref(&self) -> (r: &[u8]) {
        self.as_bytes()
    }
}

pub trait WriteStr: Write {
    /*@extract yrs/src/encoding/write.rs | trait Write: Sized | fn write_string
    @sig
        ensures final(self).out() == old(self).out() + enc_buf(utf8(str@)),
    @*/
}

impl<W: Write> WriteStr for W {}

/// std `core::str::Utf8Error`: opaque stand-in (never inspected: the real closure is `|_| Error::UnexpectedValue`)
pub struct Utf8ErrorStandIn;

/// TRUSTED std stand-in (A9'): `std::str::from_utf8` -- "Converts a slice of bytes to a string slice. ... Returns Err if the
/// slice is not UTF-8": Ok exactly for the valid byte strings, and then the string those bytes spell
#[verifier::external_body] pub fn vx_from_utf8(buf: &[u8]) -> (r: Result<&str, Utf8ErrorStandIn>)
    ensures
        r is Ok <==> valid_utf8(buf@),
        r is Ok ==> r->Ok_0@ == from_utf8(buf@),
{
    std::str::from_utf8(buf).map_err(|_| Utf8ErrorStandIn)
}

/// what `Read::read_string` computes on ANY byte string: a length-prefixed buffer that must be valid UTF-8.
/// None = Err (truncated / over-long length prefix, or invalid UTF-8), Some((chars, k)) = the string from the first k bytes
pub open spec fn dec_str(s: Seq<u8>) -> Option<(Seq<char>, nat)> {
    match dec_buf(s) {
        None => None,
        Some((b, k)) => if valid_utf8(b) { Some((from_utf8(b), k)) } else { None },
    }
}

pub trait ReadStr: Read {
    // the REAL body of `Read::read_string` (extension-trait position like read_buf, see units/lib0_common/base.rs SLICING)
    /*@extract yrs/src/encoding/read.rs | trait Read: Sized | fn read_string | rules=SUB(from=std::str::from_utf8(buf);;to=vx_from_utf8(buf))
    @ret res
    @sig
        requires
            old(self).wf(),
        ensures
            final(self).wf(),
            suffix_of(old(self).rest(), final(self).rest()),
            match dec_buf(old(self).rest()) {
                Some((b, k)) => k <= old(self).rest().len() && final(self).rest() == old(self).rest().skip(k as int)
                    && (valid_utf8(b) ==> res is Ok && res->Ok_0@ == from_utf8(b))
                    && (!valid_utf8(b) ==> res is Err && res->Err_0 is UnexpectedValue),
                None => res is Err,
            },
    @closure 1 `|_e: Utf8ErrorStandIn| -> (vx_e: Error)`
        ensures vx_e is UnexpectedValue,
    @*/
}

impl<R: Read> ReadStr for R {}

/*@include units/tags/proto.rs @*/

/// `yrs::Transact`: the bodies say `use crate::Transact;` (the methods it provides are behind the SUBs)
pub trait Transact {}

/*@include units/protocol/dispatch.rs @*/

/*@include units/protocol/handle.rs @*/

} // verus!
fn main() {}
