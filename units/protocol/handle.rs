// units/protocol/handle.rs — `Protocol::handle`: the loop over `MessageReader`

    /*@extract yrs/src/updates/decoder.rs | - | struct DecoderV1 | rules=SUB(from=cursor: Cursor<'a>;;to=pub cursor: Cursor<'a>) @*/

    impl<'a> DecoderV1<'a> {
        /*@extract yrs/src/updates/decoder.rs | impl<'a> DecoderV1<'a> | fn new | label=decoder_v1_new
        @ret r
        @sig
            requires
                cursor.wf(),
            ensures
                r.wf(),
                r.rest() == cursor.rest(),
        @*/
    }

    impl<'a> Read for DecoderV1<'a> {
        open spec fn rest(&self) -> Seq<u8> {
            self.cursor.rest()
        }

        open spec fn wf(&self) -> bool {
            self.cursor.wf()
        }

        /*@extract yrs/src/updates/decoder.rs | impl<'a> Read for DecoderV1<'a> | fn read_u8 | label=decoder_v1_read_u8 @*/

        /*@extract yrs/src/updates/decoder.rs | impl<'a> Read for DecoderV1<'a> | fn read_exact | label=decoder_v1_read_exact @*/
    }

    impl<'a> Decoder for DecoderV1<'a> {}

    /*@extract yrs/src/sync/protocol.rs | - | struct MessageReader | rules=SUB(from=(&'a mut D);;to=(pub &'a mut D)) @*/

    impl<'a, D: Decoder> MessageReader<'a, D> {
        /*@extract yrs/src/sync/protocol.rs | impl<'a, D: Decoder> MessageReader<'a, D> | fn new | label=reader_new
        @ret r
        @sig
            ensures
                *r.0 == *old(decoder),
        @*/

        // `Iterator::next` pulled into the inherent impl (as `Encode` / `Decode` in unit tags).  One message per call: exactly what the
        // spec decoder `dec_msg` reads from the unread input; an undecodable rest ends the iteration (EndOfBuffer -> None) or is
        // reported (Some(Err)); a decoded message consumes at least one byte
        /*@extract yrs/src/sync/protocol.rs | impl<'a, D: Decoder> Iterator for MessageReader<'a, D> | fn next | label=reader_next | rules=SUB(from=Option<Self::Item>;;to=Option<Result<Message, Error>>)
        @ret r
        @sig
            requires
                old(self).0.wf(),
            ensures
                final(self).0.wf(),
                suffix_of(old(self).0.rest(), final(self).0.rest()),
                match dec_msg(old(self).0.rest()) {
                    Some((m, k)) => r is Some && r->Some_0 is Ok && r->Some_0->Ok_0.v() == m && 1 <= k <= old(self).0.rest().len()
                        && final(self).0.rest() == old(self).0.rest().skip(k as int),
                    None => r is None || (r is Some && r->Some_0 is Err),
                },
        @start
            proof {
                <u8 as VarInt>::law_dec_bounded(self.0.rest());
            }
        @*/
    }

pub mod vx_handle {
    use vstd::prelude::*;
    use super::*;
    use super::vx_dispatch::*;
    use super::vx_dispatch::Error;

    /// `b` is `a` followed by further entries
    pub open spec fn log_extends<T>(a: Seq<T>, b: Seq<T>) -> bool {
        a.len() <= b.len() && forall|i: int| 0 <= i < a.len() ==> b[i] == a[i]
    }

    pub trait ProtocolHandle<Awareness: AwDoc>: Protocol<Awareness> {
        /*@extract yrs/src/sync/protocol.rs | trait Protocol | fn handle | rules=R1
        @ret r
        @sig
            ensures
                // effects are only ever APPENDED, on every exit: whatever was applied before a decoding error / a failing handler
                // stays applied (no rollback), nothing recorded earlier is dropped or reordered
                log_extends(old(awareness).applied(), final(awareness).applied()),
                log_extends(old(awareness).aw_applied(), final(awareness).aw_applied()),
        @loop 1
            invariant
                reader.0.wf(),
                log_extends(old(awareness).applied(), awareness.applied()),
                log_extends(old(awareness).aw_applied(), awareness.aw_applied()),
            decreases
                reader.0.rest().len(),
        @*/
    }
}
