// unit `ids_lift` — the per-client LIFTING of the interval layer.  Serves C16.
//   yrs/src/ids.rs     IdMapInner<T> (BTreeMap<ClientID, IdRanges<T>>)
//   yrs/src/id_set.rs  IdSet, <IdSet as DeleteSet>::from_store
//   yrs/src/id_map.rs  IdMap<A> wrappers, <IdSet as From<IdMap<A>>>::from
//
// ABSTRACTION   view of an IdMapInner = Map<ClientID, Seq<Ent<T>>>;  has_pt(m, client, clock) = the point is a member;
//   val(m, client, clock) = its attribute;  wf_map(m) = every per-client entry is canon AND non-empty ("no empty per-client
//   entry is ever stored": what makes is_empty(), == and the encoding agree with the mathematical set).
//   Every operation: requires wf_map of its arguments, ensures wf_map of the result + the pointwise set/map result.
//
// LEVELS  (A = whole function verified, B = lifted step verified + iteration trusted, C = not ingestible)
//   IdMapInner  A: default new is_empty len get contains entry clients clients_mut insert_range merge_with merge diff_with diff
//                  intersect_with intersect map   (+ the derived Clone, written out)
//   IdSet       A: default/new len contains is_empty get insert insert_range remove_range merge_with merge diff_with diff
//                  intersect_with intersect range_mut(*) from_store(**)
//               B: from_iter: the loop body is lifted (R18) with the `from_ranges` result as parameter; the generic
//                  `IntoIterator` iteration and IdRanges::from_ranges (generic iterator) are C
//   IdMap       A: is_empty contains remove intersect_with as_id_set; insert and merge_with: whole body lifted (R18) with the
//                  statements that only touch the `attrs` interning cache dropped (@drop)
//               A (body lifted whole, R18, attrs-cache statements dropped; value type abstracted as CA: Merge):
//                  Diff<IdSet>::diff_with, Diff<IdMap<U>>::diff_with, merge_many (point set only), from_set (wrapper iterators
//                  inlined), filter (predicate over the value: `predicate(&attrs.0)` spelled `predicate(attrs)`),
//                  attributions (find_start stub from unit ids; AttrRange stand-in, empty list = CA::default())
//   From<IdMap<A>> for IdSet::from  A (body lifted whole into a free fn: a trait-method impl cannot carry `requires`)
//   (*)  range_mut: ONE named finding obligation, see FINDING below.   (**) over stand-ins of the block layer, section 7.
//
// TRUSTED (A2), each with its std-documented contract at the declaration:
//   axiom_client_id_key_model   the ONE key-model axiom: ClientID's derived Ord is a total order (vstd: key_obeys_cmp_spec)
//   VxMapApi::vx_entry          std BTreeMap::entry.  Entry / OccupiedEntry / VacantEntry are stand-in types over a mutable
//                               optional SLOT of the map; get_mut, into_mut, remove, insert, or_default are VERIFIED against it
//   VxMapApi::vx_retain         std BTreeMap::retain (the closure is the real one, annotated with @closure)
//   vstd's own specifications of BTreeMap::{new, len, is_empty, get, insert, clone, iter} and Vec::{iter, len, clone}
//   stubs of the IdRanges<T> callees proved in units ids / ids_insert / ids_merge / ids_xi (contract text cross-checked)
//   derived impls written out by hand and verified: Clone for IdRanges / IdMapInner, Default for IdSet
//
// REWRITES  R1 R2 R3 R4 R5 R6 R9 R10 (for the stub bodies, as in the proving units; R6 is skipped on functions that iterate a
//   map), SUB `.entry(k)` -> `.vx_entry(k)`, `.retain` -> `.vx_retain`, `in &other.0` -> `in other.0.iter()` (std: IntoIterator
//   for &BTreeMap is iter()), type spelling of btree_map::Entry, INLINE of IdRanges::iter / BlockStore::iter /
//   ClientBlockList::iter (accessor bodies checked), R18 regions as listed, `(&client, blocks)` -> `(client, blocks)` + `*client`.
//
// FINDING (kept as ONE named obligation, expected to fail): ids_lift::idset_range_mut::post :: no_empty_entry
//   IdSet::range_mut(c) creates the entry before the caller inserts anything and hands out `&mut IdRange`: an empty
//   per-client entry stays behind if the caller inserts nothing.  Input: `IdSet::new().range_mut(ClientID(1));` => is_empty()
//   is false for a set without points and `!= IdSet::new()`.
// OBSERVATION F-L6 (degenerate input, NOT an obligation any more): ids_lift::idmap_attributions :: no_empty_piece
//   IdMap::attributions(&BlockRange{client, clock: c, len: 0}) returns ONE piece with the empty range c..c; for len > 0 the
//   clause is proved (`range.len > 0 ==> no_empty_piece(res@)`).
//   Repaired in /repo meanwhile (their clauses are ordinary ensures now): IdMapInner::insert_range with an empty range,
//   IdSet::insert(id, 0), IdSet::insert_range(c, empty), IdSet::from_iter (empty item; duplicate client replaced instead of merged).
//
// Function bodies are pulled from /repo on every run by vx/extract.py.
#![allow(unused_imports, unused_variables, unused_mut, dead_code, unused_parens, unused_braces)]
use vstd::prelude::*;

verus! {

/*@rules R1 R2(elem=(Range<u32>, T)) R3 R4 R5 R6 R9 R10
   SUB(from=std::collections::btree_map::Entry<'_, ClientID, IdRanges<T>>;;to=Entry<'_, IdRanges<T>>)
   SUB(from=std::collections::btree_map::Entry::;;to=Entry::)
@*/

pub mod vx_base {
    use vstd::prelude::*;
    use core::ops::Range;
    use vstd::std_specs::cmp::PartialEqSpec;

/*@include units/ids_common/base.rs @*/
}

pub mod vx_ids {
    use vstd::prelude::*;
    use core::ops::Range;
    use vstd::std_specs::cmp::PartialEqSpec;
    use std::collections::BTreeMap;
    use vstd::std_specs::btree::*;
    use super::vx_base::*;

    broadcast use vx_clone_axioms;

/*@include units/ids_common/spec.rs @*/

    // ==========================================================================================
    // 1. stubs of the already proved IdRanges<T> callees (contract only; body not re-verified here)
    // ==========================================================================================
    impl<T> Default for IdRanges<T> {
        /*@extract yrs/src/ids.rs | impl<T> Default for IdRanges<T> | fn default
        @ret r
        @sig
            ensures r@ == Seq::<Ent<T>>::empty(),
        @*/
    }

    impl<T: Merge> IdRanges<T> {
        /*@extract yrs/src/ids.rs | impl<T: Merge> IdRanges<T> | fn new
        @ret r
        @sig
            ensures r@ == Seq::<Ent<T>>::empty(),
        @*/

        /*@extract yrs/src/ids.rs | impl<T: Merge> IdRanges<T> | fn with_capacity
        @ret r
        @sig
            ensures r@ == Seq::<Ent<T>>::empty(),
        @*/

        // proved in unit ids
        #[verifier::external_body]
        /*@extract yrs/src/ids.rs | impl<T: Merge> IdRanges<T> | fn len
        @ret r
        @sig
            ensures r == self@.len(),
        @*/

        // proved in unit ids
        #[verifier::external_body]
        /*@extract yrs/src/ids.rs | impl<T: Merge> IdRanges<T> | fn is_empty
        @ret r
        @sig
            ensures r == (self@.len() == 0),
        @*/

        // proved in unit ids
        #[verifier::external_body]
        /*@extract yrs/src/ids.rs | impl<T: Merge> IdRanges<T> | fn contains_clock
        @ret r
        @sig
            requires canon(self@),
            ensures r == covers(self@, clock as int),
        @*/

        // proved in unit ids
        #[verifier::external_body]
        /*@extract yrs/src/ids.rs | impl<T: Merge> IdRanges<T> | fn remove
        @sig
            requires canon(old(self)@),
            ensures
                canon(final(self)@),
                forall|c: int| covers(final(self)@, c) <==> covers(old(self)@, c) && !inr(range, c),
                forall|c: int| covers(final(self)@, c) ==> val_at(final(self)@, c) == val_at(old(self)@, c),
        @*/

        // proved in unit ids_insert
        #[verifier::external_body]
        /*@extract yrs/src/ids.rs | impl<T: Merge> IdRanges<T> | fn insert_with
        @sig
            requires canon(old(self)@), value.wf(),
            ensures
                canon(final(self)@),
                forall|c: int| #![trigger covers(final(self)@, c)] #![trigger covers(old(self)@, c)] #![trigger inr(range, c)] covers(final(self)@, c) <==> covers(old(self)@, c) || inr(range, c),
                forall|c: int| covers(old(self)@, c) && !inr(range, c) ==> #[trigger] val_at(final(self)@, c).eq_spec(&val_at(old(self)@, c)),
                forall|c: int| !covers(old(self)@, c) && inr(range, c) ==> #[trigger] val_at(final(self)@, c).eq_spec(&value),
                forall|c: int| covers(old(self)@, c) && inr(range, c) ==> #[trigger] val_at(final(self)@, c).eq_spec(&val_at(old(self)@, c).merge_spec(&value)),
        @*/

        // proved in unit ids_merge
        #[verifier::external_body]
        /*@extract yrs/src/ids.rs | impl<T: Merge> IdRanges<T> | fn merge
        @sig
            requires canon(old(self)@), canon(other@),
            ensures
                canon(final(self)@),
                forall|c: int| covers(final(self)@, c) <==> covers(old(self)@, c) || covers(other@, c),
                forall|c: int| covers(old(self)@, c) && !covers(other@, c) ==> #[trigger] val_at(final(self)@, c).eq_spec(&val_at(old(self)@, c)),
                forall|c: int| !covers(old(self)@, c) && covers(other@, c) ==> #[trigger] val_at(final(self)@, c).eq_spec(&val_at(other@, c)),
                forall|c: int| covers(old(self)@, c) && covers(other@, c) ==> #[trigger] val_at(final(self)@, c).eq_spec(&val_at(old(self)@, c).merge_spec(&val_at(other@, c))),
        @*/

        // proved in unit ids_xi
        #[verifier::external_body]
        /*@extract yrs/src/ids.rs | impl<T: Merge> IdRanges<T> | fn exclude
        @sig
            requires canon(old(self)@), ranges_ok(other@),
            ensures
                canon(final(self)@),
                forall|c: int| covers(final(self)@, c) <==> covers(old(self)@, c) && !covers(other@, c),
                forall|c: int| covers(final(self)@, c) ==> val_at(final(self)@, c) == val_at(old(self)@, c),
        @*/

        // proved in unit ids_xi
        #[verifier::external_body]
        /*@extract yrs/src/ids.rs | impl<T: Merge> IdRanges<T> | fn intersect
        @sig
            requires canon(old(self)@), canon(other@),
            ensures
                canon(final(self)@),
                forall|c: int| covers(final(self)@, c) <==> covers(old(self)@, c) && covers(other@, c),
                forall|c: int| covers(final(self)@, c) ==> #[trigger] val_at(final(self)@, c).eq_spec(&val_at(old(self)@, c).merge_spec(&val_at(other@, c))),
        @*/
    }

    impl IdRanges<()> {
        // proved in unit ids_insert
        #[verifier::external_body]
        /*@extract yrs/src/ids.rs | impl IdRanges<()> | fn insert
        @sig
            requires canon(old(self)@),
            ensures
                canon(final(self)@),
                forall|c: int| #![trigger covers(final(self)@, c)] #![trigger covers(old(self)@, c)] #![trigger inr(range, c)] covers(final(self)@, c) <==> covers(old(self)@, c) || inr(range, c),
        @*/
    }

    /// `#[derive(Clone)]` of IdRanges<T>, written out (the derive clones the SmallVec, i.e. every entry; A3 makes the
    /// copy structurally equal).  Verified against vstd's Vec::clone.
    impl<T: Merge> Clone for IdRanges<T> {
        fn clone(&self) -> (r: Self)
            ensures r@ == self@,
        {
            let v = self.0.clone();
            proof { assert(v@ =~= self.0@); }
            IdRanges(v)
        }
    }

    // ==========================================================================================
    // 2. stand-ins: client id, ID, BlockRange, and the std BTreeMap entry API
    // ==========================================================================================
    /// R13: the client id is an opaque ordered key (the real one is a NonZeroU64 newtype with derived Ord)
    #[derive(PartialEq, Eq, PartialOrd, Ord, Clone, Copy)]
    pub struct ClientID(pub u64);

    /// the ONE key-model axiom: derived `Ord` on ClientID is a total order consistent with `==`
    /// (what vstd's BTreeMap specifications are conditioned on)
    pub axiom fn axiom_client_id_key_model()
        ensures key_obeys_cmp_spec::<ClientID>();

    /*@extract yrs/src/block.rs | - | struct ID @*/

    /*@extract yrs/src/block.rs | - | struct BlockRange @*/

    impl BlockRange {
        /*@extract yrs/src/block.rs | impl BlockRange | fn clock_range
        @ret r
        @sig
            // domain restriction (wf of a BlockRange: it describes clocks of blocks that exist, so the end fits in u32)
            requires self.clock + self.len <= u32::MAX,
            ensures r.start == self.clock, r.end == self.clock + self.len,
        @*/
    }

    // ---- std::collections::btree_map::{Entry, OccupiedEntry, VacantEntry} (A2, R17 stand-in) ----------------------
    // Model: the entry for key `k` is a mutable optional SLOT of the map.  The only trusted function is `vx_entry`
    // (std: "Gets the given key's corresponding entry in the map for in-place manipulation"); the methods below are
    // verified against the slot model and mirror std's documentation:
    //   OccupiedEntry::get_mut   "Gets a mutable reference to the value in the entry."
    //   OccupiedEntry::into_mut  "Converts the entry into a mutable reference to its value."
    //   OccupiedEntry::remove    "Takes the value of the entry out of the map, and returns it."
    //   VacantEntry::insert      "Sets the value of the entry with the VacantEntry's key, and returns a mutable reference to it."
    //   Entry::or_default        "Ensures a value is in the entry by inserting the default value if empty, and returns a
    //                             mutable reference to the value in the entry."
    pub struct OccupiedEntry<'a, V> { pub slot: &'a mut Option<V> }

    pub struct VacantEntry<'a, V> { pub slot: &'a mut Option<V> }

    pub enum Entry<'a, V> {
        Occupied(OccupiedEntry<'a, V>),
        Vacant(VacantEntry<'a, V>),
    }

    /// the map after the borrow of key `k`'s slot ends with content `s`
    pub open spec fn slot_map<V>(m: Map<ClientID, V>, k: ClientID, s: Option<V>) -> Map<ClientID, V> {
        match s {
            Some(v) => m.insert(k, v),
            None => if m.contains_key(k) { m.remove(k) } else { m },
        }
    }

    pub open spec fn entry_of<V>(e: Entry<'_, V>, m: Map<ClientID, V>, k: ClientID) -> bool {
        if m.contains_key(k) {
            e is Occupied && *e->Occupied_0.slot == Some(m[k])
        } else {
            e is Vacant && *e->Vacant_0.slot == None::<V>
        }
    }

    #[verifier::prophetic]
    pub open spec fn entry_final<V>(e: Entry<'_, V>) -> Option<V> {
        match e {
            Entry::Occupied(o) => *final(o.slot),
            Entry::Vacant(v) => *final(v.slot),
        }
    }

    pub trait VxMapApi<V> {
        spec fn vx_view(&self) -> Map<ClientID, V>;

        /// A2 (trusted): std `BTreeMap::entry`
        fn vx_entry<'a>(&'a mut self, k: ClientID) -> (r: Entry<'a, V>)
            ensures
                entry_of(r, old(self).vx_view(), k),
                final(self).vx_view() == slot_map(old(self).vx_view(), k, entry_final(r));

        /// A2 (trusted): std `BTreeMap::retain`: "Retains only the elements specified by the predicate. In other words,
        /// remove all pairs (k, v) for which f(&k, &mut v) returns false."  Every stored pair is visited once.
        fn vx_retain<F: FnMut(&ClientID, &mut V) -> bool>(&mut self, f: F)
            requires
                forall|k: &ClientID, v: &mut V| old(self).vx_view().contains_key(*k) && *v == old(self).vx_view()[*k] ==> call_requires(f, (k, v)),
            ensures
                forall|k: ClientID| #[trigger] final(self).vx_view().contains_key(k) ==> old(self).vx_view().contains_key(k)
                    && exists|v: &mut V| *v == old(self).vx_view()[k] && *final(v) == final(self).vx_view()[k] && #[trigger] call_ensures(f, (&k, v), true),
                forall|k: ClientID| #[trigger] old(self).vx_view().contains_key(k) && !final(self).vx_view().contains_key(k) ==>
                    exists|v: &mut V| *v == old(self).vx_view()[k] && #[trigger] call_ensures(f, (&k, v), false);
    }

    impl<V> VxMapApi<V> for BTreeMap<ClientID, V> {
        open spec fn vx_view(&self) -> Map<ClientID, V> { self@ }

        #[verifier::external_body]
        fn vx_entry<'a>(&'a mut self, k: ClientID) -> (r: Entry<'a, V>)
        {
            unimplemented!()
        }

        #[verifier::external_body]
        fn vx_retain<F: FnMut(&ClientID, &mut V) -> bool>(&mut self, f: F)
        {
            self.retain(f)
        }
    }

    impl<'a, V> OccupiedEntry<'a, V> {
        pub fn get_mut(&mut self) -> (r: &mut V)
            requires old(self).slot.is_some(),
            ensures
                *r == old(self).slot.unwrap(),
                *final(self).slot == Some(*final(r)),
                *final(final(self).slot) == *final(old(self).slot),
        {
            self.slot.as_mut().unwrap()
        }

        pub fn into_mut(self) -> (r: &'a mut V)
            requires old(self.slot).is_some(),
            ensures
                *r == old(self.slot).unwrap(),
                *final(self.slot) == Some(*final(r)),
        {
            self.slot.as_mut().unwrap()
        }

        pub fn remove(self) -> (r: V)
            requires old(self.slot).is_some(),
            ensures
                r == old(self.slot).unwrap(),
                *final(self.slot) == None::<V>,
        {
            self.slot.take().unwrap()
        }
    }

    impl<'a, V> VacantEntry<'a, V> {
        pub fn insert(self, v: V) -> (r: &'a mut V)
            ensures
                *r == v,
                *final(self.slot) == Some(*final(r)),
        {
            *self.slot = Some(v);
            self.slot.as_mut().unwrap()
        }
    }

    impl<'a, V: Default> Entry<'a, V> {
        pub fn or_default(self) -> (r: &'a mut V)
            requires self is Occupied ==> old(self->Occupied_0.slot).is_some(),
            ensures
                self is Occupied ==> *r == old(self->Occupied_0.slot).unwrap(),
                self is Vacant ==> call_ensures(V::default, (), *r),
                entry_final(self) == Some(*final(r)),
        {
            match self {
                Entry::Occupied(e) => e.into_mut(),
                Entry::Vacant(e) => e.insert(Default::default()),
            }
        }
    }

    // ==========================================================================================
    // 3. abstraction of the lifted structure
    // ==========================================================================================
    /// per-client entry sequences
    pub open spec fn lift<T>(m: Map<ClientID, IdRanges<T>>) -> Map<ClientID, Seq<Ent<T>>> {
        m.map_values(|r: IdRanges<T>| r@)
    }

    /// the point (client, clock) is a member
    pub open spec fn has_pt<T>(m: Map<ClientID, Seq<Ent<T>>>, client: ClientID, clock: int) -> bool {
        m.contains_key(client) && covers(m[client], clock)
    }

    /// the attribute value at a member point
    pub open spec fn val<T>(m: Map<ClientID, Seq<Ent<T>>>, client: ClientID, clock: int) -> T {
        val_at(m[client], clock)
    }

    /// every per-client entry is canonical
    pub open spec fn canon_all<T: Merge>(m: Map<ClientID, Seq<Ent<T>>>) -> bool {
        forall|c: ClientID| #[trigger] m.contains_key(c) ==> canon(m[c])
    }

    /// "empty IdRanges entries are never stored in the map" (doc comment of IdMapInner::is_empty)
    pub open spec fn no_empty_entry<T>(m: Map<ClientID, Seq<Ent<T>>>) -> bool {
        forall|c: ClientID| #[trigger] m.contains_key(c) ==> m[c].len() > 0
    }

    /// representation invariant
    pub open spec fn wf_map<T: Merge>(m: Map<ClientID, Seq<Ent<T>>>) -> bool {
        canon_all(m) && no_empty_entry(m)
    }

    /// all clients except `k` are untouched
    pub open spec fn same_except<T>(a: Map<ClientID, Seq<Ent<T>>>, b: Map<ClientID, Seq<Ent<T>>>, k: ClientID) -> bool {
        forall|c: ClientID| c != k ==> (#[trigger] a.contains_key(c) == b.contains_key(c)) && (a.contains_key(c) ==> a[c] == b[c])
    }

    pub proof fn lemma_lift_basics<T>(m: Map<ClientID, IdRanges<T>>)
        ensures
            lift(m).dom() == m.dom(),
            forall|c: ClientID| #[trigger] m.contains_key(c) ==> lift(m)[c] == m[c]@,
    {
    }

    pub proof fn lemma_lift_insert<T>(m: Map<ClientID, IdRanges<T>>, k: ClientID, v: IdRanges<T>)
        ensures lift(m.insert(k, v)) == lift(m).insert(k, v@),
    {
        assert(lift(m.insert(k, v)) =~= lift(m).insert(k, v@));
    }

    pub proof fn lemma_lift_remove<T>(m: Map<ClientID, IdRanges<T>>, k: ClientID)
        ensures lift(m.remove(k)) == lift(m).remove(k),
    {
        assert(lift(m.remove(k)) =~= lift(m).remove(k));
    }

    /// a canonical non-empty sequence covers a point, and a covering sequence is non-empty
    pub proof fn lemma_nonempty_point<T: Merge>(s: Seq<Ent<T>>)
        requires canon(s),
        ensures s.len() > 0 <==> exists|k: int| covers(s, k),
    {
        if s.len() > 0 {
            assert(inr(s[0].0, s[0].0.start as int));
            assert(covers(s, s[0].0.start as int));
        }
        if exists|k: int| covers(s, k) {
            let k = choose|k: int| covers(s, k);
            let i = idx_of(s, k);
            assert(inr(s[i].0, k));
        }
    }

    /// one client's step of diff_with: `r` = `a` minus the other map's points of client `c`; kept iff non-empty
    pub open spec fn diff_step<T: Merge, U>(a: Seq<Ent<T>>, other: Map<ClientID, Seq<Ent<U>>>, c: ClientID, r: Seq<Ent<T>>, keep: bool) -> bool {
        &&& canon(r)
        &&& forall|k: int| covers(r, k) <==> covers(a, k) && !has_pt(other, c, k)
        &&& forall|k: int| covers(r, k) ==> val_at(r, k) == val_at(a, k)
        &&& !other.contains_key(c) ==> r == a
        &&& keep == (r.len() > 0)
    }

    // ---- merge -------------------------------------------------------------------------------------------------
    /// `r` is the union of `a` and `b` for one client (the postcondition of IdRanges::merge)
    pub open spec fn seq_merged<T: Merge>(a: Seq<Ent<T>>, b: Seq<Ent<T>>, r: Seq<Ent<T>>) -> bool {
        &&& canon(r)
        &&& forall|k: int| #![trigger covers(r, k)] #![trigger covers(a, k)] #![trigger covers(b, k)] covers(r, k) <==> covers(a, k) || covers(b, k)
        &&& forall|k: int| covers(a, k) && !covers(b, k) ==> #[trigger] val_at(r, k).eq_spec(&val_at(a, k))
        &&& forall|k: int| !covers(a, k) && covers(b, k) ==> #[trigger] val_at(r, k).eq_spec(&val_at(b, k))
        &&& forall|k: int| covers(a, k) && covers(b, k) ==> #[trigger] val_at(r, k).eq_spec(&val_at(a, k).merge_spec(&val_at(b, k)))
    }

    /// client `c` of `r` is the union of client `c` of `a` and of `b`
    pub open spec fn client_merged<T: Merge>(a: Map<ClientID, Seq<Ent<T>>>, b: Map<ClientID, Seq<Ent<T>>>, r: Map<ClientID, Seq<Ent<T>>>, c: ClientID) -> bool {
        if !b.contains_key(c) {
            r.contains_key(c) == a.contains_key(c) && (a.contains_key(c) ==> r[c] == a[c])
        } else if !a.contains_key(c) {
            r.contains_key(c) && r[c] == b[c]
        } else {
            r.contains_key(c) && seq_merged(a[c], b[c], r[c])
        }
    }

    /// loop invariant of merge_with for client `c`: merged if already visited, untouched otherwise
    pub open spec fn merge_step<T: Merge>(a: Map<ClientID, Seq<Ent<T>>>, b: Map<ClientID, Seq<Ent<T>>>, r: Map<ClientID, Seq<Ent<T>>>, done: Set<ClientID>, c: ClientID) -> bool {
        if done.contains(c) {
            client_merged(a, b, r, c)
        } else {
            r.contains_key(c) == a.contains_key(c) && (a.contains_key(c) ==> r[c] == a[c])
        }
    }

    pub open spec fn merge_inv<T: Merge>(a: Map<ClientID, Seq<Ent<T>>>, b: Map<ClientID, Seq<Ent<T>>>, r: Map<ClientID, Seq<Ent<T>>>, done: Set<ClientID>) -> bool {
        forall|c: ClientID| #[trigger] merge_step(a, b, r, done, c)
    }

    /// the items a BTreeMap iterator yields: every stored pair exactly once (vstd's `iter()` contract, restated)
    pub open spec fn iter_of<V>(s: Seq<(&ClientID, &V)>, m: Map<ClientID, V>) -> bool {
        &&& s.no_duplicates()
        &&& forall|i: int| 0 <= i < s.len() ==> m.contains_key(*(#[trigger] s[i]).0) && m[*s[i].0] == *s[i].1
        &&& forall|k: ClientID| #[trigger] m.contains_key(k) ==> exists|i: int| 0 <= i < s.len() && *(#[trigger] s[i]).0 == k
    }

    pub proof fn lemma_iter_keys_distinct<V>(s: Seq<(&ClientID, &V)>, m: Map<ClientID, V>, i: int, j: int)
        requires iter_of(s, m), 0 <= i < j < s.len(),
        ensures *s[i].0 != *s[j].0,
    {
        if *s[i].0 == *s[j].0 {
            assert(*s[i].1 == *s[j].1);
            assert(s[i] == s[j]);
        }
    }

    /// keys among the first `n` items
    pub open spec fn visited<V>(s: Seq<(&ClientID, &V)>, n: int, c: ClientID) -> bool {
        exists|i: int| 0 <= i < n && *(#[trigger] s[i]).0 == c
    }

    pub proof fn lemma_merge_step<T: Merge>(a: Map<ClientID, Seq<Ent<T>>>, b: Map<ClientID, Seq<Ent<T>>>, r: Map<ClientID, Seq<Ent<T>>>, done: Set<ClientID>, k: ClientID, x: Seq<Ent<T>>)
        requires
            merge_inv(a, b, r, done),
            !done.contains(k),
            b.contains_key(k),
            if a.contains_key(k) { seq_merged(a[k], b[k], x) } else { x == b[k] },
        ensures
            merge_inv(a, b, r.insert(k, x), done.insert(k)),
    {
        let r2 = r.insert(k, x);
        let d2 = done.insert(k);
        assert forall|c: ClientID| #[trigger] merge_step(a, b, r2, d2, c) by {
            assert(merge_step(a, b, r, done, c));
        }
    }

    pub proof fn lemma_merge_done<T: Merge>(a: Map<ClientID, Seq<Ent<T>>>, b: Map<ClientID, Seq<Ent<T>>>, r: Map<ClientID, Seq<Ent<T>>>)
        requires
            wf_map(a),
            wf_map(b),
            forall|c: ClientID| #[trigger] client_merged(a, b, r, c),
        ensures
            wf_map(r),
            forall|c: ClientID, k: int| #![trigger has_pt(r, c, k)] #![trigger has_pt(a, c, k)] #![trigger has_pt(b, c, k)] has_pt(r, c, k) <==> has_pt(a, c, k) || has_pt(b, c, k),
            forall|c: ClientID, k: int| has_pt(a, c, k) && !has_pt(b, c, k) ==> #[trigger] val(r, c, k).eq_spec(&val(a, c, k)),
            forall|c: ClientID, k: int| !has_pt(a, c, k) && has_pt(b, c, k) ==> #[trigger] val(r, c, k).eq_spec(&val(b, c, k)),
            forall|c: ClientID, k: int| has_pt(a, c, k) && has_pt(b, c, k) ==> #[trigger] val(r, c, k).eq_spec(&val(a, c, k).merge_spec(&val(b, c, k))),
    {
        assert forall|c: ClientID| #[trigger] r.contains_key(c) implies canon(r[c]) && r[c].len() > 0 by {
            assert(client_merged(a, b, r, c));
            if a.contains_key(c) && b.contains_key(c) {
                lemma_nonempty_point(a[c]);
                let k = choose|k: int| covers(a[c], k);
                assert(covers(r[c], k));
                lemma_nonempty_point(r[c]);
            }
        }
        assert forall|c: ClientID, k: int| #![trigger has_pt(r, c, k)] #![trigger has_pt(a, c, k)] #![trigger has_pt(b, c, k)] has_pt(r, c, k) <==> has_pt(a, c, k) || has_pt(b, c, k) by {
            assert(client_merged(a, b, r, c));
        }
        assert forall|c: ClientID, k: int| has_pt(a, c, k) && !has_pt(b, c, k) implies #[trigger] val(r, c, k).eq_spec(&val(a, c, k)) by {
            assert(client_merged(a, b, r, c));
            if !b.contains_key(c) {
                lemma_val_wf(a[c], k);
                val(a, c, k).law_eq_refl();
            }
        }
        assert forall|c: ClientID, k: int| !has_pt(a, c, k) && has_pt(b, c, k) implies #[trigger] val(r, c, k).eq_spec(&val(b, c, k)) by {
            assert(client_merged(a, b, r, c));
            if !a.contains_key(c) {
                lemma_val_wf(b[c], k);
                val(b, c, k).law_eq_refl();
            }
        }
        assert forall|c: ClientID, k: int| has_pt(a, c, k) && has_pt(b, c, k) implies #[trigger] val(r, c, k).eq_spec(&val(a, c, k).merge_spec(&val(b, c, k))) by {
            assert(client_merged(a, b, r, c));
        }
    }

    /// the value at a covered point of a canonical sequence is well formed
    pub proof fn lemma_val_wf<T: Merge>(s: Seq<Ent<T>>, k: int)
        requires canon(s), covers(s, k),
        ensures val_at(s, k).wf(),
    {
        let i = idx_of(s, k);
        assert(inr(s[i].0, k));
        assert(s[i].1.wf());
    }

    // ---- map ---------------------------------------------------------------------------------------------------
    /// clocks covered by the first `n` entries
    pub open spec fn covers_upto<T>(s: Seq<Ent<T>>, n: int, k: int) -> bool {
        exists|j: int| 0 <= j < n && j < s.len() && #[trigger] inr(s[j].0, k)
    }

    /// `r` has the clocks of the first `n` entries of `a`, each carrying (a value equal to) `f` of the original value
    pub open spec fn seq_mapped_upto<T: Merge, U: Merge, F: Fn(&T) -> U>(f: F, a: Seq<Ent<T>>, n: int, r: Seq<Ent<U>>) -> bool {
        &&& canon(r)
        &&& forall|k: int| #![trigger covers(r, k)] #![trigger covers_upto(a, n, k)] covers(r, k) <==> covers_upto(a, n, k)
        &&& forall|k: int| #[trigger] covers_upto(a, n, k) ==> exists|u: U| #[trigger] call_ensures(f, (&val_at(a, k),), u) && val_at(r, k).eq_spec(&u)
    }

    pub open spec fn seq_mapped<T: Merge, U: Merge, F: Fn(&T) -> U>(f: F, a: Seq<Ent<T>>, r: Seq<Ent<U>>) -> bool {
        &&& canon(r)
        &&& forall|k: int| #![trigger covers(r, k)] #![trigger covers(a, k)] covers(r, k) <==> covers(a, k)
        &&& forall|k: int| #[trigger] covers(a, k) ==> exists|u: U| #[trigger] call_ensures(f, (&val_at(a, k),), u) && val_at(r, k).eq_spec(&u)
    }

    /// the postcondition of insert_with, with names
    pub open spec fn seq_inserted<T: Merge>(a: Seq<Ent<T>>, range: Range<u32>, value: T, r: Seq<Ent<T>>) -> bool {
        &&& canon(r)
        &&& forall|c: int| #![trigger covers(r, c)] #![trigger covers(a, c)] #![trigger inr(range, c)] covers(r, c) <==> covers(a, c) || inr(range, c)
        &&& forall|c: int| covers(a, c) && !inr(range, c) ==> #[trigger] val_at(r, c).eq_spec(&val_at(a, c))
        &&& forall|c: int| !covers(a, c) && inr(range, c) ==> #[trigger] val_at(r, c).eq_spec(&value)
    }

    pub proof fn lemma_map_step<T: Merge, U: Merge, F: Fn(&T) -> U>(f: F, a: Seq<Ent<T>>, n: int, r0: Seq<Ent<U>>, u: U, r1: Seq<Ent<U>>)
        requires
            canon(a),
            0 <= n < a.len(),
            seq_mapped_upto(f, a, n, r0),
            call_ensures(f, (&a[n].1,), u),
            forall|v: &T, w: U| #[trigger] call_ensures(f, (v,), w) ==> w.wf(),
            seq_inserted(r0, a[n].0, u, r1),
        ensures
            seq_mapped_upto(f, a, n + 1, r1),
    {
        let rg = a[n].0;
        // the new range is disjoint from everything mapped so far
        assert forall|k: int| inr(rg, k) implies !covers_upto(a, n, k) by {
            if covers_upto(a, n, k) {
                let j = choose|j: int| 0 <= j < n && j < a.len() && #[trigger] inr(a[j].0, k);
                assert(a[j].0.end <= a[n].0.start);
            }
        }
        assert forall|k: int| #![trigger covers(r1, k)] #![trigger covers_upto(a, n + 1, k)] covers(r1, k) <==> covers_upto(a, n + 1, k) by {
            if covers_upto(a, n + 1, k) {
                let j = choose|j: int| 0 <= j < n + 1 && j < a.len() && #[trigger] inr(a[j].0, k);
                if j < n { assert(covers_upto(a, n, k)); }
            }
            if covers_upto(a, n, k) {
                let j = choose|j: int| 0 <= j < n && j < a.len() && #[trigger] inr(a[j].0, k);
                assert(0 <= j < n + 1 && inr(a[j].0, k));
            }
            if inr(rg, k) { assert(inr(a[n].0, k)); }
        }
        assert forall|k: int| #[trigger] covers_upto(a, n + 1, k) implies exists|w: U| #[trigger] call_ensures(f, (&val_at(a, k),), w) && val_at(r1, k).eq_spec(&w) by {
            let j = choose|j: int| 0 <= j < n + 1 && j < a.len() && #[trigger] inr(a[j].0, k);
            lemma_idx_unique(a, j, k);
            if j < n {
                assert(covers_upto(a, n, k));
                assert(covers(r0, k));
                assert(!inr(rg, k));
                let w = choose|w: U| #[trigger] call_ensures(f, (&val_at(a, k),), w) && val_at(r0, k).eq_spec(&w);
                assert(val_at(r1, k).eq_spec(&val_at(r0, k)));
                assert(covers(r1, k));
                lemma_val_wf(r1, k);
                lemma_val_wf(r0, k);
                val_at(r1, k).law_eq_trans(&val_at(r0, k), &w);
            } else {
                assert(inr(rg, k));
                assert(!covers(r0, k));
                assert(val_at(a, k) == a[n].1);
                assert(val_at(r1, k).eq_spec(&u));
            }
        }
    }

    pub proof fn lemma_map_done<T: Merge, U: Merge, F: Fn(&T) -> U>(f: F, a: Seq<Ent<T>>, r: Seq<Ent<U>>)
        requires
            canon(a),
            seq_mapped_upto(f, a, a.len() as int, r),
        ensures
            seq_mapped(f, a, r),
            a.len() > 0 ==> r.len() > 0,
    {
        let n = a.len() as int;
        assert forall|k: int| covers(a, k) <==> covers_upto(a, n, k) by {
            if covers(a, k) {
                let j = idx_of(a, k);
                assert(inr(a[j].0, k));
            }
            if covers_upto(a, n, k) {
                let j = choose|j: int| 0 <= j < n && j < a.len() && #[trigger] inr(a[j].0, k);
                assert(inr(a[j].0, k));
            }
        }
        assert forall|k: int| #![trigger covers(r, k)] #![trigger covers(a, k)] covers(r, k) <==> covers(a, k) by {
            assert(covers(r, k) <==> covers_upto(a, n, k));
        }
        assert forall|k: int| #[trigger] covers(a, k) implies exists|u: U| #[trigger] call_ensures(f, (&val_at(a, k),), u) && val_at(r, k).eq_spec(&u) by {
            assert(covers_upto(a, n, k));
        }
        if a.len() > 0 {
            lemma_nonempty_point(a);
            let k = choose|k: int| covers(a, k);
            assert(covers(r, k));
            lemma_nonempty_point(r);
        }
    }

    pub proof fn lemma_visited_step<V>(s: Seq<(&ClientID, &V)>, n: int, c: ClientID)
        requires 0 <= n < s.len(),
        ensures visited(s, n + 1, c) <==> visited(s, n, c) || *s[n].0 == c,
    {
        if visited(s, n + 1, c) {
            let i = choose|i: int| 0 <= i < n + 1 && *(#[trigger] s[i]).0 == c;
            if i < n { assert(visited(s, n, c)); }
        }
        if visited(s, n, c) {
            let i = choose|i: int| 0 <= i < n && *(#[trigger] s[i]).0 == c;
            assert(0 <= i < n + 1 && *s[i].0 == c);
        }
        if *s[n].0 == c { assert(0 <= n < n + 1 && *s[n].0 == c); }
    }

    /// one client's step of intersect_with
    pub open spec fn ix_step<T: Merge>(a: Seq<Ent<T>>, other: Map<ClientID, Seq<Ent<T>>>, c: ClientID, r: Seq<Ent<T>>, keep: bool) -> bool {
        if other.contains_key(c) {
            &&& canon(r)
            &&& forall|k: int| #![trigger covers(r, k)] #![trigger covers(a, k)] covers(r, k) <==> covers(a, k) && covers(other[c], k)
            &&& forall|k: int| covers(r, k) ==> #[trigger] val_at(r, k).eq_spec(&val_at(a, k).merge_spec(&val_at(other[c], k)))
            &&& keep == (r.len() > 0)
        } else {
            !keep
        }
    }

    /// intersect_with as a whole, from the per-client steps that `retain` performed
    pub proof fn lemma_ix_done<T: Merge>(a: Map<ClientID, Seq<Ent<T>>>, o: Map<ClientID, Seq<Ent<T>>>, r: Map<ClientID, Seq<Ent<T>>>)
        requires
            wf_map(a),
            forall|c: ClientID| #[trigger] r.contains_key(c) ==> a.contains_key(c) && ix_step(a[c], o, c, r[c], true),
            forall|c: ClientID| #[trigger] a.contains_key(c) && !r.contains_key(c) ==> exists|x: Seq<Ent<T>>| ix_step(a[c], o, c, x, false),
        ensures
            wf_map(r),
            forall|c: ClientID, k: int| #![trigger has_pt(r, c, k)] #![trigger has_pt(a, c, k)] #![trigger has_pt(o, c, k)] has_pt(r, c, k) <==> has_pt(a, c, k) && has_pt(o, c, k),
            forall|c: ClientID, k: int| has_pt(r, c, k) ==> #[trigger] val(r, c, k).eq_spec(&val(a, c, k).merge_spec(&val(o, c, k))),
    {
        assert forall|c: ClientID, k: int| #![trigger has_pt(r, c, k)] #![trigger has_pt(a, c, k)] #![trigger has_pt(o, c, k)] has_pt(r, c, k) <==> has_pt(a, c, k) && has_pt(o, c, k) by {
            if r.contains_key(c) {
                assert(ix_step(a[c], o, c, r[c], true));
            } else if a.contains_key(c) {
                let x = choose|x: Seq<Ent<T>>| ix_step(a[c], o, c, x, false);
                assert(ix_step(a[c], o, c, x, false));
                if covers(a[c], k) && has_pt(o, c, k) {
                    assert(covers(x, k));
                    let i = idx_of(x, k);
                    assert(inr(x[i].0, k));
                }
            }
        }
        assert forall|c: ClientID, k: int| has_pt(r, c, k) implies #[trigger] val(r, c, k).eq_spec(&val(a, c, k).merge_spec(&val(o, c, k))) by {
            assert(ix_step(a[c], o, c, r[c], true));
        }
    }

    /// diff_with as a whole, from the per-client steps that `retain` performed
    pub proof fn lemma_diff_done<T: Merge, U>(a: Map<ClientID, Seq<Ent<T>>>, o: Map<ClientID, Seq<Ent<U>>>, r: Map<ClientID, Seq<Ent<T>>>)
        requires
            wf_map(a),
            forall|c: ClientID| #[trigger] r.contains_key(c) ==> a.contains_key(c) && diff_step(a[c], o, c, r[c], true),
            forall|c: ClientID| #[trigger] a.contains_key(c) && !r.contains_key(c) ==> exists|x: Seq<Ent<T>>| diff_step(a[c], o, c, x, false),
        ensures
            wf_map(r),
            forall|c: ClientID, k: int| #![trigger has_pt(r, c, k)] #![trigger has_pt(a, c, k)] #![trigger has_pt(o, c, k)] has_pt(r, c, k) <==> has_pt(a, c, k) && !has_pt(o, c, k),
            forall|c: ClientID, k: int| #![trigger has_pt(r, c, k)] #![trigger val(r, c, k)] has_pt(r, c, k) ==> val(r, c, k) == val(a, c, k),
            forall|c: ClientID| !o.contains_key(c) ==> (#[trigger] r.contains_key(c) == a.contains_key(c)) && (a.contains_key(c) ==> r[c] == a[c]),
    {
        assert forall|c: ClientID, k: int| #![trigger has_pt(r, c, k)] #![trigger has_pt(a, c, k)] #![trigger has_pt(o, c, k)] has_pt(r, c, k) <==> has_pt(a, c, k) && !has_pt(o, c, k) by {
            if r.contains_key(c) {
                assert(diff_step(a[c], o, c, r[c], true));
            } else if a.contains_key(c) {
                let x = choose|x: Seq<Ent<T>>| diff_step(a[c], o, c, x, false);
                assert(diff_step(a[c], o, c, x, false));
                if covers(a[c], k) && !has_pt(o, c, k) {
                    assert(covers(x, k));
                    let i = idx_of(x, k);
                    assert(inr(x[i].0, k));
                }
            }
        }
        assert forall|c: ClientID| !o.contains_key(c) implies (#[trigger] r.contains_key(c) == a.contains_key(c)) && (a.contains_key(c) ==> r[c] == a[c]) by {
            if a.contains_key(c) && !r.contains_key(c) {
                let x = choose|x: Seq<Ent<T>>| diff_step(a[c], o, c, x, false);
                assert(diff_step(a[c], o, c, x, false));
            }
        }
    }

    // ==========================================================================================
    // 4. IdMapInner<T>
    // ==========================================================================================
    /*@extract yrs/src/ids.rs | - | struct IdMapInner @*/

    impl<T: Merge> IdMapInner<T> {
        /// the stored map (client -> IdRanges)
        pub closed spec fn raw(&self) -> Map<ClientID, IdRanges<T>> {
            self.0@
        }

        pub closed spec fn view(&self) -> Map<ClientID, Seq<Ent<T>>> {
            lift(self.0@)
        }
    }

    impl<T: Merge> Default for IdMapInner<T> {
        /*@extract yrs/src/ids.rs | impl<T: Merge> Default for IdMapInner<T> | fn default
        @ret r
        @sig
            ensures r@ == Map::<ClientID, Seq<Ent<T>>>::empty(), wf_map(r@),
        @start
            proof { assert(lift(Map::<ClientID, IdRanges<T>>::empty()) =~= Map::<ClientID, Seq<Ent<T>>>::empty()); }
        @*/
    }

    /// `#[derive(Clone)]` of IdMapInner<T>, written out; vstd: BTreeMap::clone returns a map with an equal view
    impl<T: Merge> Clone for IdMapInner<T> {
        fn clone(&self) -> (r: Self)
            ensures r@ == self@,
        {
            proof { axiom_client_id_key_model(); }
            let m = self.0.clone();
            IdMapInner(m)
        }
    }

    impl<T: Merge> IdMapInner<T> {
        /*@extract yrs/src/ids.rs | impl<T: Merge> IdMapInner<T> | fn new | label=inner_new
        @ret r
        @sig
            ensures r@ == Map::<ClientID, Seq<Ent<T>>>::empty(), wf_map(r@),
        @*/

        /*@extract yrs/src/ids.rs | impl<T: Merge> IdMapInner<T> | fn is_empty | label=inner_is_empty
        @ret r
        @sig
            requires wf_map(self@),
            ensures
                r == (self@.len() == 0),
                // agrees with the mathematical set: empty iff there is no point
                r <==> forall|c: ClientID, k: int| !has_pt(self@, c, k),
        @start
            proof {
                axiom_client_id_key_model();
                lemma_lift_basics(self.0@);
                if self.0@.len() == 0 {
                    self.0@.dom().lemma_len0_is_empty();
                    assert forall|c: ClientID, k: int| !has_pt(self@, c, k) by {}
                } else {
                    let c = self.0@.dom().choose();
                    assert(self@.contains_key(c));
                    lemma_nonempty_point(self@[c]);
                    let k = choose|k: int| covers(self@[c], k);
                    assert(has_pt(self@, c, k));
                }
            }
        @*/

        /*@extract yrs/src/ids.rs | impl<T: Merge> IdMapInner<T> | fn len | label=inner_len
        @ret r
        @sig
            ensures r == self@.len(),
        @start
            proof { axiom_client_id_key_model(); lemma_lift_basics(self.0@); }
        @*/

        /*@extract yrs/src/ids.rs | impl<T: Merge> IdMapInner<T> | fn get | label=inner_get
        @ret r
        @sig
            ensures
                r.is_some() == self@.contains_key(*client_id),
                r.is_some() ==> r.unwrap()@ == self@[*client_id],
        @start
            proof { axiom_client_id_key_model(); lemma_lift_basics(self.0@); }
        @*/

        /*@extract yrs/src/ids.rs | impl<T: Merge> IdMapInner<T> | fn contains | label=inner_contains
        @ret r
        @sig
            requires wf_map(self@),
            ensures r == has_pt(self@, id.client, id.clock as int),
        @start
            proof { axiom_client_id_key_model(); lemma_lift_basics(self.0@); }
        @*/

        /*@extract yrs/src/ids.rs | impl<T: Merge> IdMapInner<T> | fn entry | label=inner_entry | rules=SUB(from=.entry(client_id);;to=.vx_entry(client_id))
        @ret r
        @sig
            ensures
                entry_of(r, old(self).raw(), client_id),
                final(self).raw() == slot_map(old(self).raw(), client_id, entry_final(r)),
        @*/

        /*@extract yrs/src/ids.rs | impl<T: Merge> IdMapInner<T> | fn insert_range | label=inner_insert_range | rules=SUB(from=.entry(client_id);;to=.vx_entry(client_id))
        @sig
            requires wf_map(old(self)@), value.wf(),
            ensures
                // includes "no empty entry is stored" also for an empty `range` (defect F-L1, repaired in /repo: early return)
                wf_map(final(self)@),
                same_except(final(self)@, old(self)@, client_id),
                forall|c: ClientID, k: int| #![trigger has_pt(final(self)@, c, k)] #![trigger has_pt(old(self)@, c, k)] has_pt(final(self)@, c, k) <==> has_pt(old(self)@, c, k) || (c == client_id && inr(range, k)),
                forall|k: int| has_pt(old(self)@, client_id, k) && !inr(range, k) ==> #[trigger] val(final(self)@, client_id, k).eq_spec(&val(old(self)@, client_id, k)),
                forall|k: int| !has_pt(old(self)@, client_id, k) && inr(range, k) ==> #[trigger] val(final(self)@, client_id, k).eq_spec(&value),
                forall|k: int| has_pt(old(self)@, client_id, k) && inr(range, k) ==> #[trigger] val(final(self)@, client_id, k).eq_spec(&val(old(self)@, client_id, k).merge_spec(&value)),
        @start
            let ghost rg = range;
            proof { axiom_client_id_key_model(); lemma_lift_basics(self.0@); }
        @before 1 `stmt:return`
            proof {
                // nothing changes: `==` is reflexive on the (well-formed) stored values
                assert forall|k: int| has_pt(self@, client_id, k) implies #[trigger] val(self@, client_id, k).eq_spec(&val(self@, client_id, k)) by {
                    lemma_val_wf(self@[client_id], k);
                    val(self@, client_id, k).law_eq_refl();
                }
            }
        @end
            proof {
                let m0 = old(self).0@;
                let r1 = self.0@[client_id];
                assert(self.0@ == m0.insert(client_id, r1));
                lemma_lift_insert(m0, client_id, r1);
                lemma_lift_basics(m0);
                if rg.start < rg.end {
                    assert(inr(rg, rg.start as int));
                    assert(covers(r1@, rg.start as int));
                    lemma_nonempty_point(r1@);
                }
            }
        @*/

        /*@extract yrs/src/ids.rs | impl<T: Merge> IdMapInner<T> | fn diff_with | label=inner_diff_with | rules=SUB(from=.retain;;to=.vx_retain)
        @sig
            requires wf_map(old(self)@), canon_all(other@),
            ensures
                wf_map(final(self)@),
                forall|c: ClientID, k: int| #![trigger has_pt(final(self)@, c, k)] #![trigger has_pt(old(self)@, c, k)] #![trigger has_pt(other@, c, k)] has_pt(final(self)@, c, k) <==> has_pt(old(self)@, c, k) && !has_pt(other@, c, k),
                forall|c: ClientID, k: int| #![trigger has_pt(final(self)@, c, k)] #![trigger val(final(self)@, c, k)] has_pt(final(self)@, c, k) ==> val(final(self)@, c, k) == val(old(self)@, c, k),
                // clients absent from `other` are left untouched
                forall|c: ClientID| !other@.contains_key(c) ==> (#[trigger] final(self)@.contains_key(c) == old(self)@.contains_key(c)) && (old(self)@.contains_key(c) ==> final(self)@[c] == old(self)@[c]),
        @start
            proof { axiom_client_id_key_model(); lemma_lift_basics(self.0@); lemma_lift_basics(other.0@); }
        @closure 1 `|client: &ClientID, ranges: &mut IdRanges<T>| -> (keep: bool)`
            requires canon(old(ranges)@),
            ensures diff_step(old(ranges)@, other@, *client, final(ranges)@, keep),
        @before 1 `stmt:if`
            let ghost r0 = ranges@;
            proof { axiom_client_id_key_model(); lemma_lift_basics(other.0@); }
        @after 1 `stmt:call exclude`
            proof {
                assert(other@.contains_key(*client) && other@[*client] == other_ranges@);
                assert forall|k: int| covers(ranges@, k) <==> covers(r0, k) && !has_pt(other@, *client, k) by {
                    if covers(other_ranges@, k) {}
                }
            }
        @end
            proof {
                let m0 = old(self).0@;
                let m1 = self.0@;
                lemma_lift_basics(m0);
                lemma_lift_basics(m1);
                assert forall|c: ClientID| #[trigger] lift(m1).contains_key(c) implies lift(m0).contains_key(c) && diff_step(lift(m0)[c], other@, c, lift(m1)[c], true) by {
                    assert(self.0.vx_view().contains_key(c));
                }
                assert forall|c: ClientID| #[trigger] lift(m0).contains_key(c) && !lift(m1).contains_key(c) implies exists|x: Seq<Ent<T>>| diff_step(lift(m0)[c], other@, c, x, false) by {
                    assert(old(self).0.vx_view().contains_key(c) && !self.0.vx_view().contains_key(c));
                    assert(exists|v: &mut IdRanges<T>| *v == m0[c] && diff_step(v@, other@, c, final(v)@, false));
                    let v = choose|v: &mut IdRanges<T>| *v == m0[c] && diff_step(v@, other@, c, final(v)@, false);
                    assert(diff_step(lift(m0)[c], other@, c, final(v)@, false));
                }
                lemma_diff_done(lift(m0), other@, lift(m1));
            }
        @*/

        /*@extract yrs/src/ids.rs | impl<T: Merge> IdMapInner<T> | fn intersect_with | label=inner_intersect_with | rules=SUB(from=.retain;;to=.vx_retain)
        @sig
            requires wf_map(old(self)@), wf_map(other@),
            ensures
                wf_map(final(self)@),
                forall|c: ClientID, k: int| #![trigger has_pt(final(self)@, c, k)] #![trigger has_pt(old(self)@, c, k)] #![trigger has_pt(other@, c, k)] has_pt(final(self)@, c, k) <==> has_pt(old(self)@, c, k) && has_pt(other@, c, k),
                forall|c: ClientID, k: int| has_pt(final(self)@, c, k) ==> #[trigger] val(final(self)@, c, k).eq_spec(&val(old(self)@, c, k).merge_spec(&val(other@, c, k))),
        @start
            proof { axiom_client_id_key_model(); lemma_lift_basics(self.0@); lemma_lift_basics(other.0@); }
        @closure 1 `|client: &ClientID, ranges: &mut IdRanges<T>| -> (keep: bool)`
            requires canon(old(ranges)@),
            ensures ix_step(old(ranges)@, other@, *client, final(ranges)@, keep),
        @before 1 `stmt:call intersect`
            let ghost r0 = ranges@;
        @after 1 `stmt:call intersect`
            proof {
                assert(other@.contains_key(*client) && other@[*client] == other_ranges@);
                assert forall|k: int| covers(ranges@, k) <==> covers(r0, k) && covers(other_ranges@, k) by {
                    if covers(other_ranges@, k) {}
                }
            }
        @end
            proof {
                let m0 = old(self).0@;
                let m1 = self.0@;
                lemma_lift_basics(m0);
                lemma_lift_basics(m1);
                assert forall|c: ClientID| #[trigger] lift(m1).contains_key(c) implies lift(m0).contains_key(c) && ix_step(lift(m0)[c], other@, c, lift(m1)[c], true) by {
                    assert(self.0.vx_view().contains_key(c));
                }
                assert forall|c: ClientID| #[trigger] lift(m0).contains_key(c) && !lift(m1).contains_key(c) implies exists|x: Seq<Ent<T>>| ix_step(lift(m0)[c], other@, c, x, false) by {
                    assert(old(self).0.vx_view().contains_key(c) && !self.0.vx_view().contains_key(c));
                    assert(exists|v: &mut IdRanges<T>| *v == m0[c] && ix_step(v@, other@, c, final(v)@, false));
                    let v = choose|v: &mut IdRanges<T>| *v == m0[c] && ix_step(v@, other@, c, final(v)@, false);
                    assert(ix_step(lift(m0)[c], other@, c, final(v)@, false));
                }
                lemma_ix_done(lift(m0), other@, lift(m1));
            }
        @*/

        /*@extract yrs/src/ids.rs | impl<T: Merge> IdMapInner<T> | fn merge_with | label=inner_merge_with | skip=R6 | rules=SUB(from=in &other.0;;to=in other.0.iter()) SUB(from=.entry(*client);;to=.vx_entry(*client))
        @sig
            requires wf_map(old(self)@), wf_map(other@),
            ensures
                wf_map(final(self)@),
                forall|c: ClientID| #[trigger] client_merged(old(self)@, other@, final(self)@, c),
                forall|c: ClientID, k: int| #![trigger has_pt(final(self)@, c, k)] #![trigger has_pt(old(self)@, c, k)] #![trigger has_pt(other@, c, k)] has_pt(final(self)@, c, k) <==> has_pt(old(self)@, c, k) || has_pt(other@, c, k),
                forall|c: ClientID, k: int| has_pt(old(self)@, c, k) && !has_pt(other@, c, k) ==> #[trigger] val(final(self)@, c, k).eq_spec(&val(old(self)@, c, k)),
                forall|c: ClientID, k: int| !has_pt(old(self)@, c, k) && has_pt(other@, c, k) ==> #[trigger] val(final(self)@, c, k).eq_spec(&val(other@, c, k)),
                forall|c: ClientID, k: int| has_pt(old(self)@, c, k) && has_pt(other@, c, k) ==> #[trigger] val(final(self)@, c, k).eq_spec(&val(old(self)@, c, k).merge_spec(&val(other@, c, k))),
        @start
            let ghost m0 = self.0@;
            let ghost mut done = Set::<ClientID>::empty();
            proof {
                axiom_client_id_key_model();
                lemma_lift_basics(m0);
                lemma_lift_basics(other.0@);
                assert forall|c: ClientID| #[trigger] merge_step(lift(m0), other@, lift(m0), done, c) by {}
            }
        @loop 1 iter=it
            invariant
                iter_of(it.seq(), other.0@),
                wf_map(lift(m0)),
                wf_map(other@),
                merge_inv(lift(m0), other@, lift(self.0@), done),
                forall|c: ClientID| done.contains(c) <==> visited(it.seq(), it.index@ as int, c),
        @before 1 `stmt:match`
            let ghost m1 = self.0@;
            let ghost n = it.index@ as int;
            proof {
                axiom_client_id_key_model();
                lemma_lift_basics(m0);
                lemma_lift_basics(m1);
                lemma_lift_basics(other.0@);
                assert(it.seq()[n] == (client, other_ranges));
                assert(other.0@.contains_key(*client) && other.0@[*client] == *other_ranges);
                if done.contains(*client) {
                    let i = choose|i: int| 0 <= i < n && *(#[trigger] it.seq()[i]).0 == *client;
                    lemma_iter_keys_distinct(it.seq(), other.0@, i, n);
                }
                assert(merge_step(lift(m0), other@, lift(m1), done, *client));
            }
        @after 1 `stmt:match`
            proof {
                let m2 = self.0@;
                let x = m2[*client];
                assert(m2 == m1.insert(*client, x));
                lemma_lift_insert(m1, *client, x);
                if m1.contains_key(*client) {
                    assert forall|k: int| covers(x@, k) <==> covers(m1[*client]@, k) || covers(other_ranges@, k) by {
                        if covers(other_ranges@, k) {}
                    }
                    assert(seq_merged(lift(m0)[*client], other@[*client], x@));
                }
                lemma_merge_step(lift(m0), other@, lift(m1), done, *client, x@);
                let d2 = done.insert(*client);
                assert forall|c: ClientID| d2.contains(c) <==> visited(it.seq(), n + 1, c) by {
                    if visited(it.seq(), n + 1, c) {
                        let i = choose|i: int| 0 <= i < n + 1 && *(#[trigger] it.seq()[i]).0 == c;
                        if i < n { assert(visited(it.seq(), n, c)); }
                    }
                    if done.contains(c) {
                        let i = choose|i: int| 0 <= i < n && *(#[trigger] it.seq()[i]).0 == c;
                        assert(0 <= i < n + 1 && *it.seq()[i].0 == c);
                    }
                    if c == *client { assert(*it.seq()[n].0 == c); }
                }
                done = d2;
            }
        @end
            proof {
                lemma_lift_basics(other.0@);
                assert forall|c: ClientID| #[trigger] client_merged(lift(m0), other@, lift(self.0@), c) by {
                    assert(merge_step(lift(m0), other@, lift(self.0@), done, c));
                }
                lemma_merge_done(lift(m0), other@, lift(self.0@));
            }
        @*/

        /*@extract yrs/src/ids.rs | impl<T: Merge> IdMapInner<T> | fn merge | label=inner_merge
        @ret r
        @sig
            requires wf_map(self@), wf_map(other@),
            ensures
                wf_map(r@),
                forall|c: ClientID| #[trigger] client_merged(self@, other@, r@, c),
                forall|c: ClientID, k: int| #![trigger has_pt(r@, c, k)] #![trigger has_pt(self@, c, k)] #![trigger has_pt(other@, c, k)] has_pt(r@, c, k) <==> has_pt(self@, c, k) || has_pt(other@, c, k),
                forall|c: ClientID, k: int| has_pt(self@, c, k) && !has_pt(other@, c, k) ==> #[trigger] val(r@, c, k).eq_spec(&val(self@, c, k)),
                forall|c: ClientID, k: int| !has_pt(self@, c, k) && has_pt(other@, c, k) ==> #[trigger] val(r@, c, k).eq_spec(&val(other@, c, k)),
                forall|c: ClientID, k: int| has_pt(self@, c, k) && has_pt(other@, c, k) ==> #[trigger] val(r@, c, k).eq_spec(&val(self@, c, k).merge_spec(&val(other@, c, k))),
        @*/

        /*@extract yrs/src/ids.rs | impl<T: Merge> IdMapInner<T> | fn diff | label=inner_diff
        @ret r
        @sig
            requires wf_map(self@), canon_all(other@),
            ensures
                wf_map(r@),
                forall|c: ClientID, k: int| #![trigger has_pt(r@, c, k)] #![trigger has_pt(self@, c, k)] #![trigger has_pt(other@, c, k)] has_pt(r@, c, k) <==> has_pt(self@, c, k) && !has_pt(other@, c, k),
                forall|c: ClientID, k: int| #![trigger has_pt(r@, c, k)] #![trigger val(r@, c, k)] has_pt(r@, c, k) ==> val(r@, c, k) == val(self@, c, k),
                forall|c: ClientID| !other@.contains_key(c) ==> (#[trigger] r@.contains_key(c) == self@.contains_key(c)) && (self@.contains_key(c) ==> r@[c] == self@[c]),
        @*/

        /*@extract yrs/src/ids.rs | impl<T: Merge> IdMapInner<T> | fn intersect | label=inner_intersect
        @ret r
        @sig
            requires wf_map(self@), wf_map(other@),
            ensures
                wf_map(r@),
                forall|c: ClientID, k: int| #![trigger has_pt(r@, c, k)] #![trigger has_pt(self@, c, k)] #![trigger has_pt(other@, c, k)] has_pt(r@, c, k) <==> has_pt(self@, c, k) && has_pt(other@, c, k),
                forall|c: ClientID, k: int| has_pt(r@, c, k) ==> #[trigger] val(r@, c, k).eq_spec(&val(self@, c, k).merge_spec(&val(other@, c, k))),
        @*/

        /*@extract yrs/src/ids.rs | impl<T: Merge> IdMapInner<T> | fn map | label=inner_map | skip=R6 | rules=INLINE(file=yrs/src/ids.rs;;container=impl<T: Merge> IdRanges<T>;;fn=iter;;body=self.0.iter();;call=ranges.iter();;to=ranges.0.iter())
        @ret r
        @sig
            requires
                wf_map(self@),
                forall|v: &T| #[trigger] call_requires(f, (v,)),
                forall|v: &T, w: U| #[trigger] call_ensures(f, (v,), w) ==> w.wf(),
            ensures
                wf_map(r@),
                forall|c: ClientID| #[trigger] r@.contains_key(c) == self@.contains_key(c),
                forall|c: ClientID| #[trigger] self@.contains_key(c) ==> seq_mapped(f, self@[c], r@[c]),
                forall|c: ClientID, k: int| #![trigger has_pt(r@, c, k)] #![trigger has_pt(self@, c, k)] has_pt(r@, c, k) <==> has_pt(self@, c, k),
        @start
            proof { axiom_client_id_key_model(); lemma_lift_basics(self.0@); }
        @loop 1 iter=it
            invariant
                iter_of(it.seq(), self.0@),
                wf_map(lift(self.0@)),
                forall|v: &T| #[trigger] call_requires(f, (v,)),
                forall|v: &T, w: U| #[trigger] call_ensures(f, (v,), w) ==> w.wf(),
                forall|c: ClientID| #[trigger] result.0@.contains_key(c) <==> visited(it.seq(), it.index@ as int, c),
                forall|c: ClientID| #[trigger] result.0@.contains_key(c) ==> self.0@.contains_key(c) && result.0@[c]@.len() > 0 && seq_mapped(f, self.0@[c]@, result.0@[c]@),
        @before 1 `stmt:let new_ranges`
            let ghost n = it.index@ as int;
            let ghost s = ranges@;
            proof {
                axiom_client_id_key_model();
                lemma_lift_basics(self.0@);
                assert(it.seq()[n] == (client, ranges));
                assert(self.0@.contains_key(*client) && self.0@[*client] == *ranges);
                assert(canon(s) && s.len() > 0);
            }
        @loop 2 iter=it2
            invariant
                it2.seq().len() == s.len(),
                forall|j: int| 0 <= j < s.len() ==> *(#[trigger] it2.seq()[j]) == s[j],
                canon(s),
                forall|v: &T| #[trigger] call_requires(f, (v,)),
                forall|v: &T, w: U| #[trigger] call_ensures(f, (v,), w) ==> w.wf(),
                seq_mapped_upto(f, s, it2.index@ as int, new_ranges@),
        @before 1 `stmt:call insert_with`
            let ghost i = it2.index@ as int;
            let ghost r0 = new_ranges@;
            proof {
                assert(*it2.seq()[i] == (*range, *value));
                assert(s[i] == (*range, *value));
                assert(s[i].1.wf());
            }
        @after 1 `stmt:call insert_with`
            proof {
                assert(exists|u: U| #[trigger] call_ensures(f, (&s[i].1,), u) && seq_inserted(r0, s[i].0, u, new_ranges@));
                let u = choose|u: U| #[trigger] call_ensures(f, (&s[i].1,), u) && seq_inserted(r0, s[i].0, u, new_ranges@);
                lemma_map_step(f, s, i, r0, u, new_ranges@);
            }
        @after 2 `stmt:for`
            proof { lemma_map_done(f, s, new_ranges@); }
            let ghost res0 = result.0@;
        @after 1 `stmt:call insert`
            proof {
                assert(result.0@ == res0.insert(*client, new_ranges));
                assert forall|c: ClientID| #[trigger] result.0@.contains_key(c) <==> visited(it.seq(), n + 1, c) by {
                    lemma_visited_step(it.seq(), n, c);
                    assert(res0.contains_key(c) <==> visited(it.seq(), n, c));
                }
            }
        @*/

        /*@extract yrs/src/ids.rs | impl<T: Merge> IdMapInner<T> | fn clients_mut | label=inner_clients_mut
        @ret r
        @sig
            ensures
                r@ == old(self).raw(),
                final(self).raw() == final(r)@,
        @*/
    }

    // ==========================================================================================
    // 5. IdSet
    // ==========================================================================================
    /*@extract yrs/src/id_set.rs | - | type IdRange @*/

    /*@extract yrs/src/id_set.rs | - | struct IdSet @*/

    impl IdSet {
        pub open spec fn view(&self) -> Map<ClientID, Seq<Ent<()>>> {
            self.0@
        }
    }

    /// `#[derive(Default)]` of IdSet, written out
    impl Default for IdSet {
        fn default() -> (r: Self)
            ensures r@ == Map::<ClientID, Seq<Ent<()>>>::empty(), wf_map(r@),
        {
            IdSet(IdMapInner::default())
        }
    }

    /// adding one (client, ranges) item is a union
    pub open spec fn step_is_union(a: Map<ClientID, Seq<Ent<()>>>, client: ClientID, range: Seq<Ent<()>>, r: Map<ClientID, Seq<Ent<()>>>) -> bool {
        forall|c: ClientID, k: int| #![trigger has_pt(r, c, k)] #![trigger has_pt(a, c, k)]
            has_pt(r, c, k) <==> has_pt(a, c, k) || (c == client && covers(range, k))
    }

    /// the clock interval [clock, clock + len)
    pub open spec fn in_block(clock: u32, len: u32, k: int) -> bool {
        clock <= k < clock + len
    }

    impl IdSet {
        /*@extract yrs/src/id_set.rs | impl IdSet | fn new | label=idset_new
        @ret r
        @sig
            ensures r@ == Map::<ClientID, Seq<Ent<()>>>::empty(), wf_map(r@),
        @*/

        /*@extract yrs/src/id_set.rs | impl IdSet | fn len | label=idset_len
        @ret r
        @sig
            ensures r == self@.len(),
        @*/

        /*@extract yrs/src/id_set.rs | impl IdSet | fn contains | label=idset_contains
        @ret r
        @sig
            requires wf_map(self@),
            ensures r == has_pt(self@, id.client, id.clock as int),
        @*/

        /*@extract yrs/src/id_set.rs | impl IdSet | fn is_empty | label=idset_is_empty
        @ret r
        @sig
            requires wf_map(self@),
            ensures
                r == (self@.len() == 0),
                r <==> forall|c: ClientID, k: int| !has_pt(self@, c, k),
        @*/

        /*@extract yrs/src/id_set.rs | impl IdSet | fn get | label=idset_get
        @ret r
        @sig
            ensures
                r.is_some() == self@.contains_key(*client_id),
                r.is_some() ==> r.unwrap()@ == self@[*client_id],
        @*/

        /*@extract yrs/src/id_set.rs | impl IdSet | fn insert | label=idset_insert
        @sig
            requires
                wf_map(old(self)@),
                // domain restriction: the block [clock, clock + len) lies in the u32 clock space
                id.clock + len <= u32::MAX,
            ensures
                // includes "no empty entry is stored" also for len == 0 (defect F-L2, repaired in /repo: early return)
                wf_map(final(self)@),
                same_except(final(self)@, old(self)@, id.client),
                forall|c: ClientID, k: int| #![trigger has_pt(final(self)@, c, k)] #![trigger has_pt(old(self)@, c, k)]
                    has_pt(final(self)@, c, k) <==> has_pt(old(self)@, c, k) || (c == id.client && in_block(id.clock, len, k)),
        @start
            proof { axiom_client_id_key_model(); lemma_lift_basics(self.0.raw()); }
        @end
            proof {
                let m0 = old(self).0.raw();
                let r1 = self.0.raw()[id.client];
                assert(self.0.raw() == m0.insert(id.client, r1));
                lemma_lift_insert(m0, id.client, r1);
                lemma_lift_basics(m0);
                let rg = id.clock..((id.clock + len) as u32);
                if len > 0 {
                    assert(inr(rg, id.clock as int));
                    assert(covers(r1@, id.clock as int));
                    lemma_nonempty_point(r1@);
                }
                assert forall|c: ClientID, k: int| #![trigger has_pt(self@, c, k)] #![trigger has_pt(old(self)@, c, k)]
                    has_pt(self@, c, k) <==> has_pt(old(self)@, c, k) || (c == id.client && in_block(id.clock, len, k)) by {
                    if c == id.client { assert(inr(rg, k) <==> in_block(id.clock, len, k)); }
                }
            }
        @*/

        /*@extract yrs/src/id_set.rs | impl IdSet | fn insert_range | label=idset_insert_range | rules=SUB(from=.entry(client);;to=.vx_entry(client))
        @sig
            requires
                wf_map(old(self)@),
                canon(range@),
            ensures
                // includes "no empty entry is stored" also for an empty `range` (defect F-L3, repaired in /repo: early return)
                wf_map(final(self)@),
                same_except(final(self)@, old(self)@, client),
                forall|c: ClientID, k: int| #![trigger has_pt(final(self)@, c, k)] #![trigger has_pt(old(self)@, c, k)]
                    has_pt(final(self)@, c, k) <==> has_pt(old(self)@, c, k) || (c == client && covers(range@, k)),
        @start
            let ghost rg = range@;
            proof { axiom_client_id_key_model(); lemma_lift_basics(self.0.raw()); }
        @end
            proof {
                let m0 = old(self).0.raw();
                let r1 = self.0.raw()[client];
                assert(self.0.raw() == m0.insert(client, r1));
                lemma_lift_insert(m0, client, r1);
                lemma_lift_basics(m0);
                if m0.contains_key(client) {
                    assert forall|k: int| #![trigger covers(r1@, k)] #![trigger covers(m0[client]@, k)] covers(r1@, k) <==> covers(m0[client]@, k) || covers(rg, k) by {
                        if covers(rg, k) {}
                    }
                    lemma_nonempty_point(m0[client]@);
                    let k0 = choose|k: int| covers(m0[client]@, k);
                    assert(covers(r1@, k0));
                    lemma_nonempty_point(r1@);
                }
            }
        @*/

        /*@extract yrs/src/id_set.rs | impl IdSet | fn remove_range | label=idset_remove_range
        @sig
            requires
                wf_map(old(self)@),
                // domain restriction (BlockRange::clock_range)
                range.clock + range.len <= u32::MAX,
            ensures
                wf_map(final(self)@),
                same_except(final(self)@, old(self)@, range.client),
                forall|c: ClientID, k: int| #![trigger has_pt(final(self)@, c, k)] #![trigger has_pt(old(self)@, c, k)]
                    has_pt(final(self)@, c, k) <==> has_pt(old(self)@, c, k) && !(c == range.client && in_block(range.clock, range.len, k)),
        @start
            let ghost m0 = self.0.raw();
            proof { axiom_client_id_key_model(); lemma_lift_basics(m0); }
        @end
            proof {
                let m1 = self.0.raw();
                let cl = range.client;
                let rg = range.clock..((range.clock + range.len) as u32);
                lemma_lift_basics(m1);
                if m0.contains_key(cl) {
                    if m1.contains_key(cl) {
                        let r1 = m1[cl];
                        assert(m1 == m0.insert(cl, r1));
                        lemma_lift_insert(m0, cl, r1);
                        assert forall|k: int| #![trigger covers(r1@, k)] #![trigger covers(m0[cl]@, k)] covers(r1@, k) <==> covers(m0[cl]@, k) && !inr(rg, k) by {
                            if inr(rg, k) {}
                        }
                    } else {
                        assert(m1 == m0.remove(cl));
                        lemma_lift_remove(m0, cl);
                        assert forall|k: int| covers(m0[cl]@, k) implies inr(rg, k) by {
                            if inr(rg, k) {}
                        }
                    }
                } else {
                    assert(m1 == m0);
                }
                assert forall|c: ClientID, k: int| #![trigger has_pt(self@, c, k)] #![trigger has_pt(old(self)@, c, k)]
                    has_pt(self@, c, k) <==> has_pt(old(self)@, c, k) && !(c == cl && in_block(range.clock, range.len, k)) by {
                    if c == cl { assert(inr(rg, k) <==> in_block(range.clock, range.len, k)); }
                }
            }
        @*/

        /*@extract yrs/src/id_set.rs | impl IdSet | fn merge_with | label=idset_merge_with
        @sig
            requires wf_map(old(self)@), wf_map(other@),
            ensures
                wf_map(final(self)@),
                forall|c: ClientID| #[trigger] client_merged(old(self)@, other@, final(self)@, c),
                forall|c: ClientID, k: int| #![trigger has_pt(final(self)@, c, k)] #![trigger has_pt(old(self)@, c, k)] #![trigger has_pt(other@, c, k)]
                    has_pt(final(self)@, c, k) <==> has_pt(old(self)@, c, k) || has_pt(other@, c, k),
        @*/

        /*@extract yrs/src/id_set.rs | impl IdSet | fn merge | label=idset_merge
        @ret r
        @sig
            requires wf_map(self@), wf_map(other@),
            ensures
                wf_map(r@),
                forall|c: ClientID| #[trigger] client_merged(self@, other@, r@, c),
                forall|c: ClientID, k: int| #![trigger has_pt(r@, c, k)] #![trigger has_pt(self@, c, k)] #![trigger has_pt(other@, c, k)]
                    has_pt(r@, c, k) <==> has_pt(self@, c, k) || has_pt(other@, c, k),
        @*/

        /*@extract yrs/src/id_set.rs | impl IdSet | fn diff_with | label=idset_diff_with
        @sig
            requires wf_map(old(self)@), wf_map(other@),
            ensures
                wf_map(final(self)@),
                forall|c: ClientID, k: int| #![trigger has_pt(final(self)@, c, k)] #![trigger has_pt(old(self)@, c, k)] #![trigger has_pt(other@, c, k)]
                    has_pt(final(self)@, c, k) <==> has_pt(old(self)@, c, k) && !has_pt(other@, c, k),
                forall|c: ClientID| !other@.contains_key(c) ==> (#[trigger] final(self)@.contains_key(c) == old(self)@.contains_key(c)) && (old(self)@.contains_key(c) ==> final(self)@[c] == old(self)@[c]),
        @*/

        /*@extract yrs/src/id_set.rs | impl IdSet | fn diff | label=idset_diff
        @ret r
        @sig
            requires wf_map(self@), wf_map(other@),
            ensures
                wf_map(r@),
                forall|c: ClientID, k: int| #![trigger has_pt(r@, c, k)] #![trigger has_pt(self@, c, k)] #![trigger has_pt(other@, c, k)]
                    has_pt(r@, c, k) <==> has_pt(self@, c, k) && !has_pt(other@, c, k),
        @*/

        /*@extract yrs/src/id_set.rs | impl IdSet | fn intersect_with | label=idset_intersect_with
        @sig
            requires wf_map(old(self)@), wf_map(other@),
            ensures
                wf_map(final(self)@),
                forall|c: ClientID, k: int| #![trigger has_pt(final(self)@, c, k)] #![trigger has_pt(old(self)@, c, k)] #![trigger has_pt(other@, c, k)]
                    has_pt(final(self)@, c, k) <==> has_pt(old(self)@, c, k) && has_pt(other@, c, k),
        @*/

        /*@extract yrs/src/id_set.rs | impl IdSet | fn intersect | label=idset_intersect
        @ret r
        @sig
            requires wf_map(self@), wf_map(other@),
            ensures
                wf_map(r@),
                forall|c: ClientID, k: int| #![trigger has_pt(r@, c, k)] #![trigger has_pt(self@, c, k)] #![trigger has_pt(other@, c, k)]
                    has_pt(r@, c, k) <==> has_pt(self@, c, k) && has_pt(other@, c, k),
        @*/

        /*@extract yrs/src/id_set.rs | impl IdSet | fn range_mut | label=idset_range_mut
        @ret r
        @sig
            requires wf_map(old(self)@),
            ensures
                r@ == (if old(self)@.contains_key(client_id) { old(self)@[client_id] } else { Seq::<Ent<()>>::empty() }),
                final(self)@ == old(self)@.insert(client_id, final(r)@),
                // FINDING F-L4 (by design of the API): the entry is created before the caller inserts anything; if the caller
                // leaves it empty (or never writes through the reference) an empty per-client entry stays in the set
                no_empty_entry(final(self)@),
        @start
            proof { axiom_client_id_key_model(); lemma_lift_basics(self.0.raw()); }
        @*/
    }

    // IdSet::from_iter<I1, I2>(iter): generic `IntoIterator` arguments (and IdRanges::from_ranges over a generic iterator) are
    // not ingestible: level C for the function.  Its loop body is lifted (R18) with the `from_ranges` result as a parameter:
    // the per-item step is what decides whether the result is a well-formed set (defects F-L5a/b, repaired in /repo: the
    // step now goes through insert_range, which merges and skips empty ranges).
    /*@extract yrs/src/id_set.rs | impl IdSet | region from_iter | arm=for (client_id, ranges) in iter | label=idset_from_iter_step
    @header
        fn idset_from_iter_step(set: &mut IdSet, client_id: ClientID, range: IdRange)
    @drop `let range = IdRanges::from_ranges(ranges);`
    @sig
        requires
            wf_map(old(set)@),
            // what IdRanges::from_ranges returns (built by `insert` from an empty IdRanges)
            canon(range@),
        ensures
            wf_map(final(set)@),
            // an item adds its points; a client listed twice accumulates
            step_is_union(old(set)@, client_id, range@, final(set)@),
    @*/

    impl IdSet {
    }

    // ==========================================================================================
    // 6. IdMap<A>  (yrs/src/id_map.rs)
    // ==========================================================================================
    /// R17 stand-in for `IdMap<A> { attrs: HashSet<ContentAttribute<A>>, inner: IdMapInner<ContentAttributes<A>> }`:
    /// the value type `ContentAttributes<A>` is an arbitrary `CA: Merge` (its own PartialEq/Merge impl is not covered here,
    /// A3), and the `attrs` interning cache (never read by the functions below) is dropped.
    pub struct IdMap<CA: Merge> {
        pub inner: IdMapInner<CA>,
    }

    impl<CA: Merge> IdMap<CA> {
        pub open spec fn view(&self) -> Map<ClientID, Seq<Ent<CA>>> {
            self.inner@
        }

        /*@extract yrs/src/id_map.rs | impl<A: PartialEq + Eq + Hash + Clone> IdMap<A> | fn is_empty | label=idmap_is_empty
        @ret r
        @sig
            requires wf_map(self@),
            ensures
                r == (self@.len() == 0),
                r <==> forall|c: ClientID, k: int| !has_pt(self@, c, k),
        @*/

        /*@extract yrs/src/id_map.rs | impl<A: PartialEq + Eq + Hash + Clone> IdMap<A> | fn contains | label=idmap_contains
        @ret r
        @sig
            requires wf_map(self@),
            ensures r == has_pt(self@, id.client, id.clock as int),
        @*/

        /*@extract yrs/src/id_map.rs | impl<A: PartialEq + Eq + Hash + Clone> IdMap<A> | fn remove | label=idmap_remove
        @sig
            requires
                wf_map(old(self)@),
                // domain restriction (BlockRange::clock_range)
                range.clock + range.len <= u32::MAX,
            ensures
                wf_map(final(self)@),
                same_except(final(self)@, old(self)@, range.client),
                forall|c: ClientID, k: int| #![trigger has_pt(final(self)@, c, k)] #![trigger has_pt(old(self)@, c, k)]
                    has_pt(final(self)@, c, k) <==> has_pt(old(self)@, c, k) && !(c == range.client && in_block(range.clock, range.len, k)),
                forall|c: ClientID, k: int| #![trigger has_pt(final(self)@, c, k)] #![trigger val(final(self)@, c, k)]
                    has_pt(final(self)@, c, k) ==> val(final(self)@, c, k) == val(old(self)@, c, k),
        @start
            let ghost m0 = self.inner.raw();
            proof { axiom_client_id_key_model(); lemma_lift_basics(m0); }
        @end
            proof {
                let m1 = self.inner.raw();
                let cl = range.client;
                let rg = range.clock..((range.clock + range.len) as u32);
                lemma_lift_basics(m1);
                if m0.contains_key(cl) {
                    if m1.contains_key(cl) {
                        let r1 = m1[cl];
                        assert(m1 == m0.insert(cl, r1));
                        lemma_lift_insert(m0, cl, r1);
                        assert forall|k: int| #![trigger covers(r1@, k)] #![trigger covers(m0[cl]@, k)] covers(r1@, k) <==> covers(m0[cl]@, k) && !inr(rg, k) by {
                            if inr(rg, k) {}
                        }
                    } else {
                        assert(m1 == m0.remove(cl));
                        lemma_lift_remove(m0, cl);
                        assert forall|k: int| covers(m0[cl]@, k) implies inr(rg, k) by {
                            if inr(rg, k) {}
                        }
                    }
                } else {
                    assert(m1 == m0);
                }
                assert forall|c: ClientID, k: int| #![trigger has_pt(self@, c, k)] #![trigger has_pt(old(self)@, c, k)]
                    has_pt(self@, c, k) <==> has_pt(old(self)@, c, k) && !(c == cl && in_block(range.clock, range.len, k)) by {
                    if c == cl { assert(inr(rg, k) <==> in_block(range.clock, range.len, k)); }
                }
            }
        @*/

        /*@extract yrs/src/id_map.rs | impl<A: PartialEq + Eq + Hash + Clone> IdMap<A> | fn intersect_with | label=idmap_intersect_with
        @sig
            requires wf_map(old(self)@), wf_map(other@),
            ensures
                wf_map(final(self)@),
                forall|c: ClientID, k: int| #![trigger has_pt(final(self)@, c, k)] #![trigger has_pt(old(self)@, c, k)] #![trigger has_pt(other@, c, k)]
                    has_pt(final(self)@, c, k) <==> has_pt(old(self)@, c, k) && has_pt(other@, c, k),
                forall|c: ClientID, k: int| has_pt(final(self)@, c, k) ==> #[trigger] val(final(self)@, c, k).eq_spec(&val(old(self)@, c, k).merge_spec(&val(other@, c, k))),
        @*/

        /*@extract yrs/src/id_map.rs | impl<A: PartialEq + Eq + Hash + Clone> IdMap<A> | fn as_id_set | label=idmap_as_id_set
        @ret r
        @sig
            requires wf_map(self@),
            ensures
                wf_map(r@),
                forall|c: ClientID, k: int| #![trigger has_pt(r@, c, k)] #![trigger has_pt(self@, c, k)] has_pt(r@, c, k) <==> has_pt(self@, c, k),
        // Verus supports only variable patterns for closure parameters: `|_|` is spelled `|_v: &CA|`
        @closure 1 `|_v: &CA| -> (u: ())`
            ensures true,
        @*/
    }

    // IdMap::insert / IdMap::merge_with touch the `attrs` interning cache (HashSet, ensure_attrs, ContentAttributes(..)): the whole
    // function body is lifted (R18) with those statements dropped (@drop) and `content_attrs` / `attrs.is_empty()` as parameters.
    /*@extract yrs/src/id_map.rs | impl<A: PartialEq + Eq + Hash + Clone> IdMap<A> | region insert | arm=pub fn insert(&mut self, range: BlockRange, attrs: Vec<ContentAttribute<A>>) | label=idmap_insert | rules=SUB(from=attrs.is_empty();;to=attrs_is_empty) SUB(from=self.inner;;to=this.inner)
    @header
        fn idmap_insert<CA: Merge>(this: &mut IdMap<CA>, range: BlockRange, attrs_is_empty: bool, content_attrs: CA)
    @drop `let mut attrs = attrs;`
    @drop `self.ensure_attrs(&mut attrs);`
    @drop `let content_attrs = ContentAttributes(attrs.into());`
    @sig
        requires
            wf_map(old(this)@),
            content_attrs.wf(),
            // domain restriction (BlockRange::clock_range)
            range.clock + range.len <= u32::MAX,
        ensures
            // the `range.len == 0` guard keeps the empty-entry defect of IdMapInner::insert_range (F-L1) unreachable from here
            wf_map(final(this)@),
            same_except(final(this)@, old(this)@, range.client),
            // (an insert without attributes is a no-op by design)
            forall|c: ClientID, k: int| #![trigger has_pt(final(this)@, c, k)] #![trigger has_pt(old(this)@, c, k)]
                has_pt(final(this)@, c, k) <==> has_pt(old(this)@, c, k) || (!attrs_is_empty && c == range.client && in_block(range.clock, range.len, k)),
            attrs_is_empty ==> final(this)@ == old(this)@,
            !attrs_is_empty ==> forall|k: int| !has_pt(old(this)@, range.client, k) && in_block(range.clock, range.len, k) ==> #[trigger] val(final(this)@, range.client, k).eq_spec(&content_attrs),
            !attrs_is_empty ==> forall|k: int| has_pt(old(this)@, range.client, k) && in_block(range.clock, range.len, k) ==> #[trigger] val(final(this)@, range.client, k).eq_spec(&val(old(this)@, range.client, k).merge_spec(&content_attrs)),
            !attrs_is_empty ==> forall|k: int| has_pt(old(this)@, range.client, k) && !in_block(range.clock, range.len, k) ==> #[trigger] val(final(this)@, range.client, k).eq_spec(&val(old(this)@, range.client, k)),
    @start
        let ghost rg = range.clock..((range.clock + range.len) as u32);
        proof {
            assert forall|k: int| inr(rg, k) <==> in_block(range.clock, range.len, k) by {}
        }
    @before 1 `stmt:return`
        proof {
            // nothing changes: `==` is reflexive on the (well-formed) stored values
            assert forall|k: int| has_pt(this@, range.client, k) implies #[trigger] val(this@, range.client, k).eq_spec(&val(this@, range.client, k)) by {
                lemma_val_wf(this@[range.client], k);
                val(this@, range.client, k).law_eq_refl();
            }
        }
    @*/

    /*@extract yrs/src/id_map.rs | impl<A: PartialEq + Eq + Hash + Clone> IdMap<A> | region merge_with | arm=pub fn merge_with(&mut self, other: Self) | label=idmap_merge_with | rules=SUB(from=self.inner;;to=this.inner)
    @header
        fn idmap_merge_with<CA: Merge>(this: &mut IdMap<CA>, other: IdMap<CA>)
    @drop `for attr in other.attrs`
    @sig
        requires wf_map(old(this)@), wf_map(other@),
        ensures
            wf_map(final(this)@),
            forall|c: ClientID| #[trigger] client_merged(old(this)@, other@, final(this)@, c),
            forall|c: ClientID, k: int| #![trigger has_pt(final(this)@, c, k)] #![trigger has_pt(old(this)@, c, k)] #![trigger has_pt(other@, c, k)]
                has_pt(final(this)@, c, k) <==> has_pt(old(this)@, c, k) || has_pt(other@, c, k),
            forall|c: ClientID, k: int| has_pt(old(this)@, c, k) && !has_pt(other@, c, k) ==> #[trigger] val(final(this)@, c, k).eq_spec(&val(old(this)@, c, k)),
            forall|c: ClientID, k: int| !has_pt(old(this)@, c, k) && has_pt(other@, c, k) ==> #[trigger] val(final(this)@, c, k).eq_spec(&val(other@, c, k)),
            forall|c: ClientID, k: int| has_pt(old(this)@, c, k) && has_pt(other@, c, k) ==> #[trigger] val(final(this)@, c, k).eq_spec(&val(old(this)@, c, k).merge_spec(&val(other@, c, k))),
    @*/

    // ---- impl From<IdMap<A>> for IdSet ------------------------------------------------------------------------------
    impl<T: Merge> IdMapInner<T> {
        /*@extract yrs/src/ids.rs | impl<T: Merge> IdMapInner<T> | fn clients | label=inner_clients
        @ret r
        @sig
            ensures r@ == self.raw(),
        @*/
    }

    /// `set` restricted to the clients in `done` has exactly the points of `m`, canonically; no other client is present
    pub open spec fn converted<CA: Merge>(m: Map<ClientID, Seq<Ent<CA>>>, set: Map<ClientID, Seq<Ent<()>>>, done: Set<ClientID>) -> bool {
        forall|c: ClientID| #![trigger set.contains_key(c)] #![trigger done.contains(c)]
            (set.contains_key(c) <==> done.contains(c))
            && (done.contains(c) ==> m.contains_key(c) && canon(set[c]) && set[c].len() > 0
                && forall|k: int| #![trigger covers(set[c], k)] #![trigger covers(m[c], k)] covers(set[c], k) <==> covers(m[c], k))
    }

    // a trait-method implementation cannot carry `requires` (the representation invariant of the argument): the body of
    // `<IdSet as From<IdMap<A>>>::from` is lifted whole (R18) into a free function with the same parameter
    /*@extract yrs/src/id_map.rs | impl<A: PartialEq + Eq + Hash + Clone> From<IdMap<A>> for IdSet | region from | arm=fn from(value: IdMap<A>) -> Self | label=idset_from_idmap | skip=R6 | rules=SUB(from=in value.inner.clients();;to=in value.inner.clients().iter()) INLINE(file=yrs/src/ids.rs;;container=impl<T: Merge> IdRanges<T>;;fn=iter;;body=self.0.iter();;call=ranges.iter();;to=ranges.0.iter())
        @header
            fn idset_from_idmap<CA: Merge>(value: IdMap<CA>) -> (res: IdSet)
        @sig
            requires wf_map(value@),
            ensures
                wf_map(res@),
                forall|c: ClientID, k: int| #![trigger has_pt(res@, c, k)] #![trigger has_pt(value@, c, k)] has_pt(res@, c, k) <==> has_pt(value@, c, k),
        @start
            let ghost mut done = Set::<ClientID>::empty();
            proof { axiom_client_id_key_model(); lemma_lift_basics(value.inner.raw()); }
        @loop 1 iter=it
            invariant
                iter_of(it.seq(), value.inner.raw()),
                wf_map(value@),
                converted(value@, set@, done),
                forall|c: ClientID| done.contains(c) <==> visited(it.seq(), it.index@ as int, c),
        @before 1 `stmt:let range`
            let ghost n = it.index@ as int;
            let ghost s = ranges@;
            let ghost set0 = set@;
            proof {
                axiom_client_id_key_model();
                lemma_lift_basics(value.inner.raw());
                assert(it.seq()[n] == (client, ranges));
                assert(value.inner.raw().contains_key(*client) && value.inner.raw()[*client] == *ranges);
                assert(value@.contains_key(*client) && value@[*client] == s);
                assert(canon(s) && s.len() > 0);
                if done.contains(*client) {
                    let i = choose|i: int| 0 <= i < n && *(#[trigger] it.seq()[i]).0 == *client;
                    lemma_iter_keys_distinct(it.seq(), value.inner.raw(), i, n);
                }
                assert(!set0.contains_key(*client));
            }
        @loop 2 iter=it2
            invariant
                it2.seq().len() == s.len(),
                forall|j: int| 0 <= j < s.len() ==> *(#[trigger] it2.seq()[j]) == s[j],
                canon(s),
                canon(range@),
                forall|k: int| #![trigger covers(range@, k)] #![trigger covers_upto(s, it2.index@ as int, k)] covers(range@, k) <==> covers_upto(s, it2.index@ as int, k),
        @before 1 `stmt:call insert`
            let ghost i = it2.index@ as int;
            let ghost g0 = range@;
            proof { assert(*it2.seq()[i] == s[i]); }
        @after 1 `stmt:call insert`
            proof {
                assert forall|k: int| #![trigger covers(range@, k)] #![trigger covers_upto(s, i + 1, k)] covers(range@, k) <==> covers_upto(s, i + 1, k) by {
                    assert(covers(range@, k) <==> covers(g0, k) || inr(s[i].0, k));
                    if covers_upto(s, i + 1, k) {
                        let j = choose|j: int| 0 <= j < i + 1 && j < s.len() && #[trigger] inr(s[j].0, k);
                        if j < i { assert(covers_upto(s, i, k)); }
                    }
                    if covers_upto(s, i, k) {
                        let j = choose|j: int| 0 <= j < i && j < s.len() && #[trigger] inr(s[j].0, k);
                        assert(0 <= j < i + 1 && inr(s[j].0, k));
                    }
                    if inr(s[i].0, k) { assert(0 <= i < i + 1 && inr(s[i].0, k)); }
                }
            }
        @after 2 `stmt:for`
            proof {
                let r1 = range@;
                assert forall|k: int| #![trigger covers(r1, k)] #![trigger covers(s, k)] covers(r1, k) <==> covers(s, k) by {
                    assert(covers(r1, k) <==> covers_upto(s, s.len() as int, k));
                    if covers(s, k) {
                        let j = idx_of(s, k);
                        assert(inr(s[j].0, k));
                        assert(covers_upto(s, s.len() as int, k));
                    }
                    if covers_upto(s, s.len() as int, k) {
                        let j = choose|j: int| 0 <= j < s.len() && j < s.len() && #[trigger] inr(s[j].0, k);
                        assert(inr(s[j].0, k));
                    }
                }
                lemma_nonempty_point(s);
                let k0 = choose|k: int| covers(s, k);
                assert(covers(r1, k0));
                lemma_nonempty_point(r1);
                // the borrow handed out by range_mut ends here
                assert(set@ == set0.insert(*client, r1));
                let d2 = done.insert(*client);
                assert forall|c: ClientID| d2.contains(c) <==> visited(it.seq(), n + 1, c) by {
                    lemma_visited_step(it.seq(), n, c);
                }
                done = d2;
            }
        @*/

    // ==========================================================================================
    // 7. <IdSet as DeleteSet>::from_store  (yrs/src/id_set.rs)
    // ==========================================================================================
    // R17 stand-ins for the block layer.  They keep exactly what from_store observes:
    //   Block            the REAL enum (Item / GC / Skip) with the REAL `is_deleted`, `clock_range` (first clock, LAST clock
    //                    inclusive) extracted from block.rs
    //   Item             stand-in with the three things read here: `id`, `len` and the deleted flag
    //                    (real `is_deleted` = `self.info.is_deleted()`, a flag test); the REAL `Item::clock_range` is extracted
    //   BlockRef         a BlockRef is a reference to its block (real: `unsafe { &*self.cell.get() }`): `as_ref` is the identity,
    //                    `as_item` is the real body
    //   ClientBlockList  a Vec of blocks (real: Vec<UnsafeCell<Block>>); `iter()` is a newtype over the slice iterator
    //                    (ClientBlockListIter: `next` = inner `next` + BlockRef::new), inlined after checking its body
    //   BlockStore       client -> ClientBlockList map.  The real map is a HashMap with a custom hasher; it is modelled by
    //                    a BTreeMap because only "iter() yields every stored pair exactly once" is used (no order).
    pub struct Item {
        pub id: ID,
        pub len: u32,
        pub deleted: bool,
    }

    impl Item {
        pub fn is_deleted(&self) -> (r: bool)
            ensures r == self.deleted,
        {
            self.deleted
        }

        /*@extract yrs/src/block.rs | impl Item | fn clock_range | label=item_clock_range
        @ret r
        @sig
            requires self.len >= 1, self.id.clock + self.len <= u32::MAX,
            ensures r.0 == self.id.clock, r.1 == self.id.clock + self.len - 1,
        @*/
    }

    /*@extract yrs/src/block.rs | - | enum Block @*/

    impl Block {
        pub open spec fn spec_deleted(&self) -> bool {
            match self {
                Block::Item(item) => item.deleted,
                Block::GC(_) => true,
                Block::Skip(_) => false,
            }
        }

        pub open spec fn first(&self) -> int {
            match self {
                Block::Item(item) => item.id.clock as int,
                Block::GC(r) => r.clock as int,
                Block::Skip(r) => r.clock as int,
            }
        }

        pub open spec fn length(&self) -> int {
            match self {
                Block::Item(item) => item.len as int,
                Block::GC(r) => r.len as int,
                Block::Skip(r) => r.len as int,
            }
        }

        /// domain restriction: a block has at least one clock and its clocks fit in u32
        pub open spec fn ok(&self) -> bool {
            self.length() >= 1 && self.first() + self.length() <= u32::MAX
        }

        pub fn as_ref(&self) -> (r: &Block)
            ensures r == self,
        {
            self
        }

        /*@extract yrs/src/block.rs | impl<'a> BlockRef<'a> | fn as_item | label=blockref_as_item | rules=SUB(from=&'a Item;;to=&Item)
        @ret r
        @sig
            ensures r == (match self { Block::Item(item) => Some(&**item), _ => None::<&Item> }),
        @*/

        /*@extract yrs/src/block.rs | impl Block | fn is_deleted | label=block_is_deleted
        @ret r
        @sig
            ensures r == self.spec_deleted(),
        @*/

        /*@extract yrs/src/block.rs | impl Block | fn clock_range | label=block_clock_range
        @ret r
        @sig
            requires self.ok(),
            ensures r.0 == self.first(), r.1 == self.first() + self.length() - 1,
        @*/
    }

    pub struct ClientBlockList {
        pub inner: Vec<Block>,
    }

    impl ClientBlockList {
        /*@extract yrs/src/block_store.rs | impl ClientBlockList | fn len | label=blocklist_len
        @ret r
        @sig
            ensures r == self.inner@.len(),
        @*/
    }

    pub struct BlockStore {
        pub clients: BTreeMap<ClientID, ClientBlockList>,
    }

    /// clock `k` lies in the deleted block `b`
    pub open spec fn blk_covers(b: Block, k: int) -> bool {
        b.spec_deleted() && b.first() <= k < b.first() + b.length()
    }

    /// clock `k` lies in a deleted block among the first `n` of the list
    pub open spec fn deleted_upto(bs: Seq<Block>, n: int, k: int) -> bool {
        exists|i: int| 0 <= i < n && i < bs.len() && #[trigger] blk_covers(bs[i], k)
    }

    /// the set of deleted points of a store
    pub open spec fn store_deleted(st: Map<ClientID, ClientBlockList>, c: ClientID, k: int) -> bool {
        st.contains_key(c) && deleted_upto(st[c].inner@, st[c].inner@.len() as int, k)
    }

    /// domain restriction: every block has at least one clock and its clocks fit in u32 (so that `last + 1` does)
    pub open spec fn store_ok(st: Map<ClientID, ClientBlockList>) -> bool {
        forall|c: ClientID, i: int| st.contains_key(c) && 0 <= i < st[c].inner@.len() ==> (#[trigger] st[c].inner@[i]).ok()
    }

    /// what from_store has established for a visited client `c`
    pub open spec fn client_deletes(bs: Seq<Block>, set: Map<ClientID, Seq<Ent<()>>>, c: ClientID) -> bool {
        if set.contains_key(c) {
            canon(set[c]) && set[c].len() > 0
                && forall|k: int| #![trigger covers(set[c], k)] #![trigger deleted_upto(bs, bs.len() as int, k)] covers(set[c], k) <==> deleted_upto(bs, bs.len() as int, k)
        } else {
            forall|k: int| !(#[trigger] deleted_upto(bs, bs.len() as int, k))
        }
    }

    pub open spec fn from_store_inv(st: Map<ClientID, ClientBlockList>, set: Map<ClientID, Seq<Ent<()>>>, done: Set<ClientID>) -> bool {
        forall|c: ClientID| #![trigger set.contains_key(c)] #![trigger done.contains(c)]
            (set.contains_key(c) ==> done.contains(c))
            && (done.contains(c) ==> st.contains_key(c) && client_deletes(st[c].inner@, set, c))
    }

    pub proof fn lemma_deleted_step(bs: Seq<Block>, n: int, k: int)
        requires 0 <= n < bs.len(),
        ensures deleted_upto(bs, n + 1, k) <==> deleted_upto(bs, n, k) || blk_covers(bs[n], k),
    {
        if deleted_upto(bs, n + 1, k) {
            let i = choose|i: int| 0 <= i < n + 1 && i < bs.len() && #[trigger] blk_covers(bs[i], k);
            if i < n { assert(deleted_upto(bs, n, k)); }
        }
        if deleted_upto(bs, n, k) {
            let i = choose|i: int| 0 <= i < n && i < bs.len() && #[trigger] blk_covers(bs[i], k);
            assert(0 <= i < n + 1 && blk_covers(bs[i], k));
        }
        if blk_covers(bs[n], k) { assert(0 <= n < n + 1 && blk_covers(bs[n], k)); }
    }

    impl IdSet {
        // Verus has no reference patterns: `for (&client, blocks)` is spelled `for (client, blocks)` with `*client` at its one use
        /*@extract yrs/src/id_set.rs | impl DeleteSet for IdSet | fn from_store | label=idset_from_store | skip=R6 | rules=SUB(from=for (&client, blocks);;to=for (client, blocks)) SUB(from=.insert(client, deletes);;to=.insert(*client, deletes)) INLINE(file=yrs/src/block_store.rs;;container=impl BlockStore;;fn=iter;;body=self.clients.iter();;call=store.iter();;to=store.clients.iter()) INLINE(file=yrs/src/block_store.rs;;container=impl ClientBlockList;;fn=iter;;body=ClientBlockListIter(self.inner.iter());;call=blocks.iter();;to=blocks.inner.iter())
        @ret res
        @sig
            requires store_ok(store.clients@),
            ensures
                wf_map(res@),
                forall|c: ClientID, k: int| #![trigger has_pt(res@, c, k)] #![trigger store_deleted(store.clients@, c, k)] has_pt(res@, c, k) <==> store_deleted(store.clients@, c, k),
        @start
            let ghost st = store.clients@;
            let ghost mut done = Set::<ClientID>::empty();
            proof { axiom_client_id_key_model(); }
        @loop 1 iter=it
            invariant
                st == store.clients@,
                store_ok(st),
                iter_of(it.seq(), st),
                canon_all(set@),
                from_store_inv(st, set@, done),
                forall|c: ClientID| done.contains(c) <==> visited(it.seq(), it.index@ as int, c),
        @before 1 `stmt:let deletes`
            let ghost n = it.index@ as int;
            let ghost bs = blocks.inner@;
            let ghost set0 = set@;
            let ghost raw0 = set.0.raw();
            proof {
                axiom_client_id_key_model();
                lemma_lift_basics(raw0);
                assert(*it.seq()[n].0 == *client && it.seq()[n].1 == blocks);
                assert(st.contains_key(*client) && st[*client] == *blocks);
                if done.contains(*client) {
                    let i = choose|i: int| 0 <= i < n && *(#[trigger] it.seq()[i]).0 == *client;
                    lemma_iter_keys_distinct(it.seq(), st, i, n);
                }
                assert(!set0.contains_key(*client));
            }
        @loop 2 iter=it2
            invariant
                it2.seq().len() == bs.len(),
                forall|j: int| 0 <= j < bs.len() ==> *(#[trigger] it2.seq()[j]) == bs[j],
                forall|j: int| 0 <= j < bs.len() ==> (#[trigger] bs[j]).ok(),
                canon(deletes@),
                forall|k: int| #![trigger covers(deletes@, k)] #![trigger deleted_upto(bs, it2.index@ as int, k)] covers(deletes@, k) <==> deleted_upto(bs, it2.index@ as int, k),
        @before 1 `stmt:let block`
            let ghost i = it2.index@ as int;
            let ghost g0 = deletes@;
            proof { assert(*it2.seq()[i] == bs[i]); }
        @after 1 `stmt:if`
            proof {
                assert forall|k: int| #![trigger covers(deletes@, k)] #![trigger deleted_upto(bs, i + 1, k)] covers(deletes@, k) <==> deleted_upto(bs, i + 1, k) by {
                    lemma_deleted_step(bs, i, k);
                    if bs[i].spec_deleted() {
                        let rg = (bs[i].first() as u32)..((bs[i].first() + bs[i].length()) as u32);
                        assert(inr(rg, k) <==> blk_covers(bs[i], k));
                        assert(covers(deletes@, k) <==> covers(g0, k) || inr(rg, k));
                    }
                }
            }
        @after 2 `stmt:for`
            let ghost d1 = deletes@;
            proof {
                if d1.len() == 0 {
                    assert forall|k: int| !(#[trigger] deleted_upto(bs, bs.len() as int, k)) by {
                        if deleted_upto(bs, bs.len() as int, k) {
                            assert(covers(d1, k));
                            let j = idx_of(d1, k);
                            assert(inr(d1[j].0, k));
                        }
                    }
                }
            }
        @after 2 `stmt:if`
            proof {
                let raw1 = set.0.raw();
                lemma_lift_basics(raw1);
                if d1.len() > 0 {
                    let x = raw1[*client];
                    assert(raw1 == raw0.insert(*client, x));
                    lemma_lift_insert(raw0, *client, x);
                    assert(set@ == set0.insert(*client, d1));
                } else {
                    assert(set@ == set0);
                }
                let d2 = done.insert(*client);
                assert forall|c: ClientID| d2.contains(c) <==> visited(it.seq(), n + 1, c) by {
                    lemma_visited_step(it.seq(), n, c);
                }
                assert(client_deletes(bs, set@, *client));
                assert forall|c: ClientID| #![trigger set@.contains_key(c)] #![trigger d2.contains(c)]
                    (set@.contains_key(c) ==> d2.contains(c))
                    && (d2.contains(c) ==> st.contains_key(c) && client_deletes(st[c].inner@, set@, c)) by {
                    if c != *client {
                        assert(set@.contains_key(c) == set0.contains_key(c));
                        if done.contains(c) { assert(client_deletes(st[c].inner@, set0, c)); }
                    }
                }
                done = d2;
            }
        @*/
    }

    // ==========================================================================================
    // 8. the remaining public IdMap operations: Diff::diff_with (x2), merge_many, from_set, filter, attributions
    // ==========================================================================================
    // trait-method impls cannot carry `requires`: the two `Diff::diff_with` bodies are lifted whole (R18) into free functions
    /*@extract yrs/src/id_map.rs | impl<A: PartialEq + Eq + Hash + Clone> Diff<IdSet> for IdMap<A> | region diff_with | arm=fn diff_with(&mut self, other: &IdSet) | label=idmap_diff_with_set | rules=SUB(from=self.inner;;to=this.inner)
    @header
        fn idmap_diff_with_set<CA: Merge>(this: &mut IdMap<CA>, other: &IdSet)
    @sig
        requires wf_map(old(this)@), wf_map(other@),
        ensures
            wf_map(final(this)@),
            forall|c: ClientID, k: int| #![trigger has_pt(final(this)@, c, k)] #![trigger has_pt(old(this)@, c, k)] #![trigger has_pt(other@, c, k)]
                has_pt(final(this)@, c, k) <==> has_pt(old(this)@, c, k) && !has_pt(other@, c, k),
            forall|c: ClientID, k: int| #![trigger has_pt(final(this)@, c, k)] #![trigger val(final(this)@, c, k)]
                has_pt(final(this)@, c, k) ==> val(final(this)@, c, k) == val(old(this)@, c, k),
    @*/

    /*@extract yrs/src/id_map.rs | impl<A, U> Diff<IdMap<U>> for IdMap<A> where A: Eq + Hash + Clone, U: Eq + Hash + Clone, | region diff_with | arm=fn diff_with(&mut self, other: &IdMap<U>) | label=idmap_diff_with_map | rules=SUB(from=self.inner;;to=this.inner)
    @header
        fn idmap_diff_with_map<CA: Merge, CU: Merge>(this: &mut IdMap<CA>, other: &IdMap<CU>)
    @sig
        requires wf_map(old(this)@), wf_map(other@),
        ensures
            wf_map(final(this)@),
            forall|c: ClientID, k: int| #![trigger has_pt(final(this)@, c, k)] #![trigger has_pt(old(this)@, c, k)] #![trigger has_pt(other@, c, k)]
                has_pt(final(this)@, c, k) <==> has_pt(old(this)@, c, k) && !has_pt(other@, c, k),
            forall|c: ClientID, k: int| #![trigger has_pt(final(this)@, c, k)] #![trigger val(final(this)@, c, k)]
                has_pt(final(this)@, c, k) ==> val(final(this)@, c, k) == val(old(this)@, c, k),
    @*/

    impl<CA: Merge> IdMap<CA> {
        // the `attrs` interning cache field does not exist in the stand-in struct
        /*@extract yrs/src/id_map.rs | impl<A: PartialEq + Eq + Hash + Clone> IdMap<A> | fn new | label=idmap_new | rules=SUB(from=attrs: Default::default(),;;to=)
        @ret r
        @sig
            ensures r@ == Map::<ClientID, Seq<Ent<CA>>>::empty(), wf_map(r@),
        @*/
    }

    /// some map among the first `n` has the point
    pub open spec fn any_has<CA: Merge>(ms: Seq<IdMap<CA>>, n: int, c: ClientID, k: int) -> bool {
        exists|i: int| 0 <= i < n && i < ms.len() && #[trigger] has_pt(ms[i]@, c, k)
    }

    pub proof fn lemma_any_has_step<CA: Merge>(ms: Seq<IdMap<CA>>, n: int, c: ClientID, k: int)
        requires 0 <= n < ms.len(),
        ensures any_has(ms, n + 1, c, k) <==> any_has(ms, n, c, k) || has_pt(ms[n]@, c, k),
    {
        if any_has(ms, n + 1, c, k) {
            let i = choose|i: int| 0 <= i < n + 1 && i < ms.len() && #[trigger] has_pt(ms[i]@, c, k);
            if i < n { assert(any_has(ms, n, c, k)); }
        }
        if any_has(ms, n, c, k) {
            let i = choose|i: int| 0 <= i < n && i < ms.len() && #[trigger] has_pt(ms[i]@, c, k);
            assert(0 <= i < n + 1 && has_pt(ms[i]@, c, k));
        }
        if has_pt(ms[n]@, c, k) { assert(0 <= n < n + 1 && has_pt(ms[n]@, c, k)); }
    }

    /*@extract yrs/src/id_map.rs | impl<A: PartialEq + Eq + Hash + Clone> IdMap<A> | region merge_many | arm=pub fn merge_many(id_maps: &[Self]) -> Self | label=idmap_merge_many
    @header
        fn idmap_merge_many<CA: Merge>(id_maps: &[IdMap<CA>]) -> (res: IdMap<CA>)
    @drop `for attr in &map.attrs`
    @sig
        requires forall|i: int| 0 <= i < id_maps@.len() ==> wf_map(#[trigger] id_maps@[i]@),
        ensures
            wf_map(res@),
            // the union of all the maps (the attribute at a point is the accumulated merge; only the point set is stated)
            forall|c: ClientID, k: int| #![trigger has_pt(res@, c, k)] #![trigger any_has(id_maps@, id_maps@.len() as int, c, k)]
                has_pt(res@, c, k) <==> any_has(id_maps@, id_maps@.len() as int, c, k),
    @loop 1 iter=it
        invariant
            it.seq().len() == id_maps@.len(),
            forall|i: int| 0 <= i < id_maps@.len() ==> *(#[trigger] it.seq()[i]) == id_maps@[i],
            forall|i: int| 0 <= i < id_maps@.len() ==> wf_map(#[trigger] id_maps@[i]@),
            wf_map(result@),
            forall|c: ClientID, k: int| #![trigger has_pt(result@, c, k)] #![trigger any_has(id_maps@, it.index@ as int, c, k)]
                has_pt(result@, c, k) <==> any_has(id_maps@, it.index@ as int, c, k),
    @before 1 `stmt:call merge_with`
        let ghost n = it.index@ as int;
        let ghost r0 = result@;
        proof {
            assert(*it.seq()[n] == id_maps@[n]);
            assert(wf_map(id_maps@[n]@));
        }
    @after 1 `stmt:call merge_with`
        proof {
            assert forall|c: ClientID, k: int| #![trigger has_pt(result@, c, k)] #![trigger any_has(id_maps@, n + 1, c, k)]
                has_pt(result@, c, k) <==> any_has(id_maps@, n + 1, c, k) by {
                lemma_any_has_step(id_maps@, n, c, k);
                assert(has_pt(result@, c, k) <==> has_pt(r0, c, k) || has_pt(id_maps@[n]@, c, k));
            }
        }
    @*/

    // ---- IdMap::from_set ---------------------------------------------------------------------------------------------------
    // The two wrapper iterators are inlined after checking their constructors (R17):
    //   IdSet::iter()  = Iter(self.0.clients().iter()),   Iter::next       = inner next mapped by |(k, v)| (k, Ranges(v))
    //   Ranges::iter() = RangesIter(self.0.inner().iter()), RangesIter::next = inner next mapped by |(r, _)| r
    // so `for (client, ranges) in id_set.iter()` visits the pairs of the client map and `for range in ranges.iter()` the
    // ranges of the entries of one client.  Statements that build `content_attrs` through the `attrs` cache are dropped.

    /// `r` has the clocks of the first `n` entries of `a`, all carrying (a value equal to) `v`
    pub open spec fn seq_const_upto<CA: Merge>(a: Seq<Ent<()>>, n: int, v: CA, r: Seq<Ent<CA>>) -> bool {
        &&& canon(r)
        &&& forall|k: int| #![trigger covers(r, k)] #![trigger covers_upto(a, n, k)] covers(r, k) <==> covers_upto(a, n, k)
        &&& forall|k: int| covers(r, k) ==> #[trigger] val_at(r, k).eq_spec(&v)
    }

    pub proof fn lemma_const_step<CA: Merge>(a: Seq<Ent<()>>, n: int, v: CA, r0: Seq<Ent<CA>>, r1: Seq<Ent<CA>>)
        requires
            canon(a),
            0 <= n < a.len(),
            v.wf(),
            seq_const_upto(a, n, v, r0),
            seq_inserted(r0, a[n].0, v, r1),
        ensures
            seq_const_upto(a, n + 1, v, r1),
    {
        let rg = a[n].0;
        assert forall|k: int| inr(rg, k) implies !covers_upto(a, n, k) by {
            if covers_upto(a, n, k) {
                let j = choose|j: int| 0 <= j < n && j < a.len() && #[trigger] inr(a[j].0, k);
                assert(a[j].0.end <= a[n].0.start);
            }
        }
        assert forall|k: int| #![trigger covers(r1, k)] #![trigger covers_upto(a, n + 1, k)] covers(r1, k) <==> covers_upto(a, n + 1, k) by {
            if covers_upto(a, n + 1, k) {
                let j = choose|j: int| 0 <= j < n + 1 && j < a.len() && #[trigger] inr(a[j].0, k);
                if j < n { assert(covers_upto(a, n, k)); }
            }
            if covers_upto(a, n, k) {
                let j = choose|j: int| 0 <= j < n && j < a.len() && #[trigger] inr(a[j].0, k);
                assert(0 <= j < n + 1 && inr(a[j].0, k));
            }
            if inr(rg, k) { assert(inr(a[n].0, k)); }
        }
        assert forall|k: int| covers(r1, k) implies #[trigger] val_at(r1, k).eq_spec(&v) by {
            if inr(rg, k) {
                assert(!covers(r0, k));
            } else {
                assert(covers(r0, k));
                lemma_val_wf(r1, k);
                lemma_val_wf(r0, k);
                val_at(r1, k).law_eq_trans(&val_at(r0, k), &v);
            }
        }
    }

    pub proof fn lemma_upto_all<T>(a: Seq<Ent<T>>, k: int)
        ensures covers_upto(a, a.len() as int, k) <==> covers(a, k),
    {
        if covers(a, k) {
            let j = idx_of(a, k);
            assert(inr(a[j].0, k));
        }
        if covers_upto(a, a.len() as int, k) {
            let j = choose|j: int| 0 <= j < a.len() && j < a.len() && #[trigger] inr(a[j].0, k);
            assert(inr(a[j].0, k));
        }
    }

    /// what from_set has built for the clients in `done`
    pub open spec fn from_set_inv<CA: Merge>(src: Map<ClientID, Seq<Ent<()>>>, v: CA, m: Map<ClientID, Seq<Ent<CA>>>, done: Set<ClientID>) -> bool {
        forall|c: ClientID| #![trigger m.contains_key(c)] #![trigger done.contains(c)]
            (m.contains_key(c) <==> done.contains(c))
            && (done.contains(c) ==> src.contains_key(c) && m[c].len() > 0 && seq_const_upto(src[c], src[c].len() as int, v, m[c]))
    }

    /*@extract yrs/src/id_map.rs | impl<A: PartialEq + Eq + Hash + Clone> IdMap<A> | region from_set | arm=pub fn from_set(id_set: IdSet, attrs: Vec<ContentAttribute<A>>) -> Self | label=idmap_from_set | skip=R6 | rules=INLINE(file=yrs/src/id_set.rs;;container=impl IdSet;;fn=iter;;body=Iter(self.0.clients().iter());;call=id_set.iter();;to=id_set.0.clients().iter()) INLINE(file=yrs/src/id_set.rs;;container=impl<'a> Ranges<'a>;;fn=iter;;body=RangesIter(self.0.inner().iter());;call=ranges.iter();;to=ranges.0.iter()) SUB(from=for range in;;to=for (range, _) in)
    @header
        fn idmap_from_set<CA: Merge>(id_set: IdSet, content_attrs: CA) -> (res: IdMap<CA>)
    @drop `let mut attrs: SmallVec<[ContentAttribute<A>; 2]> = attrs.into();`
    @drop `attrs.dedup();`
    @drop `id_map.ensure_attrs(&mut attrs);`
    @drop `let content_attrs = ContentAttributes(attrs);`
    @sig
        requires wf_map(id_set@), content_attrs.wf(),
        ensures
            wf_map(res@),
            forall|c: ClientID, k: int| #![trigger has_pt(res@, c, k)] #![trigger has_pt(id_set@, c, k)] has_pt(res@, c, k) <==> has_pt(id_set@, c, k),
            forall|c: ClientID, k: int| has_pt(res@, c, k) ==> #[trigger] val(res@, c, k).eq_spec(&content_attrs),
    @start
        let ghost mut done = Set::<ClientID>::empty();
        let ghost src = id_set.0.raw();
        proof { axiom_client_id_key_model(); lemma_lift_basics(src); }
    @loop 1 iter=it
        invariant
            src == id_set.0.raw(),
            iter_of(it.seq(), src),
            wf_map(lift(src)),
            content_attrs.wf(),
            from_set_inv(lift(src), content_attrs, id_map@, done),
            forall|c: ClientID| done.contains(c) <==> visited(it.seq(), it.index@ as int, c),
    @before 1 `stmt:let id_ranges`
        let ghost n = it.index@ as int;
        let ghost s = ranges@;
        let ghost m0 = id_map@;
        let ghost raw0 = id_map.inner.raw();
        proof {
            axiom_client_id_key_model();
            lemma_lift_basics(src);
            lemma_lift_basics(raw0);
            assert(it.seq()[n] == (client, ranges));
            assert(src.contains_key(*client) && src[*client] == *ranges);
            assert(lift(src).contains_key(*client) && lift(src)[*client] == s);
            assert(canon(s) && s.len() > 0);
        }
    @loop 2 iter=it2
        invariant
            it2.seq().len() == s.len(),
            forall|j: int| 0 <= j < s.len() ==> *(#[trigger] it2.seq()[j]) == s[j],
            canon(s),
            content_attrs.wf(),
            seq_const_upto(s, it2.index@ as int, content_attrs, id_ranges@),
    @before 1 `stmt:call insert_with`
        let ghost i = it2.index@ as int;
        let ghost g0 = id_ranges@;
        proof { assert(*it2.seq()[i] == s[i]); }
    @after 1 `stmt:call insert_with`
        proof {
            assert(seq_inserted(g0, s[i].0, content_attrs, id_ranges@));
            lemma_const_step(s, i, content_attrs, g0, id_ranges@);
        }
    @after 2 `stmt:for`
        let ghost r1 = id_ranges@;
        proof {
            lemma_nonempty_point(s);
            let k0 = choose|k: int| covers(s, k);
            lemma_upto_all(s, k0);
            assert(covers(r1, k0));
            lemma_nonempty_point(r1);
        }
    @after 1 `stmt:call clients_mut`
        proof {
            let raw1 = id_map.inner.raw();
            let x = raw1[*client];
            assert(raw1 == raw0.insert(*client, x));
            lemma_lift_insert(raw0, *client, x);
            assert(id_map@ == m0.insert(*client, r1));
            let d2 = done.insert(*client);
            assert forall|c: ClientID| d2.contains(c) <==> visited(it.seq(), n + 1, c) by {
                lemma_visited_step(it.seq(), n, c);
            }
            done = d2;
        }
    @*/

    // ---- IdMap::filter -----------------------------------------------------------------------------------------------------
    // Under the `CA: Merge` abstraction of the value type the attribute list `attrs.0` handed to the predicate is the value
    // itself: `predicate(&attrs.0)` is spelled `predicate(attrs)` with `F: Fn(&CA) -> bool`.  The statements feeding the `attrs`
    // interning cache are dropped.
    impl<T: Merge> IdRanges<T> {
        /*@extract yrs/src/ids.rs | impl<T: Merge> IdRanges<T> | fn from_raw | label=ranges_from_raw
        @ret r
        @sig
            ensures r@ == raw@,
        @*/
    }

    /// `a` is the subsequence of `s` at the strictly increasing positions `idx`
    pub open spec fn subseq_at<T>(s: Seq<Ent<T>>, idx: Seq<int>, a: Seq<Ent<T>>) -> bool {
        &&& a.len() == idx.len()
        &&& forall|p: int| 0 <= p < idx.len() ==> 0 <= #[trigger] idx[p] < s.len() && a[p] == s[idx[p]]
        &&& forall|p: int, q: int| 0 <= p < q < idx.len() ==> #[trigger] idx[p] < #[trigger] idx[q]
    }

    pub open spec fn in_idx(idx: Seq<int>, j: int) -> bool {
        exists|p: int| 0 <= p < idx.len() && #[trigger] idx[p] == j
    }

    /// a subsequence of a canonical sequence is canonical.  In particular two surviving pieces never become adjacent-and-equal:
    /// neighbours in the source are covered by `coalesced(s)`, and if a piece between them was dropped that piece is non-empty,
    /// so the survivors are separated by a gap.
    pub proof fn lemma_subseq_canon<T: Merge>(s: Seq<Ent<T>>, idx: Seq<int>, a: Seq<Ent<T>>)
        requires
            canon(s),
            subseq_at(s, idx, a),
        ensures
            canon(a),
            forall|k: int| #[trigger] covers(a, k) ==> covers(s, k) && in_idx(idx, idx_of(s, k)) && val_at(a, k) == val_at(s, k),
            forall|k: int| #![trigger covers(a, k)] covers(s, k) && in_idx(idx, idx_of(s, k)) ==> covers(a, k),
    {
        assert forall|p: int, q: int| 0 <= p < q < a.len() implies (#[trigger] a[p]).0.end <= (#[trigger] a[q]).0.start by {
            assert(idx[p] < idx[q]);
            assert(s[idx[p]].0.end <= s[idx[q]].0.start);
        }
        assert forall|p: int, q: int| 0 <= p && q == p + 1 && q < a.len() && (#[trigger] a[p]).0.end == (#[trigger] a[q]).0.start implies !a[p].1.eq_spec(&a[q].1) by {
            let i = idx[p];
            let j = idx[q];
            assert(i < j);
            if j == i + 1 {
                assert(s[i].0.end == s[j].0.start);
                assert(!s[i].1.eq_spec(&s[j].1));
            } else {
                // a dropped piece in between: it is non-empty, so the survivors are not adjacent
                assert(s[i].0.end <= s[i + 1].0.start);
                assert(s[i + 1].0.start < s[i + 1].0.end);
                assert(s[i + 1].0.end <= s[j].0.start);
                assert(false);
            }
        }
        assert(nonempty(a)) by {
            assert forall|p: int| 0 <= p < a.len() implies (#[trigger] a[p]).0.start < a[p].0.end by { assert(a[p] == s[idx[p]]); }
        }
        assert(vals_wf(a)) by {
            assert forall|p: int| 0 <= p < a.len() implies (#[trigger] a[p]).1.wf() by { assert(a[p] == s[idx[p]]); }
        }
        assert forall|k: int| #[trigger] covers(a, k) implies covers(s, k) && in_idx(idx, idx_of(s, k)) && val_at(a, k) == val_at(s, k) by {
            let p = idx_of(a, k);
            assert(inr(a[p].0, k));
            assert(a[p] == s[idx[p]]);
            lemma_idx_unique(s, idx[p], k);
            lemma_idx_unique(a, p, k);
            assert(idx[p] == idx_of(s, k));
        }
        assert forall|k: int| #![trigger covers(a, k)] covers(s, k) && in_idx(idx, idx_of(s, k)) implies covers(a, k) by {
            let j = idx_of(s, k);
            assert(inr(s[j].0, k));
            let p = choose|p: int| 0 <= p < idx.len() && #[trigger] idx[p] == j;
            assert(a[p] == s[j]);
            assert(inr(a[p].0, k));
        }
    }

    /// the predicate's verdict on entry `j` is recorded: accepted iff its position is in `idx`
    pub open spec fn verdicts<T: Merge, F: Fn(&T) -> bool>(pred: F, s: Seq<Ent<T>>, idx: Seq<int>, n: int) -> bool {
        forall|j: int| 0 <= j < n && j < s.len() ==> #[trigger] call_ensures(pred, (&s[j].1,), in_idx(idx, j))
    }

    /// `a` = the pieces of `s` the predicate accepts
    pub open spec fn seq_filtered<T: Merge, F: Fn(&T) -> bool>(pred: F, s: Seq<Ent<T>>, a: Seq<Ent<T>>) -> bool {
        &&& canon(a)
        &&& forall|k: int| #[trigger] covers(a, k) ==> covers(s, k) && val_at(a, k) == val_at(s, k) && call_ensures(pred, (&val_at(s, k),), true)
        &&& forall|k: int| #![trigger covers(s, k)] covers(s, k) && !covers(a, k) ==> call_ensures(pred, (&val_at(s, k),), false)
    }

    pub proof fn lemma_filtered<T: Merge, F: Fn(&T) -> bool>(pred: F, s: Seq<Ent<T>>, idx: Seq<int>, a: Seq<Ent<T>>)
        requires
            canon(s),
            subseq_at(s, idx, a),
            verdicts(pred, s, idx, s.len() as int),
        ensures
            seq_filtered(pred, s, a),
    {
        lemma_subseq_canon(s, idx, a);
        assert forall|k: int| #[trigger] covers(a, k) implies covers(s, k) && val_at(a, k) == val_at(s, k) && call_ensures(pred, (&val_at(s, k),), true) by {
            let j = idx_of(s, k);
            assert(inr(s[j].0, k));
            assert(call_ensures(pred, (&s[j].1,), in_idx(idx, j)));
        }
        assert forall|k: int| #![trigger covers(s, k)] covers(s, k) && !covers(a, k) implies call_ensures(pred, (&val_at(s, k),), false) by {
            let j = idx_of(s, k);
            assert(inr(s[j].0, k));
            assert(call_ensures(pred, (&s[j].1,), in_idx(idx, j)));
        }
    }

    /// what filter has established for a visited client `c`
    pub open spec fn client_filtered<T: Merge, F: Fn(&T) -> bool>(pred: F, s: Seq<Ent<T>>, m: Map<ClientID, Seq<Ent<T>>>, c: ClientID) -> bool {
        if m.contains_key(c) {
            m[c].len() > 0 && seq_filtered(pred, s, m[c])
        } else {
            seq_filtered(pred, s, Seq::<Ent<T>>::empty())
        }
    }

    pub open spec fn filter_inv<T: Merge, F: Fn(&T) -> bool>(pred: F, src: Map<ClientID, Seq<Ent<T>>>, m: Map<ClientID, Seq<Ent<T>>>, done: Set<ClientID>) -> bool {
        forall|c: ClientID| #![trigger m.contains_key(c)] #![trigger done.contains(c)]
            (m.contains_key(c) ==> done.contains(c))
            && (done.contains(c) ==> src.contains_key(c) && client_filtered(pred, src[c], m, c))
    }

    pub proof fn lemma_filter_done<T: Merge, F: Fn(&T) -> bool>(pred: F, src: Map<ClientID, Seq<Ent<T>>>, m: Map<ClientID, Seq<Ent<T>>>, done: Set<ClientID>)
        requires
            wf_map(src),
            filter_inv(pred, src, m, done),
            forall|c: ClientID| #[trigger] src.contains_key(c) ==> done.contains(c),
        ensures
            wf_map(m),
            forall|c: ClientID, k: int| #[trigger] has_pt(m, c, k) ==> has_pt(src, c, k) && val(m, c, k) == val(src, c, k) && call_ensures(pred, (&val(src, c, k),), true),
            forall|c: ClientID, k: int| #![trigger has_pt(src, c, k)] has_pt(src, c, k) && !has_pt(m, c, k) ==> call_ensures(pred, (&val(src, c, k),), false),
    {
        assert forall|c: ClientID| #[trigger] m.contains_key(c) implies canon(m[c]) && m[c].len() > 0 by {
            assert(done.contains(c));
        }
        assert forall|c: ClientID, k: int| #[trigger] has_pt(m, c, k) implies has_pt(src, c, k) && val(m, c, k) == val(src, c, k) && call_ensures(pred, (&val(src, c, k),), true) by {
            assert(m.contains_key(c));
            assert(done.contains(c));
        }
        assert forall|c: ClientID, k: int| #![trigger has_pt(src, c, k)] has_pt(src, c, k) && !has_pt(m, c, k) implies call_ensures(pred, (&val(src, c, k),), false) by {
            assert(src.contains_key(c));
            assert(done.contains(c));
            if !m.contains_key(c) {
                let e = Seq::<Ent<T>>::empty();
                assert(seq_filtered(pred, src[c], e));
                if covers(e, k) {
                    let i = idx_of(e, k);
                    assert(inr(e[i].0, k));
                }
            }
        }
    }

    /*@extract yrs/src/id_map.rs | impl<A: PartialEq + Eq + Hash + Clone> IdMap<A> | region filter | arm=pub fn filter<F>(&self, predicate: F) -> Self where F: Fn(&[ContentAttribute<A>]) -> bool, A: Clone, | label=idmap_filter | skip=R6 | rules=INLINE(file=yrs/src/ids.rs;;container=impl<T: Merge> IdMapInner<T>;;fn=iter;;body=self.0.iter();;call=self.inner.iter();;to=this.inner.0.iter()) INLINE(file=yrs/src/ids.rs;;container=impl<T: Merge> IdRanges<T>;;fn=iter;;body=self.0.iter();;call=ranges.iter();;to=ranges.0.iter()) SUB(from=predicate(&attrs.0);;to=predicate(attrs)) SUB(from=ContentAttributes<A>;;to=CA)
    @header
        fn idmap_filter<CA: Merge, F: Fn(&CA) -> bool>(this: &IdMap<CA>, predicate: F) -> (res: IdMap<CA>)
    @drop `for attr in &attrs.0`
    @sig
        requires
            wf_map(this@),
            forall|v: &CA| #[trigger] call_requires(predicate, (v,)),
        ensures
            // canonical per client and NO empty per-client entry (a client whose pieces are all rejected is not stored)
            wf_map(res@),
            // exactly the points whose attribute value the predicate accepts, with their values
            forall|c: ClientID, k: int| #[trigger] has_pt(res@, c, k) ==> has_pt(this@, c, k) && val(res@, c, k) == val(this@, c, k) && call_ensures(predicate, (&val(this@, c, k),), true),
            forall|c: ClientID, k: int| #![trigger has_pt(this@, c, k)] has_pt(this@, c, k) && !has_pt(res@, c, k) ==> call_ensures(predicate, (&val(this@, c, k),), false),
    @start
        let ghost mut done = Set::<ClientID>::empty();
        let ghost src = this.inner.raw();
        proof { axiom_client_id_key_model(); lemma_lift_basics(src); }
    @loop 1 iter=it
        invariant
            src == this.inner.raw(),
            iter_of(it.seq(), src),
            wf_map(lift(src)),
            forall|v: &CA| #[trigger] call_requires(predicate, (v,)),
            canon_all(filtered@),
            filter_inv(predicate, lift(src), filtered@, done),
            forall|c: ClientID| done.contains(c) <==> visited(it.seq(), it.index@ as int, c),
    @before 1 `stmt:let attr_ranges`
        let ghost n = it.index@ as int;
        let ghost s = ranges@;
        let ghost m0 = filtered@;
        let ghost raw0 = filtered.inner.raw();
        let ghost mut idx = Seq::<int>::empty();
        proof {
            axiom_client_id_key_model();
            lemma_lift_basics(src);
            lemma_lift_basics(raw0);
            assert(it.seq()[n] == (client, ranges));
            assert(src.contains_key(*client) && src[*client] == *ranges);
            assert(lift(src).contains_key(*client) && lift(src)[*client] == s);
            assert(canon(s));
            if done.contains(*client) {
                let i = choose|i: int| 0 <= i < n && *(#[trigger] it.seq()[i]).0 == *client;
                lemma_iter_keys_distinct(it.seq(), src, i, n);
            }
            assert(!m0.contains_key(*client));
        }
    @loop 2 iter=it2
        invariant
            it2.seq().len() == s.len(),
            forall|j: int| 0 <= j < s.len() ==> *(#[trigger] it2.seq()[j]) == s[j],
            canon(s),
            forall|v: &CA| #[trigger] call_requires(predicate, (v,)),
            subseq_at(s, idx, attr_ranges@),
            forall|p: int| 0 <= p < idx.len() ==> #[trigger] idx[p] < it2.index@,
            verdicts(predicate, s, idx, it2.index@ as int),
    @before 1 `stmt:if`
        let ghost i = it2.index@ as int;
        let ghost idx0 = idx;
        proof { assert(*it2.seq()[i] == s[i]); assert(s[i] == (*range, *attrs)); }
    @after 1 `stmt:call push`
        proof {
            idx = idx0.push(i);
            assert(range_copy == s[i]);
            assert forall|j: int| 0 <= j < i + 1 && j < s.len() implies #[trigger] call_ensures(predicate, (&s[j].1,), in_idx(idx, j)) by {
                if j < i {
                    assert(call_ensures(predicate, (&s[j].1,), in_idx(idx0, j)));
                    if in_idx(idx0, j) {
                        let p = choose|p: int| 0 <= p < idx0.len() && #[trigger] idx0[p] == j;
                        assert(idx[p] == j);
                    }
                    if in_idx(idx, j) {
                        let p = choose|p: int| 0 <= p < idx.len() && #[trigger] idx[p] == j;
                        assert(p < idx0.len() && idx0[p] == j);
                    }
                } else {
                    assert(idx[idx0.len() as int] == i);
                }
            }
        }
    @after 1 `stmt:if`
        proof {
            if idx == idx0 {
                // rejected: position i is not recorded
                assert(!in_idx(idx0, i)) by {
                    if in_idx(idx0, i) {
                        let p = choose|p: int| 0 <= p < idx0.len() && #[trigger] idx0[p] == i;
                        assert(idx0[p] < i);
                    }
                }
                assert forall|j: int| 0 <= j < i + 1 && j < s.len() implies #[trigger] call_ensures(predicate, (&s[j].1,), in_idx(idx, j)) by {}
            }
        }
    @after 2 `stmt:for`
        let ghost a1 = attr_ranges@;
        proof { lemma_filtered(predicate, s, idx, a1); }
    @after 2 `stmt:if`
        proof {
            let raw1 = filtered.inner.raw();
            lemma_lift_basics(raw1);
            if a1.len() > 0 {
                let x = raw1[*client];
                assert(raw1 == raw0.insert(*client, x));
                lemma_lift_insert(raw0, *client, x);
                assert(filtered@ == m0.insert(*client, a1));
            } else {
                assert(filtered@ == m0);
                assert(a1 =~= Seq::<Ent<CA>>::empty());
            }
            let d2 = done.insert(*client);
            assert forall|c: ClientID| d2.contains(c) <==> visited(it.seq(), n + 1, c) by {
                lemma_visited_step(it.seq(), n, c);
            }
            assert(client_filtered(predicate, s, filtered@, *client));
            assert forall|c: ClientID| #![trigger filtered@.contains_key(c)] #![trigger d2.contains(c)]
                (filtered@.contains_key(c) ==> d2.contains(c))
                && (d2.contains(c) ==> lift(src).contains_key(c) && client_filtered(predicate, lift(src)[c], filtered@, c)) by {
                if c != *client {
                    assert(filtered@.contains_key(c) == m0.contains_key(c));
                    if done.contains(c) { assert(client_filtered(predicate, lift(src)[c], m0, c)); }
                }
            }
            done = d2;
        }
    @after 1 `stmt:for`
        proof {
            assert forall|c: ClientID| #[trigger] lift(src).contains_key(c) implies done.contains(c) by {
                assert(src.contains_key(c));
            }
            lemma_filter_done(predicate, lift(src), filtered@, done);
        }
    @*/

    // ---- IdMap::attributions ---------------------------------------------------------------------------------------------
    /// R17 stand-in for `AttrRange<A> { range, attrs: ContentAttributes<A> }` under the `CA` abstraction of the value type
    pub struct AttrRange<CA> {
        pub range: Range<u32>,
        pub attrs: CA,
    }

    /// "the empty attribute list": a value the empty constructor returns (real: `ContentAttributes::new()`, here `CA::default()`)
    pub open spec fn is_empty_attrs<CA: Default>(x: CA) -> bool {
        call_ensures(CA::default, (), x)
    }

    impl<CA: Default> AttrRange<CA> {
        /*@extract yrs/src/id_map.rs | impl<A> AttrRange<A> | fn new | label=attr_range_new | rules=SUB(from=ContentAttributes::new();;to=CA::default())
        @ret r
        @sig
            ensures r.range == range, is_empty_attrs(r.attrs),
        @*/
    }

    impl<T: Merge> IdRanges<T> {
        // proved in unit ids
        #[verifier::external_body]
        /*@extract yrs/src/ids.rs | impl<T: Merge> IdRanges<T> | fn find_start
        @ret r
        @sig
            requires canon(self@),
            ensures
                // the least index whose entry ends after `clock` (i.e. contains it or starts after it)
                r.is_none() ==> forall|i: int| 0 <= i < self@.len() ==> (#[trigger] self@[i]).0.end <= clock,
                r.is_some() ==> r.unwrap() < self@.len() && clock < self@[r.unwrap() as int].0.end
                    && forall|i: int| 0 <= i < r.unwrap() ==> (#[trigger] self@[i]).0.end <= clock,
        @*/
    }

    /// a covered piece carries exactly the attribute value of the map at each of its clocks; a gap carries the empty list
    pub open spec fn piece_ok<CA: Merge + Default>(m: Map<ClientID, Seq<Ent<CA>>>, client: ClientID, p: AttrRange<CA>) -> bool {
        ||| forall|k: int| #[trigger] inr(p.range, k) ==> has_pt(m, client, k) && val(m, client, k) == p.attrs
        ||| is_empty_attrs(p.attrs) && forall|k: int| #[trigger] inr(p.range, k) ==> !has_pt(m, client, k)
    }

    pub open spec fn pieces_ok<CA: Merge + Default>(m: Map<ClientID, Seq<Ent<CA>>>, client: ClientID, v: Seq<AttrRange<CA>>) -> bool {
        forall|i: int| 0 <= i < v.len() ==> piece_ok(m, client, #[trigger] v[i])
    }

    pub open spec fn no_empty_piece<CA>(v: Seq<AttrRange<CA>>) -> bool {
        forall|i: int| 0 <= i < v.len() ==> (#[trigger] v[i]).range.start < v[i].range.end
    }

    /// the pieces start at `lo` and each one starts where the previous one ends (in order, no overlap, no hole)
    pub open spec fn chain<CA>(v: Seq<AttrRange<CA>>, lo: int) -> bool {
        &&& v.len() > 0 ==> v[0].range.start == lo
        &&& forall|i: int, j: int| 0 <= i && j == i + 1 && j < v.len() ==> (#[trigger] v[i]).range.end == (#[trigger] v[j]).range.start
        &&& forall|i: int| 0 <= i < v.len() ==> (#[trigger] v[i]).range.start <= v[i].range.end
    }

    pub open spec fn end_of<CA>(v: Seq<AttrRange<CA>>, lo: int) -> int {
        if v.len() > 0 { v.last().range.end as int } else { lo }
    }

    pub open spec fn attr_inv<CA: Merge + Default>(m: Map<ClientID, Seq<Ent<CA>>>, client: ClientID, v: Seq<AttrRange<CA>>, lo: int, hi: int) -> bool {
        pieces_ok(m, client, v) && chain(v, lo) && lo <= end_of(v, lo) <= hi
    }

    /// no point of the client in [from, hi)
    pub open spec fn tail_free<CA: Merge>(m: Map<ClientID, Seq<Ent<CA>>>, client: ClientID, from: int, hi: int) -> bool {
        forall|k: int| from <= k < hi ==> !#[trigger] has_pt(m, client, k)
    }

    pub proof fn lemma_push_piece<CA: Merge + Default>(m: Map<ClientID, Seq<Ent<CA>>>, client: ClientID, v: Seq<AttrRange<CA>>, p: AttrRange<CA>, lo: int, hi: int)
        requires
            attr_inv(m, client, v, lo, hi),
            p.range.start == end_of(v, lo),
            p.range.start <= p.range.end <= hi,
            piece_ok(m, client, p),
        ensures
            attr_inv(m, client, v.push(p), lo, hi),
            end_of(v.push(p), lo) == p.range.end,
            no_empty_piece(v) && p.range.start < p.range.end ==> no_empty_piece(v.push(p)),
    {
        let w = v.push(p);
        assert forall|i: int| 0 <= i < w.len() implies piece_ok(m, client, #[trigger] w[i]) by {
            if i < v.len() { assert(w[i] == v[i]); }
        }
        assert forall|i: int, j: int| 0 <= i && j == i + 1 && j < w.len() implies (#[trigger] w[i]).range.end == (#[trigger] w[j]).range.start by {
            if j < v.len() { assert(w[i] == v[i] && w[j] == v[j]); } else { assert(w[i] == v.last()); }
        }
        assert forall|i: int| 0 <= i < w.len() implies (#[trigger] w[i]).range.start <= w[i].range.end by {
            if i < v.len() { assert(w[i] == v[i]); }
        }
        if v.len() > 0 { assert(w[0] == v[0]); }
        if no_empty_piece(v) && p.range.start < p.range.end {
            assert forall|i: int| 0 <= i < w.len() implies (#[trigger] w[i]).range.start < w[i].range.end by {
                if i < v.len() { assert(w[i] == v[i]); }
            }
        }
    }

    /*@extract yrs/src/id_map.rs | impl<A: PartialEq + Eq + Hash + Clone> IdMap<A> | region attributions | arm=pub fn attributions(&self, range: &BlockRange) -> Vec<AttrRange<A>> | label=idmap_attributions | rules=SUB(from=self.inner;;to=this.inner) SUB(from=AttrRange<A>;;to=AttrRange<CA>) INLINE(file=yrs/src/ids.rs;;container=impl<T: Merge> IdRanges<T>;;fn=as_slice;;body=&self.0;;call=dr.as_slice();;to=&dr.0)
    @header
        fn idmap_attributions<CA: Merge + Default>(this: &IdMap<CA>, range: &BlockRange) -> (res: Vec<AttrRange<CA>>)
    @sig
        requires
            wf_map(this@),
            // domain restriction: the block lies in the u32 clock space
            range.clock + range.len <= u32::MAX,
        ensures
            res@.len() > 0,
            // in order, each piece starts where the previous one ends: together they are exactly [clock, clock + len)
            chain(res@, range.clock as int),
            end_of(res@, range.clock as int) == range.clock + range.len,
            // covered pieces carry exactly the attributes of the map at their clocks, gaps the empty attribute list
            pieces_ok(this@, range.client, res@),
            // no empty piece, for a non-empty block. (Observation, not a property clause: for an EMPTY block, `len == 0`, the
            // function returns ONE piece with the empty range `clock..clock` because the final `else` pushes
            // block_start..block_end unconditionally. The property says nothing about attributions of an empty block.)
            range.len > 0 ==> no_empty_piece(res@),
    @start
        let ghost m = this@;
        let ghost cl = range.client;
        let ghost bs = range.clock as int;
        let ghost be = range.clock + range.len;
        proof { axiom_client_id_key_model(); lemma_lift_basics(this.inner.raw()); }
    @before 1 `stmt:let entries`
        let ghost s = dr@;
        proof {
            assert(m.contains_key(cl) && m[cl] == s);
            assert(canon(s));
        }
    @loop 1
        invariant
            m == this@, cl == range.client, bs == range.clock, be == range.clock + range.len, be == block_end, bs == block_start,
            client == cl,
            m.contains_key(cl) && m[cl] == s,
            canon(s),
            entries@ == s,
            index <= s.len(),
            attr_inv(m, cl, result@, bs, be),
            no_empty_piece(result@),
            prev_end == end_of(result@, bs),
            prev_end == be || forall|j: int| 0 <= j < index ==> (#[trigger] s[j]).0.end <= prev_end,
            index < s.len() ==> s[index as int].0.end > bs,
            index < s.len() ==> prev_end == bs || prev_end <= s[index as int].0.start,
        ensures
            attr_inv(m, cl, result@, bs, be),
            no_empty_piece(result@),
            tail_free(m, cl, end_of(result@, bs), be),
        decreases s.len() - index,
    @before 5 `stmt:if`
        proof {
            // the clamped piece [r_start, r_end) of entry `index`
            let e = s[index as int];
            assert(*entry_range == e.0 && *entry_attrs == e.1);
            if r_start >= r_end {
                // nothing of this entry (nor of any later one) lies inside the block after prev_end
                assert forall|k: int| prev_end <= k < be implies !#[trigger] has_pt(m, cl, k) by {
                    if covers(s, k) {
                        let j = idx_of(s, k);
                        assert(inr(s[j].0, k));
                        if j < index {
                            assert(s[j].0.end <= prev_end);
                        } else {
                            if j > index { assert(e.0.end <= s[j].0.start); }
                            // r_start = max(e.start, bs) >= r_end = min(e.end, be), with e.start < e.end and bs < e.end
                            assert(e.0.start >= be);
                        }
                    }
                }
            }
        }
    @after 6 `stmt:if`
        proof { assert(end_of(result@, bs) == r_start); }
    @before 1 `stmt:call push`
        let ghost v0 = result@;
    @after 1 `stmt:call push`
        proof {
            let p = result@.last();
            assert(result@ == v0.push(p));
            // the gap [prev_end, r_start) is free: earlier entries end at or before prev_end, later ones start at or after r_start
            assert forall|k: int| #[trigger] inr(p.range, k) implies !has_pt(m, cl, k) by {
                if covers(s, k) {
                    let j = idx_of(s, k);
                    assert(inr(s[j].0, k));
                    if j < index {
                        assert(s[j].0.end <= prev_end);
                    } else if j > index {
                        assert(s[index as int].0.end <= s[j].0.start);
                    }
                }
            }
            lemma_push_piece(m, cl, v0, p, bs, be);
        }
    @before 2 `stmt:call push`
        let ghost v1 = result@;
    @after 2 `stmt:call push`
        proof {
            let p = result@.last();
            assert(result@ == v1.push(p));
            assert(p.attrs == s[index as int].1);
            assert forall|k: int| #[trigger] inr(p.range, k) implies has_pt(m, cl, k) && val(m, cl, k) == p.attrs by {
                assert(inr(s[index as int].0, k));
                lemma_idx_unique(s, index as int, k);
            }
            lemma_push_piece(m, cl, v1, p, bs, be);
            if index + 1 < s.len() {
                assert(s[index as int].0.end <= s[index + 1].0.start);
            }
            if prev_end != be {
                assert forall|j: int| 0 <= j < index + 1 implies (#[trigger] s[j]).0.end <= prev_end by {
                    if j < index { assert(s[j].0.end <= s[index as int].0.start); }
                }
            }
        }
    @after 2 `stmt:if`
        proof {
            // find_start found nothing: every entry ends at or before block_start
            if result@.len() == 0 && !tail_free(m, cl, bs, be) {
                assert(m.contains_key(cl) && m[cl] == dr@);
                assert forall|k: int| bs <= k < be implies !#[trigger] has_pt(m, cl, k) by {
                    if covers(dr@, k) {
                        let j = idx_of(dr@, k);
                        assert(inr(dr@[j].0, k));
                    }
                }
            }
        }
    @before 3 `stmt:call push`
        let ghost v2 = result@;
    @after 3 `stmt:call push`
        proof {
            let p = result@.last();
            assert(result@ == v2.push(p));
            lemma_push_piece(m, cl, v2, p, bs, be);
        }
    @before 4 `stmt:call push`
        let ghost v3 = result@;
    @after 4 `stmt:call push`
        proof {
            let p = result@.last();
            assert(result@ == v3.push(p));
            lemma_push_piece(m, cl, v3, p, bs, be);
        }
    @*/
}

} // verus!
fn main() {}
