// unit `lib0` — the lib0 primitive wire format of yrs (yrs/src/encoding/{varint,read,write}.rs).  Serves C09
// (decode(encode(x)) == x) and C10 (decoders are total on untrusted bytes).  UNBOUNDED: every value, every input.
// Function bodies are pulled from /repo on every run; this file and units/lib0_common/* hold only the ghost
// interface, the mathematical spec of the formats, the contracts and the proof hints.
#![allow(unused_imports, unused_variables, unused_mut, dead_code, unused_parens, unused_braces, unused_assignments)]
use vstd::prelude::*;
use vstd::slice::*;
use std::convert::TryInto;

verus! {

/*@rules R10 @*/

/*@include units/lib0_common/base.rs @*/

/*@include units/lib0_common/spec.rs @*/

/*@include units/lib0_common/varint.rs @*/

/*@include units/lib0_common/examples.rs @*/

} // verus!
fn main() {}
