// unit `lib0` — the lib0 primitive wire format of yrs (yrs/src/encoding/{varint,read,write}.rs).  Serves C09
// (decode(encode(x)) == x) and C10 (decoders are total on untrusted bytes).  UNBOUNDED: every value, every input.
// Function bodies are pulled from /repo on every run; this file and units/lib0_common/* hold only the ghost
// interface, the mathematical spec of the formats, the contracts and the proof hints.
//
//   units/lib0_common/base.rs      Error stand-in, traits Write/Read/VarInt/SignedVarInt (+ WriteExt/ReadExt), Signed, Cursor, Vec<u8>
//   units/lib0_common/spec.rs      enc_uint / enc_sint / fixed width / buffers, the spec decoders, bounded + inverse lemmas
//   units/lib0_common/varint.rs    write_var_*/read_var_*, all VarInt impls, SignedVarInt for i64, lemma_read_inverse/_total
//   units/lib0_common/examples.rs  concrete encodings (300 -> AC 02, -1 -> 41, ...)
//
// Rewrites / slicing (each logged in the evidence):
//   TS  Read/Write default methods that mention VarInt/SignedVarInt live in blanket-implemented extension traits ReadExt/WriteExt
//       (Verus rejects the cyclic trait reference Read::read_var<T: VarInt> <-> VarInt::read<R: Read>)
//   RP  `Some(&b)` in Cursor::read_u8 -> `Some(b)` + `Ok(*b)` (Verus: "ref patterns" unsupported)       [2 per-extract SUBs]
//   FV  the fields of `Signed` are made pub (the contracts of its public accessors mention them)        [2 per-extract SUBs]
//   AR  `B: AsRef<[u8]>` in write_buf -> local trait `VxBytes` (std's AsRef is an external trait)       [1 per-extract SUB]
//   ES  `Error`: sliced stand-in with the same variants, payloads TryReserveError / serde_json::Error opaque
// Trusted std contracts: i64::unsigned_abs, i64::wrapping_neg (assume_specification, documented behaviour).
// NOT covered: VarInt for u128; SignedVarInt for isize/i32/i16/i8 and Signed::map (unannotated closure); read_string (unsafe
// from_utf8_unchecked); read_f32/read_f64/read_i64/read_u64 and write_f32/f64/i64/u64 (copy_from_slice / to_be_bytes);
// write_string (str: covered in unit `tags` with an uninterpreted utf8()).
#![allow(unused_imports, unused_variables, unused_mut, dead_code, unused_parens, unused_braces, unused_assignments)]
use vstd::prelude::*;
use vstd::slice::*;
use std::convert::TryInto;

verus! {

/*@rules R10 @*/

/*@include units/lib0_common/base.rs @*/

/*@include units/lib0_common/spec.rs @*/

/*@include units/lib0_common/varint.rs @*/

/*@include units/lib0_common/examples.rs @*/

} // verus!
fn main() {}
