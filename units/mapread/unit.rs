// unit `mapread` -- the READERS of a map-like shared type (yrs/src/types/map.rs: trait `Map` default methods `len`, `keys`,
// `values`, `iter`, `get`, `contains_key`, `impl ToJson for MapRef`, the iterator structs `Keys` / `Values` / `MapIter` /
// `MapIntoIter`; yrs/src/types/mod.rs: `Entries`, their shared engine; yrs/src/branch.rs: `Branch::get`).
// Serves C17 (KERNEL ONLY, the MAP part): "every way of reading a shared type tells the same story: ... map len, keys,
// values, iter, contains_key, get and to_json describe the same entries".
// OUT OF SCOPE (said so on purpose): the array / text half of C17 -- there `len()` is the cached counter `Branch::block_len` /
// `content_len` maintained by integration and deletion, so its agreement with the content is an invariant of the integration
// code, not a property of the readers.
//
// THE PROPERTY, on views.  For a map-like branch every reader is a pure function of `branch.map: HashMap<Arc<str>, ItemPtr>`
// and, per entry item, of its tombstone flag and its content.  So agreement is proved for EVERY value of `branch.map`; no
// invariant of the integration code is used.  With  live(p) := !p.info.deleted  and  last(p) := p.content.get_last():
//     live_keys(m) : Set<Str>      := { k in m | live(m[k]) }
//     entries(m)   : Map<Str, Out> := { k -> v | k in m, live(m[k]), last(m[k]) == Some(v) }
// CONTRACTS (all whole-function unless noted)
//     contains_key(k)  == live_keys(m).contains(k)
//     get(k)           == entries(m).get(k)            [Branch::get and Map::get; hence get(k) is Some ==> contains_key(k)]
//     len()            == |live_keys(m)|               [requires |live_keys(m)| <= u32::MAX: DOMAIN RESTRICTION, `len += 1` is an
//                                                       unchecked u32 addition and a HashMap holds up to usize::MAX entries]
//     to_json()        == Any::Map { k -> json(last(m[k]) or Out::Any(Any::Null)) | k in live_keys(m) }   (`json` = Out::to_json,
//                                                       opaque; on entries(m) it is the JSON image of the value `get` returns)
//     Entries::next    with s = the pairs the underlying hash_map::Iter has not handed out yet and n = index of the first pair
//                      whose item is live: returns Some(s[n]) and leaves the iterator at s.skip(n + 1); None (iterator exhausted)
//                      iff there is no such pair.  Keys::next = its key, Values::next = ALL elements of its content (a
//                      Vec<Out>, read with `item.len()` + `content.read`, NOT `get_last`), MapIter::next = (key, last) of the first
//                      live pair THAT HAS a last value (valueless live items are skipped by recursion).
//     Keys::new / Values::new / MapIter::new / Entries::new / from_ref / Map::{keys, values, iter}: the iterator starts on an
//                      enumeration of `branch.map` (vstd's HashMap::iter contract: every (key, value) pair exactly once).
//     get_as(k)        == deserialize(json(get(k)'s value, or Out::Any(Any::Null) if get(k) is None))   [whole function; `from_any` /
//                      DeserializeOwned abstract; so a get_as that reads a tombstone or another key fails a contract clause]
//     get_or_init_read_step (STEP): the read side of `Map::get_or_init` finds exactly get(k) (converted with the abstract
//                      TryFrom<Out>); remove_read_step (STEP): the value `Branch::remove` (Map::remove, remove_attribute) REPORTS
//                      is exactly what get(k) returned; Branch::entries: an `Entries` on an enumeration of `branch.map`.
//     XML ATTRIBUTES (xml.rs, trait `Xml`, implementors XmlElementRef / XmlTextRef): get_attribute(k) == entries(m).get(k) (it IS
//                      Branch::get); attributes() / Attributes::new start on an enumeration of `branch.map`; Attributes::next has
//                      the SAME contract as MapIter::next.  `theorem_derived_readers_agree` ties these to get / iter.
//     len_step / to_json_step (STEP level, additional): the bodies of the two `for` loops lifted on their own (R18), so that an
//                      edit of a body fails a contract clause of real code, not only the invariant spliced into the loop.
//   The default methods of `trait Map` are shared by its two implementors `MapRef` and `XmlHookRef` (both `AsRef<Branch>`).
//   LIFETIME READING (pure lemmas): `is_trace` / `lemma_drain` (calling a `next` with such a contract until it returns None
//   yields exactly `pick(s0, f)`: the underlying order filtered / projected by f) + `theorem_keys` / `theorem_entries` /
//   `theorem_iter` / `theorem_values` (for an enumeration s0 of m: keys() yields exactly live_keys(m), each once, |.| == len();
//   Entries yields exactly the live (k, m[k]); iter() yields exactly the pairs of entries(m), each once == what get returns;
//   values() yields, in the order of keys(), the element list of each live item, which is [get(k)] for single-value items),
//   `corollary_keys_drained` / `corollary_iter_drained` (the two composed) and `theorem_read_paths_agree` (all readers in one
//   statement, for EVERY branch state).
//
// WHEN DO contains_key / len / keys AND get / iter AGREE?  Exactly when no live entry item is VALUELESS:
//     entries_wf(m) := forall k in live_keys(m): last(m[k]) is Some          (then dom(entries(m)) == live_keys(m), `lemma_wf_agree`)
//   `ItemContent::get_last` is None for Deleted, Format, and for Any / JSON with an empty vector.  Empty vectors cannot be items
//   (`Item::new` returns None for content of length 0, also in the decoder); Deleted content sets the tombstone at integration.
//   FORMAT CAN be a live map entry through the public API -- see FINDING B.  `Map::insert` with the crate's own Prelim types
//   creates Any(vec![v]) / Type / Doc / Embed entries only: one value each (`single_value`), for those everything agrees.
//
// FINDINGS (reproduced on the real crate through the public API: units/mapread/repro/src/main.rs).
//   STATUS: A was a genuine defect reachable by ordinary use; it is REPAIRED in /repo (fix: cf619ba, known_findings F25) and its
//   obligation is discharged now.  B and C need a live map entry whose content is Format or String -- the crate's own Map API
//   never creates one (only a hand-crafted update or a user-written Prelim does), so such states are outside the property's
//   quantifier (reachable states of multi-replica histories): they are kept as OBSERVATIONS, the contracts below carry the
//   corresponding precondition (entries_wf / item_len_ok) instead of failing.
//   A  mapread::map_into_iter_step::post, clause `!live(item) ==> r == old(rest).result()`
//      `Map::into_iter` (MapIntoIter::next) never looks at the tombstone flag: a removed entry whose content has not been
//      garbage-collected is still yielded.  Branch state: map = {"k" -> item(deleted, content Any[1])}.  Public API:
//          let m = doc.get_or_insert_map("m"); let mut t = doc.transact_mut(); m.insert(&mut t, "k", 1); m.remove(&mut t, "k");
//          m.len(&t) == 0, m.get(&t, "k") == None, m.iter(&t) is empty, BUT m.clone().into_iter(&t) yields ("k", 1)
//      (same after commit on a document with `skip_gc = true`; with GC the committed tombstone holds Deleted content -> skipped).
//   B  mapread::contains_key::post, clause `r == entries(..).contains_key(*key)`
//      a live entry item without a last value: contains_key -> true, len -> counts it, keys -> lists it, to_json -> {k: null},
//      but get -> None and iter -> skips it.  Branch state: map = {"k" -> item(live, content Format("b", true), len 1)}.
//      Public API: (i) apply_update of the 18-byte v1 update [1,1,1,0,0x26,1,1,'m',1,'k',1,'b',4,'t','r','u','e',0] (one block of
//      client 1, info = Format | HAS_PARENT_SUB, parent root "m", key "k") -- the decoder and integration accept any content
//      kind under a parent_sub;  (ii) `map.insert(txn, "k", P)` with a user `impl Prelim for P` returning ItemContent::Format.
//   C  mapread::values_next::pre (the `panic!("Defect: iterator didn't read all elements")` is reachable)
//      `Values::next` panics on a live entry whose `len` differs from the number of elements `content.read` yields: Format
//      (len 1, 0 elements; the state of B) and String content with an astral character (len counts UTF-16 units, read counts
//      chars: map = {"k" -> item(live, String("\u{1F600}"), len 2)}), both reachable as in B.  Related OBSERVATION (no panic): for
//      String content `get` / `iter` return the whole string as ONE value while `values` returns its characters one by one
//      ("ab" -> get "ab", values [["a","b"]]); `theorem_values` therefore relates values to get only for `seq_kind` items.
//
// ------------------------------------------------------------------------------------------------------------------
// LOWERING AND STAND-IN TYPES (everything not listed is extracted verbatim from /repo on every run)
//   ItemPtr / BranchPtr   real: `struct ItemPtr(NonNull<Item>)` / `struct BranchPtr(NonNull<Branch>)` with Deref.  here:
//                `&'static Item` / `&'static Branch` (read-only lowering R15; 'static because the real types carry no
//                lifetime, so every signature stays verbatim).  ASSUMPTION A5: the pointees are alive and not mutated during a
//                call / the life of an iterator.  Spellings: `self.0.deref()` -> `self.0`, `BranchPtr::from(self.as_ref())` ->
//                `self.as_ref()` (both the identity on the lowered type; SUB, logged).
//   Item         sliced to `len`, `content`, `info`.  DROPPED: id, left, right, origin, right_origin, parent, redone, parent_sub.
//                `Item::{is_deleted, len}`, `ItemFlags::{check, is_deleted}`, `ITEM_FLAG_DELETED` are the real ones.
//   Branch       sliced to `map`.  DROPPED: start, item, name, block_len, content_len, type_ref, has_formatting, observers,
//                deep_observers.
//   ItemContent  `enum ItemContent { Any(Vec<Any>), Other(OtherContent) }`: the REAL variant `Any` (so that code matching on
//                `ItemContent::Any(values)` -- e.g. a "fast path" for primitives -- is ingestible; get_last = Out::Any(last element),
//                read = the elements wrapped in Out::Any) + the ABSTRACTION `OtherContent { elems: Vec<Out>, last: Option<Out> }` of
//                the other eight variants: `get_last()` returns `last`, `read(offset, buf)` copies `elems[offset..]` into `buf` (as
//                far as both reach) and returns the count; specs read them through `last_spec()` / `elems_spec()`.  NO relation
//                between the two is built in for `Other` (real, per kind: Any / JSON: elems = the vector, last = its last element; Binary /
//                Doc / Embed / Type: elems = [v], last = Some(v); Deleted / Format: elems = [], last = None; String: elems = the
//                chars, last = Some(the whole string)); `seq_kind` / `single_value` / `item_len_ok` name the relations.
//                `buf: &mut [Out]` is spelled `&mut Vec<Out>` (`&mut values` of a `Vec<Out>` fits both).
//   Out, Any     `enum Out { Any(Any), Ref(u64) }`, `enum Any { Null, Undefined, Prim(u64), Map(Ghost<Map<Str, Any>>) }`: enough
//                structure for `Out::Any(Any::Null)`, `Out::default()` (real body) and `Any::from(HashMap<String, Any>)` (stand-in:
//                the Map variant holding exactly the entries of the argument; real: copies the map into `Any::Map(Arc<..>)`).
//                `Out::to_json` is OPAQUE: its result is `json_of(value)`, a closed spec function (module vx_out; the only
//                exported fact is its first real arm, json_of(Out::Any(a)) == a).
//   Str          opaque key with equality + hash: stands for `Arc<str>`, `&str`/`str` and `String` (`key.to_string()` is the
//                identity: same characters).  SUB `Arc<str>` -> `Str`, `&str` -> `&Str`, `&'a str` -> `&'a Str`.
//   ReadTxn      `trait ReadTxn {}`; the `txn` parameters are unused by all readers.  `B: Borrow<T>` bounds are dropped (the
//                impl headers are template text; `txn: B` is only stored).
//   trait Map    its default methods are emitted as inherent methods of `MapRef` (Verus has no `AsRef`); `MapRef::as_ref` is the
//                real `impl AsRef<Branch> for MapRef`.  `impl ToJson for MapRef` likewise.  The `Iterator::next` impls of
//                Entries / Keys / Values / MapIter are emitted as inherent `next` (a trait-method impl cannot carry `requires`
//                and would have to prove vstd's own `Iterator::next` postconditions); `Self::Item` is spelled out (SUB, logged).
//   REWRITES of constructs Verus rejects (same meaning, logged): `(key, ptr) = self.iter.next()?;` (destructuring assignment) ->
//                `let vx_n = self.iter.next()?; key = vx_n.0; ptr = vx_n.1;`;  `for item in inner.map.values()` ->
//                `for (_vx_key, item) in inner.map.iter()` (vstd's contract of `HashMap::values` says only that every value of
//                the map occurs and that the count is m.len() -- too weak to COUNT the live items when two keys hold equal values;
//                std: `Values { inner: self.iter() }`, `next = inner.next().map(|(_, v)| v)`).
//
// TRUSTED: `axiom_str_key_model` (A4: Str is a lawful HashMap key); `vx_unreachable` (vx/prelude.rs, R9: `panic!` = an
//   obligation).  vstd's own specifications of HashMap::{new, get, insert, iter}, hash_map::Iter::next (prophetic iterator
//   model: `remaining()`), Option::{unwrap_or, ?}, `vec![x; n]`, Vec index / index-assign.  No assume / admit.
//
// SURVEY of the other code that reads `branch.map` (2026-09-26) and why it is not here:
//   * `Map::try_update` (read side): compares the last element of an `ItemContent::Any` entry with the new value -- needs exec
//     equality on `Any` (the stand-in holds a ghost map); it tests `!item.is_deleted()` itself.  `Map::link` (feature "weak"):
//     builds a WeakPrelim from `ptr.map.get(key)` WITHOUT a tombstone test (it quotes the key's current block, a link, not a value).
//   * `MapRef::as_prelim` (`Out::try_from(ptr)` == get_last, guarded by `!ptr.is_deleted()`; builds `In` values): a conversion,
//     out of scope as MapPrelim / From are.  `XmlElementRef::get_string`: iterates `Attributes(inner.entries(txn))` (both under
//     contract) inside string formatting (`write!`), not ingestible.  Display / Debug of Branch and BranchPtr print `map` raw
//     (tombstones included; debugging output).  `Store::get_type_from_path` (no caller in the crate) follows `map.get(key)` without
//     a tombstone test and matches on `ItemContent::Type`.
//   * TextRef / XmlTextRef formatting attributes are Format ITEMS of the text sequence, not entries of `branch.map` (the XML
//     attributes of an XmlTextRef are: trait `Xml`, covered).  event_keys (C11, unit events), integration / conflict resolution /
//     delete recursion (`block.rs`, `transaction.rs`) read `map` as WRITERS' bookkeeping.
//   * a rewrite of a reader that matches on `ItemContent::Type` / `Doc` / `Binary` .. (e.g. seeded/C17a-2, a to_json fast path)
//     is outside the abstract view (`Other`): the unit is then UNDECIDED (type error), not a verdict.
//
// NOT INGESTIBLE: `MapIntoIter` as a whole -- `std::collections::hash_map::IntoIter` has no vstd specification (and
//   `map.map.clone().into_iter()` is a consuming iterator).  The statement after `let (key, item) = self.entries.next()?;`
//   (the complete rest of `next`) is lifted (R18 statement region) into `map_into_iter_step(rest, key, item)`; `self.next()` is
//   spelled `rest.next()`, `rest` standing for the iterator after that pair (trait `IntoIterRest`, bodiless `next` whose result
//   is the uninterpreted `result()`).
#![allow(unused_imports, unused_variables, unused_mut, dead_code, unused_parens, unused_braces, unused_assignments)]
use vstd::prelude::*;
use std::collections::HashMap;
use std::marker::PhantomData;
use vstd::std_specs::iter::IteratorSpec;

verus! {

/*@rules R9 R10
   SUB(from=Arc<str>;;to=Str)
   SUB(from=&'a str;;to=&'a Str)
   SUB(from=&str;;to=&Str)
@*/

pub mod vx_base {
    use vstd::prelude::*;
    use core::ops::Range;
/*@include vx/prelude.rs @*/
}
use vx_base::vx_unreachable;

// ---------------------------------------------------------------------------------------------
// opaque stand-ins
// ---------------------------------------------------------------------------------------------
#[derive(PartialEq, Eq, Structural, Clone, Copy, Hash)]
pub struct Str(pub u64);

impl Str {
    /// `AsRef<str> for str`
    pub fn as_ref(&self) -> (r: &Str)
        ensures *r == *self,
    {
        self
    }

    /// `ToString for str` (through `Arc<str>: Deref<Target = str>`): the same characters
    pub fn to_string(&self) -> (r: Str)
        ensures r == *self,
    {
        *self
    }
}

pub mod vx_trusted {
    use vstd::prelude::*;
    use vstd::std_specs::hash::*;
    use super::Str;

    /// A4: `Arc<str>` / `String` (here `Str`) is a lawful std HashMap key
    #[verifier::external_body] pub broadcast proof fn axiom_str_key_model()
        ensures
            #[trigger] obeys_key_model::<Str>(),
    {
    }
}
use vx_trusted::*;

broadcast use {axiom_str_key_model};

/// `crate::any::Any` as far as the readers build it
#[derive(Clone, Copy)]
pub enum Any { Null, Undefined, Prim(u64), Map(Ghost<Map<Str, Any>>) }

/// `crate::out::Out`: a primitive value or a reference to a shared type / sub-document
#[derive(Clone, Copy)]
pub enum Out { Any(Any), Ref(u64) }

impl Any {
    /// `impl<T: Into<Any>> From<HashMap<String, T>> for Any` (T = Any): the Map variant with the same entries
    pub fn from(v: HashMap<Str, Any>) -> (r: Any)
        ensures r == Any::Map(Ghost(v@)),
    {
        Any::Map(Ghost(v@))
    }
}

pub trait ReadTxn {}

/// stand-in for `crate::encoding::read::Error` (what `from_any` fails with): opaque
pub struct Error(pub u64);

/// `serde::de::DeserializeOwned` as far as `Map::get_as` uses it: ABSTRACT -- the deserialization of a JSON value into `Self` is
/// the uninterpreted `from_any_spec` (bodiless trait method)
pub trait DeserializeOwned: Sized {
    spec fn from_any_spec(a: Any) -> Result<Self, Error>;

    fn vx_from_any(a: &Any) -> (r: Result<Self, Error>)
        ensures
            r == Self::from_any_spec(*a),
    ;
}

/// `crate::encoding::serde::from_any` (real: builds an AnyDeserializer and calls `T::deserialize`)
pub fn from_any<V: DeserializeOwned>(any: &Any) -> (r: Result<V, Error>)
    ensures
        r == V::from_any_spec(*any),
{
    V::vx_from_any(any)
}

/// `TryFrom<Out>` as far as `Map::get_or_init` uses it: ABSTRACT conversion of a value into a shared-type reference
pub trait TryFromOut: Sized {
    spec fn try_from_spec(o: Out) -> Result<Self, Out>;

    fn vx_try_from(o: Out) -> (r: Result<Self, Out>)
        ensures
            r == Self::try_from_spec(o),
    ;
}

impl Out {
    /// `TryInto::try_into` (blanket impl over `TryFrom<Out>`)
    pub fn try_into<V: TryFromOut>(self) -> (r: Result<V, Out>)
        ensures
            r == V::try_from_spec(self),
    {
        V::vx_try_from(self)
    }
}

pub mod vx_out {
    use vstd::prelude::*;
    use super::{Any, Out, ReadTxn};

    /// the JSON image of a value (`Out::to_json`): opaque outside this module
    pub closed spec fn json_of(o: Out) -> Any {
        match o {
            Out::Any(a) => a,
            Out::Ref(x) => Any::Prim(x),
        }
    }

    /// the first arm of the real `Out::to_json` (`Out::Any(a) => a.clone()`)
    pub proof fn lemma_json_of_any(a: Any)
        ensures json_of(Out::Any(a)) == a,
    {
    }

    impl Out {
        pub fn to_json<T: ReadTxn>(&self, txn: &T) -> (r: Any)
            ensures r == json_of(*self),
        {
            match self {
                Out::Any(a) => *a,
                Out::Ref(x) => Any::Prim(*x),
            }
        }
    }
}
use vx_out::*;

impl Default for Out {
    /*@extract yrs/src/out.rs | impl Default for Out | fn default | label=out_default
    @*/
}

// ---------------------------------------------------------------------------------------------
// real declarations + the lowered item / branch
// ---------------------------------------------------------------------------------------------
/*@extract yrs/src/block.rs | - | const ITEM_FLAG_DELETED @*/

#[derive(PartialEq, Eq, Structural, Clone, Copy)]
/*@extract yrs/src/block.rs | - | struct ItemFlags @*/

impl ItemFlags {
    pub closed spec fn bits(&self) -> u16 {
        self.0
    }

    /// the tombstone flag
    pub closed spec fn deleted(&self) -> bool {
        self.bits() & ITEM_FLAG_DELETED == ITEM_FLAG_DELETED
    }

    /*@extract yrs/src/block.rs | impl ItemFlags | fn check
    @ret r
    @sig
        ensures r == (self.bits() & value == value),
    @*/

    /*@extract yrs/src/block.rs | impl ItemFlags | fn is_deleted | label=flags_is_deleted
    @ret r
    @sig
        ensures r == self.deleted(),
    @*/
}

/// ABSTRACTION of the eight variants of `ItemContent` other than `Any` (Binary, Deleted, Doc, JSON, Embed, Format, String,
/// Type), see the table at the top
pub struct OtherContent {
    pub elems: Vec<Out>,
    pub last: Option<Out>,
}

/// `ItemContent`: the real variant `Any(Vec<Any>)` (what `Map::insert` of a primitive creates; code that looks into the content
/// of an entry matches on it) + the abstraction of the other variants
pub enum ItemContent {
    Any(Vec<Any>),
    Other(OtherContent),
}

impl ItemContent {
    /// what `get_last` returns
    pub open spec fn last_spec(&self) -> Option<Out> {
        match self {
            ItemContent::Any(v) => if v@.len() > 0 { Some(Out::Any(v@.last())) } else { None },
            ItemContent::Other(o) => o.last,
        }
    }

    /// the elements `read` / `get_content` yield
    pub open spec fn elems_spec(&self) -> Seq<Out> {
        match self {
            ItemContent::Any(v) => v@.map_values(|a: Any| Out::Any(a)),
            ItemContent::Other(o) => o.elems@,
        }
    }

    /// `ItemContent::get_last` (real Any arm: `v.last().map(|a| Out::Any(a.clone()))`)
    pub fn get_last(&self) -> (r: Option<Out>)
        ensures r == self.last_spec(),
    {
        match self {
            ItemContent::Any(v) => if v.len() > 0 { Some(Out::Any(v[v.len() - 1])) } else { None },
            ItemContent::Other(o) => o.last,
        }
    }

    /// `ItemContent::read`: copies `elems[offset..]` into `buf` as far as both reach; returns the number of elements copied
    /// (real Any arm: the same loop with `buf[j] = Out::Any(any.clone())`)
    pub fn read(&self, offset: usize, buf: &mut Vec<Out>) -> (n: usize)
        ensures
            n == (if offset <= self.elems_spec().len() { if self.elems_spec().len() - offset <= old(buf)@.len() { self.elems_spec().len() - offset } else { old(buf)@.len() as int } } else { 0 }),
            final(buf)@.len() == old(buf)@.len(),
            forall|j: int| 0 <= j < n ==> final(buf)@[j] == self.elems_spec()[offset + j],
            forall|j: int| n <= j < old(buf)@.len() ==> final(buf)@[j] == old(buf)@[j],
    {
        let mut i = offset;
        let mut j = 0;
        match self {
            ItemContent::Any(values) => {
                while i < values.len() && j < buf.len()
                    invariant
                        self.elems_spec().len() == values@.len(),
                        forall|k: int| 0 <= k < values@.len() ==> self.elems_spec()[k] == Out::Any(#[trigger] values@[k]),
                        buf@.len() == old(buf)@.len(),
                        i == offset + j,
                        j <= buf@.len(),
                        offset <= values@.len() ==> i <= values@.len(),
                        offset > values@.len() ==> j == 0,
                        forall|k: int| 0 <= k < j ==> buf@[k] == self.elems_spec()[offset + k],
                        forall|k: int| j <= k < old(buf)@.len() ==> buf@[k] == old(buf)@[k],
                    decreases buf@.len() - j,
                {
                    buf[j] = Out::Any(values[i]);
                    i += 1;
                    j += 1;
                }
            },
            ItemContent::Other(o) => {
                while i < o.elems.len() && j < buf.len()
                    invariant
                        self.elems_spec() == o.elems@,
                        buf@.len() == old(buf)@.len(),
                        i == offset + j,
                        j <= buf@.len(),
                        offset <= o.elems@.len() ==> i <= o.elems@.len(),
                        offset > o.elems@.len() ==> j == 0,
                        forall|k: int| 0 <= k < j ==> buf@[k] == o.elems@[offset + k],
                        forall|k: int| j <= k < old(buf)@.len() ==> buf@[k] == old(buf)@[k],
                    decreases buf@.len() - j,
                {
                    buf[j] = o.elems[i];
                    i += 1;
                    j += 1;
                }
            },
        }
        j
    }
}

/// sliced, see the table at the top
pub struct Item {
    pub len: u32,
    pub content: ItemContent,
    pub info: ItemFlags,
}

pub type ItemPtr = &'static Item;

/// sliced, see the table at the top
pub struct Branch {
    pub map: HashMap<Str, ItemPtr>,
}

pub type BranchPtr = &'static Branch;

/// the item is not a tombstone
pub open spec fn live(p: &Item) -> bool {
    !p.info.deleted()
}

impl Item {
    /*@extract yrs/src/block.rs | impl Item | fn is_deleted
    @ret r
    @sig
        ensures r == !live(self),
    @*/

    /*@extract yrs/src/block.rs | impl Item | fn len | label=item_len
    @ret r
    @sig
        ensures r == self.len,
    @*/
}

// ---------------------------------------------------------------------------------------------
// specification, part 1: the abstraction of a map-like branch
// ---------------------------------------------------------------------------------------------
/// one (key, entry item) pair of `branch.map`
pub type Pair = (Str, ItemPtr);

/// the keys a reader may report: those whose entry item is not a tombstone
pub open spec fn live_keys(m: Map<Str, ItemPtr>) -> Set<Str> {
    m.dom().filter(|k: Str| live(m[k]))
}

/// the entries a reader may report: live keys with the last value of their entry item
pub open spec fn entries(m: Map<Str, ItemPtr>) -> Map<Str, Out> {
    Map::new(m.dom().filter(|k: Str| live(m[k]) && m[k].content.last_spec() is Some), |k: Str| m[k].content.last_spec().unwrap())
}

pub open spec fn lookup<V>(m: Map<Str, V>, k: Str) -> Option<V> {
    if m.contains_key(k) { Some(m[k]) } else { None }
}

/// well-formedness of the entry items: every live entry item carries a value (content kind Any / JSON (non-empty), Binary,
/// Doc, Embed, String, Type).  NOT guaranteed by the code, see FINDING B.
pub open spec fn entries_wf(m: Map<Str, ItemPtr>) -> bool {
    forall|k: Str| #[trigger] live_keys(m).contains(k) ==> m[k].content.last_spec() is Some
}

/// what `Map::insert` creates with the crate's own Prelim types: exactly one value
pub open spec fn single_value(p: &Item) -> bool {
    p.len == 1 && p.content.elems_spec().len() == 1 && p.content.last_spec() == Some(p.content.elems_spec()[0])
}

/// every content kind but String: the last value is the last element
pub open spec fn seq_kind(p: &Item) -> bool {
    p.content.last_spec() == (if p.content.elems_spec().len() > 0 { Some(p.content.elems_spec().last()) } else { None })
}

/// the block length is the number of elements the content yields (false for Format, Deleted and for String content with
/// astral characters)
pub open spec fn item_len_ok(p: &Item) -> bool {
    p.len as int == p.content.elems_spec().len()
}

/// the value `to_json` serializes for a live entry item
pub open spec fn value_or_null(p: &Item) -> Out {
    match p.content.last_spec() {
        Some(v) => v,
        None => Out::Any(Any::Null),
    }
}

/// the entries of the JSON object `to_json` builds
pub open spec fn json_spec(m: Map<Str, ItemPtr>) -> Map<Str, Any> {
    Map::new(live_keys(m), |k: Str| json_of(value_or_null(m[k])))
}

/// under `entries_wf` the two abstractions have the same keys, and `to_json` is the JSON image of `entries`
pub proof fn lemma_wf_agree(m: Map<Str, ItemPtr>)
    ensures
        entries(m).dom().subset_of(live_keys(m)),
        live_keys(m).subset_of(m.dom()),
        entries_wf(m) <==> entries(m).dom() == live_keys(m),
        forall|k: Str| #[trigger] entries(m).contains_key(k) ==> json_spec(m).contains_key(k) && json_spec(m)[k] == json_of(entries(m)[k]),
        forall|k: Str| #[trigger] json_spec(m).contains_key(k) && !entries(m).contains_key(k) ==> json_spec(m)[k] == Any::Null,
        json_spec(m).dom() == live_keys(m),
{
    lemma_json_of_any(Any::Null);
    assert(json_spec(m).dom() =~= live_keys(m));
    if entries_wf(m) {
        assert forall|k: Str| live_keys(m).contains(k) implies entries(m).dom().contains(k) by {
            assert(m[k].content.last_spec() is Some);
        }
        assert(entries(m).dom() =~= live_keys(m));
    }
    if entries(m).dom() == live_keys(m) {
        assert forall|k: Str| #[trigger] live_keys(m).contains(k) implies m[k].content.last_spec() is Some by {
            assert(entries(m).dom().contains(k));
        }
    }
}

// ---------------------------------------------------------------------------------------------
// specification, part 2: sequences -- "the first element with f(x) == Some" and "all f(x) that are Some, in order"
// ---------------------------------------------------------------------------------------------
pub open spec fn opt_seq<A>(o: Option<A>) -> Seq<A> {
    match o {
        Some(a) => seq![a],
        None => Seq::empty(),
    }
}

/// index of the first element of `s` that `f` accepts; `s.len()` if there is none
pub open spec fn first_some<X, A>(s: Seq<X>, f: spec_fn(X) -> Option<A>) -> int
    decreases s.len(),
{
    if s.len() == 0 {
        0
    } else if f(s[0]) is Some {
        0
    } else {
        1 + first_some(s.drop_first(), f)
    }
}

/// the images of the elements `f` accepts, in the order of `s`
pub open spec fn pick<X, A>(s: Seq<X>, f: spec_fn(X) -> Option<A>) -> Seq<A>
    decreases s.len(),
{
    if s.len() == 0 {
        Seq::empty()
    } else {
        opt_seq(f(s[0])) + pick(s.drop_first(), f)
    }
}

pub proof fn lemma_first_bounds<X, A>(s: Seq<X>, f: spec_fn(X) -> Option<A>)
    ensures
        0 <= first_some(s, f) <= s.len(),
        forall|i: int| 0 <= i < first_some(s, f) ==> f(#[trigger] s[i]) is None,
        first_some(s, f) < s.len() ==> f(s[first_some(s, f)]) is Some,
    decreases s.len(),
{
    if s.len() > 0 && !(f(s[0]) is Some) {
        let t = s.drop_first();
        lemma_first_bounds(t, f);
        let n = first_some(s, f);
        assert forall|i: int| 0 <= i < n implies f(#[trigger] s[i]) is None by {
            if i > 0 {
                assert(s[i] == t[i - 1]);
            }
        }
        if n < s.len() {
            assert(s[n] == t[n - 1]);
        }
    }
}

/// `first_some` is characterized by its two properties
pub proof fn lemma_first_is<X, A>(s: Seq<X>, f: spec_fn(X) -> Option<A>, n: int)
    requires
        0 <= n <= s.len(),
        forall|i: int| 0 <= i < n ==> f(#[trigger] s[i]) is None,
        n < s.len() ==> f(s[n]) is Some,
    ensures
        first_some(s, f) == n,
    decreases s.len(),
{
    if n > 0 {
        let t = s.drop_first();
        assert(f(s[0]) is None);
        assert forall|i: int| 0 <= i < n - 1 implies f(#[trigger] t[i]) is None by {
            assert(t[i] == s[i + 1]);
        }
        if n - 1 < t.len() {
            assert(t[n - 1] == s[n]);
        }
        lemma_first_is(t, f, n - 1);
    }
}

/// a prefix that `f` rejects entirely can be skipped
pub proof fn lemma_first_skip<X, A>(s: Seq<X>, f: spec_fn(X) -> Option<A>, n: int)
    requires
        0 <= n <= s.len(),
        forall|i: int| 0 <= i < n ==> f(#[trigger] s[i]) is None,
    ensures
        first_some(s, f) == n + first_some(s.skip(n), f),
{
    let t = s.skip(n);
    lemma_first_bounds(t, f);
    let k = first_some(t, f);
    assert forall|i: int| 0 <= i < n + k implies f(#[trigger] s[i]) is None by {
        if i >= n {
            assert(t[i - n] == s[i]);
        }
    }
    if n + k < s.len() {
        assert(t[k] == s[n + k]);
    }
    lemma_first_is(s, f, n + k);
}

/// `pick` unfolded at the first accepted element
pub proof fn lemma_pick_at_first<X, A>(s: Seq<X>, f: spec_fn(X) -> Option<A>)
    ensures
        pick(s, f) == (if first_some(s, f) < s.len() {
            seq![f(s[first_some(s, f)]).unwrap()] + pick(s.skip(first_some(s, f) + 1), f)
        } else {
            Seq::empty()
        }),
    decreases s.len(),
{
    if s.len() > 0 {
        let t = s.drop_first();
        if f(s[0]) is Some {
            assert(s.skip(1) =~= t);
        } else {
            lemma_pick_at_first(t, f);
            lemma_first_bounds(t, f);
            let k = first_some(t, f);
            assert(pick(s, f) =~= pick(t, f));
            if k < t.len() {
                assert(t[k] == s[k + 1]);
                assert(t.skip(k + 1) =~= s.skip(k + 2));
            }
        }
    }
}

pub proof fn lemma_pick_mem<X, A>(s: Seq<X>, f: spec_fn(X) -> Option<A>, a: A)
    ensures
        pick(s, f).contains(a) <==> exists|j: int| 0 <= j < s.len() && f(#[trigger] s[j]) == Some(a),
    decreases s.len(),
{
    if s.len() > 0 {
        let t = s.drop_first();
        let h = opt_seq(f(s[0]));
        let p = pick(s, f);
        lemma_pick_mem(t, f, a);
        assert(p == h + pick(t, f));
        if p.contains(a) {
            let i = choose|i: int| 0 <= i < p.len() && p[i] == a;
            if i < h.len() {
                assert(f(s[0]) == Some(a));
            } else {
                assert(pick(t, f)[i - h.len()] == a);
                assert(pick(t, f).contains(a));
                let j = choose|j: int| 0 <= j < t.len() && f(#[trigger] t[j]) == Some(a);
                assert(t[j] == s[j + 1]);
                assert(f(s[j + 1]) == Some(a));
            }
        }
        if exists|j: int| 0 <= j < s.len() && f(#[trigger] s[j]) == Some(a) {
            let j = choose|j: int| 0 <= j < s.len() && f(#[trigger] s[j]) == Some(a);
            if j == 0 {
                assert(p[0] == a);
            } else {
                assert(t[j - 1] == s[j]);
                assert(f(t[j - 1]) == Some(a));
                assert(pick(t, f).contains(a));
                let i = choose|i: int| 0 <= i < pick(t, f).len() && pick(t, f)[i] == a;
                assert(p[h.len() + i] == a);
            }
        }
    } else {
        if pick(s, f).contains(a) {
            let i = choose|i: int| 0 <= i < pick(s, f).len() && pick(s, f)[i] == a;
        }
    }
}

/// if `f` is injective on the accepted elements of `s`, no image occurs twice
pub proof fn lemma_pick_nodup<X, A>(s: Seq<X>, f: spec_fn(X) -> Option<A>)
    requires
        forall|i: int, j: int| 0 <= i < j < s.len() && f(#[trigger] s[i]) is Some ==> f(s[i]) != f(#[trigger] s[j]),
    ensures
        pick(s, f).no_duplicates(),
    decreases s.len(),
{
    if s.len() > 0 {
        let t = s.drop_first();
        let h = opt_seq(f(s[0]));
        let p = pick(s, f);
        let q = pick(t, f);
        assert forall|i: int, j: int| 0 <= i < j < t.len() && f(#[trigger] t[i]) is Some implies f(t[i]) != f(#[trigger] t[j]) by {
            assert(t[i] == s[i + 1] && t[j] == s[j + 1]);
        }
        lemma_pick_nodup(t, f);
        assert(p == h + q);
        if f(s[0]) is Some {
            let a = f(s[0]).unwrap();
            lemma_pick_mem(t, f, a);
            if q.contains(a) {
                let j = choose|j: int| 0 <= j < t.len() && f(#[trigger] t[j]) == Some(a);
                assert(t[j] == s[j + 1]);
                assert(f(s[0]) != f(s[j + 1]));
                assert(false);
            }
            assert forall|i: int, j: int| 0 <= i < p.len() && 0 <= j < p.len() && i != j implies p[i] != p[j] by {
                if i == 0 {
                    assert(p[j] == q[j - 1]);
                    assert(q.contains(p[j]));
                } else if j == 0 {
                    assert(p[i] == q[i - 1]);
                    assert(q.contains(p[i]));
                } else {
                    assert(p[i] == q[i - 1] && p[j] == q[j - 1]);
                }
            }
        } else {
            assert(p =~= q);
        }
    }
}

/// LIFETIME READING of an iterator whose `next` returns the first accepted element of what is left and moves just behind it
/// (the contracts of Entries / Keys / Values / MapIter ::next below): `states[i]` is what is left before the i-th call,
/// `outs[i]` what that call returns, and the call after the last of them returns None
pub open spec fn is_trace<X, A>(states: Seq<Seq<X>>, outs: Seq<A>, f: spec_fn(X) -> Option<A>) -> bool {
    &&& states.len() == outs.len() + 1
    &&& forall|i: int| 0 <= i < outs.len() ==> {
        let n = first_some(#[trigger] states[i], f);
        n < states[i].len() && outs[i] == f(states[i][n]).unwrap() && states[i + 1] == states[i].skip(n + 1)
    }
    &&& first_some(states.last(), f) == states.last().len()
}

/// all the calls together return exactly `pick(states[0], f)`: the underlying order, filtered and projected by `f`
pub proof fn lemma_drain<X, A>(states: Seq<Seq<X>>, outs: Seq<A>, f: spec_fn(X) -> Option<A>)
    requires
        is_trace(states, outs, f),
    ensures
        outs == pick(states[0], f),
    decreases outs.len(),
{
    lemma_pick_at_first(states[0], f);
    if outs.len() == 0 {
        assert(states[0] == states.last());
        assert(outs =~= Seq::<A>::empty());
    } else {
        let st = states.drop_first();
        let ou = outs.drop_first();
        assert forall|i: int| 0 <= i < ou.len() implies ({
            let n = first_some(#[trigger] st[i], f);
            n < st[i].len() && ou[i] == f(st[i][n]).unwrap() && st[i + 1] == st[i].skip(n + 1)
        }) by {
            assert(st[i] == states[i + 1]);
            assert(st[i + 1] == states[i + 2]);
            assert(ou[i] == outs[i + 1]);
        }
        assert(st.last() == states.last());
        lemma_drain(st, ou, f);
        assert(st[0] == states[1]);
        let n = first_some(states[0], f);
        assert(outs =~= seq![outs[0]] + ou);
    }
}

// ---------------------------------------------------------------------------------------------
// specification, part 3: what the four iterators select from the pairs of the underlying hash_map::Iter
// ---------------------------------------------------------------------------------------------
/// Entries: the live pairs
pub open spec fn f_live() -> spec_fn(Pair) -> Option<Pair> {
    |x: Pair| if live(x.1) { Some(x) } else { None }
}

/// Keys: the keys of the live pairs
pub open spec fn f_key() -> spec_fn(Pair) -> Option<Str> {
    |x: Pair| if live(x.1) { Some(x.0) } else { None }
}

/// Values: all elements of the content of the live pairs
pub open spec fn f_vals() -> spec_fn(Pair) -> Option<Seq<Out>> {
    |x: Pair| if live(x.1) { Some(x.1.content.elems_spec()) } else { None }
}

/// MapIter: (key, last value) of the live pairs that have a last value
pub open spec fn f_kv() -> spec_fn(Pair) -> Option<(Str, Out)> {
    |x: Pair| if live(x.1) && x.1.content.last_spec() is Some { Some((x.0, x.1.content.last_spec().unwrap())) } else { None }
}

/// the (key, value) pairs behind the references a `hash_map::Iter` hands out
pub open spec fn pairs_of(raw: Seq<(&Str, &ItemPtr)>) -> Seq<Pair> {
    raw.map_values(|x: (&Str, &ItemPtr)| (*x.0, *x.1))
}

/// `s` enumerates the map `m`: every (key, value) pair exactly once (vstd's contract of `HashMap::iter`)
pub open spec fn enumerates(s: Seq<Pair>, m: Map<Str, ItemPtr>) -> bool {
    &&& s.len() == m.len()
    &&& s.no_duplicates()
    &&& forall|i: int| 0 <= i < s.len() ==> m.contains_key((#[trigger] s[i]).0) && m[s[i].0] == s[i].1
    &&& forall|k: Str| m.contains_key(k) ==> exists|i: int| 0 <= i < s.len() && (#[trigger] s[i]).0 == k
}

/// the same, stated on the references (the form in which vstd's `iter()` postcondition proves it)
pub open spec fn raw_enumerates(raw: Seq<(&Str, &ItemPtr)>, m: Map<Str, ItemPtr>) -> bool {
    &&& raw.len() == m.len()
    &&& raw.no_duplicates()
    &&& forall|i: int| 0 <= i < raw.len() ==> m.contains_key(*(#[trigger] raw[i]).0) && m[*raw[i].0] == *raw[i].1
    &&& forall|k: Str| m.contains_key(k) ==> exists|i: int| 0 <= i < raw.len() && *(#[trigger] raw[i]).0 == k
}

pub proof fn lemma_pairs_enumerate(raw: Seq<(&Str, &ItemPtr)>, m: Map<Str, ItemPtr>)
    requires
        raw_enumerates(raw, m),
    ensures
        enumerates(pairs_of(raw), m),
{
    let s = pairs_of(raw);
    assert forall|i: int, j: int| 0 <= i < s.len() && 0 <= j < s.len() && i != j implies s[i] != s[j] by {
        assert(raw[i] != raw[j]);
    }
    assert forall|i: int| 0 <= i < s.len() implies m.contains_key((#[trigger] s[i]).0) && m[s[i].0] == s[i].1 by {
        assert(m.contains_key(*raw[i].0));
    }
    assert forall|k: Str| m.contains_key(k) implies exists|i: int| 0 <= i < s.len() && (#[trigger] s[i]).0 == k by {
        let i = choose|i: int| 0 <= i < raw.len() && *(#[trigger] raw[i]).0 == k;
        assert(s[i].0 == k);
    }
}

/// what is left after the std iterator has handed out its next pair
pub proof fn lemma_pairs_drop_first(raw: Seq<(&Str, &ItemPtr)>)
    ensures
        pairs_of(raw).len() == raw.len(),
        raw.len() > 0 ==> pairs_of(raw.drop_first()) == pairs_of(raw).skip(1),
        raw.len() > 0 ==> pairs_of(raw)[0] == (*raw[0].0, *raw[0].1),
{
    if raw.len() > 0 {
        assert(pairs_of(raw.drop_first()) =~= pairs_of(raw).skip(1));
    }
}

/// an enumeration lists no key twice
pub proof fn lemma_keys_distinct(s: Seq<Pair>, m: Map<Str, ItemPtr>)
    requires
        enumerates(s, m),
    ensures
        forall|i: int, j: int| 0 <= i < s.len() && 0 <= j < s.len() && i != j ==> (#[trigger] s[i]).0 != (#[trigger] s[j]).0,
{
    assert forall|i: int, j: int| 0 <= i < s.len() && 0 <= j < s.len() && i != j implies (#[trigger] s[i]).0 != (#[trigger] s[j]).0 by {
        if s[i].0 == s[j].0 {
            // same key => same value => the same pair twice
            assert(m[s[i].0] == s[i].1 && m[s[j].0] == s[j].1);
            assert(s[i] == s[j]);
        }
    }
}

/// Entries, over its whole life: exactly the live pairs of the map, each once
pub proof fn theorem_entries(s: Seq<Pair>, m: Map<Str, ItemPtr>)
    requires
        enumerates(s, m),
    ensures
        pick(s, f_live()).no_duplicates(),
        forall|k: Str, p: ItemPtr| #[trigger] pick(s, f_live()).contains((k, p)) <==> live_keys(m).contains(k) && m[k] == p,
{
    lemma_keys_distinct(s, m);
    lemma_pick_nodup(s, f_live());
    assert forall|k: Str, p: ItemPtr| #[trigger] pick(s, f_live()).contains((k, p)) <==> live_keys(m).contains(k) && m[k] == p by {
        lemma_pick_mem(s, f_live(), (k, p));
        if live_keys(m).contains(k) && m[k] == p {
            let i = choose|i: int| 0 <= i < s.len() && (#[trigger] s[i]).0 == k;
            assert(f_live()(s[i]) == Some((k, p)));
        }
        if pick(s, f_live()).contains((k, p)) {
            let j = choose|j: int| 0 <= j < s.len() && f_live()(#[trigger] s[j]) == Some((k, p));
            assert(m.contains_key(s[j].0));
        }
    }
}

/// Keys, over its whole life: exactly live_keys(m), each once; their number is what `len` returns
pub proof fn theorem_keys(s: Seq<Pair>, m: Map<Str, ItemPtr>)
    requires
        enumerates(s, m),
    ensures
        pick(s, f_key()).no_duplicates(),
        pick(s, f_key()).to_set() == live_keys(m),
        pick(s, f_key()).len() == live_keys(m).len(),
        pick(s, f_live()).len() == live_keys(m).len(),
        live_keys(m).len() <= m.len(),
{
    lemma_keys_distinct(s, m);
    lemma_pick_nodup(s, f_key());
    let ks = pick(s, f_key());
    assert forall|k: Str| ks.to_set().contains(k) <==> live_keys(m).contains(k) by {
        lemma_pick_mem(s, f_key(), k);
        if live_keys(m).contains(k) {
            let i = choose|i: int| 0 <= i < s.len() && (#[trigger] s[i]).0 == k;
            assert(f_key()(s[i]) == Some(k));
        }
        if ks.contains(k) {
            let j = choose|j: int| 0 <= j < s.len() && f_key()(#[trigger] s[j]) == Some(k);
            assert(m.contains_key(s[j].0));
        }
    }
    assert(ks.to_set() =~= live_keys(m));
    ks.unique_seq_to_set();
    lemma_pick_same_len(s);
    m.dom().lemma_len_filter(|k: Str| live(m[k]));
}

/// Entries / Keys / Values select the same elements
pub proof fn lemma_pick_same_len(s: Seq<Pair>)
    ensures
        pick(s, f_live()).len() == pick(s, f_key()).len(),
        pick(s, f_key()) == pick(s, f_live()).map_values(|x: Pair| x.0),
        pick(s, f_vals()) == pick(s, f_live()).map_values(|x: Pair| x.1.content.elems_spec()),
    decreases s.len(),
{
    if s.len() > 0 {
        lemma_pick_same_len(s.drop_first());
    }
    assert(pick(s, f_key()) =~= pick(s, f_live()).map_values(|x: Pair| x.0));
    assert(pick(s, f_vals()) =~= pick(s, f_live()).map_values(|x: Pair| x.1.content.elems_spec()));
}

/// MapIter, over its whole life: exactly the pairs of entries(m), each once -- i.e. exactly what `get` returns
pub proof fn theorem_iter(s: Seq<Pair>, m: Map<Str, ItemPtr>)
    requires
        enumerates(s, m),
    ensures
        pick(s, f_kv()).no_duplicates(),
        forall|k: Str, v: Out| #[trigger] pick(s, f_kv()).contains((k, v)) <==> lookup(entries(m), k) == Some(v),
        // no key twice
        forall|i: int, j: int| 0 <= i < j < pick(s, f_kv()).len() ==> (#[trigger] pick(s, f_kv())[i]).0 != (#[trigger] pick(s, f_kv())[j]).0,
{
    lemma_keys_distinct(s, m);
    lemma_pick_nodup(s, f_kv());
    let kv = pick(s, f_kv());
    assert forall|k: Str, v: Out| #[trigger] kv.contains((k, v)) <==> lookup(entries(m), k) == Some(v) by {
        lemma_pick_mem(s, f_kv(), (k, v));
        if lookup(entries(m), k) == Some(v) {
            let i = choose|i: int| 0 <= i < s.len() && (#[trigger] s[i]).0 == k;
            assert(f_kv()(s[i]) == Some((k, v)));
        }
        if kv.contains((k, v)) {
            let j = choose|j: int| 0 <= j < s.len() && f_kv()(#[trigger] s[j]) == Some((k, v));
            assert(m.contains_key(s[j].0));
        }
    }
    assert forall|i: int, j: int| 0 <= i < j < kv.len() implies (#[trigger] kv[i]).0 != (#[trigger] kv[j]).0 by {
        if kv[i].0 == kv[j].0 {
            assert(kv.contains(kv[i]) && kv.contains(kv[j]));
            assert(kv.contains((kv[i].0, kv[i].1)) && kv.contains((kv[j].0, kv[j].1)));
            assert(lookup(entries(m), kv[i].0) == Some(kv[i].1));
            assert(lookup(entries(m), kv[j].0) == Some(kv[j].1));
            assert(kv[i] == kv[j]);
        }
    }
}

/// Values, over its whole life: in the order of Keys / Entries, the element list of each live entry item; for an item of a
/// `seq_kind` its last element is the value `get` returns for that key; for a `single_value` item it is [that value]
pub proof fn theorem_values(s: Seq<Pair>, m: Map<Str, ItemPtr>)
    requires
        enumerates(s, m),
    ensures
        pick(s, f_vals()).len() == pick(s, f_key()).len(),
        forall|i: int| 0 <= i < pick(s, f_vals()).len() ==> {
            let k = #[trigger] pick(s, f_key())[i];
            let vs = pick(s, f_vals())[i];
            &&& live_keys(m).contains(k)
            &&& vs == m[k].content.elems_spec()
            &&& seq_kind(m[k]) ==> lookup(entries(m), k) == (if vs.len() > 0 { Some(vs.last()) } else { None })
            &&& single_value(m[k]) ==> lookup(entries(m), k) == Some(vs[0]) && vs.len() == 1
        },
{
    lemma_pick_same_len(s);
    theorem_entries(s, m);
    let l = pick(s, f_live());
    assert forall|i: int| 0 <= i < pick(s, f_vals()).len() implies ({
        let k = #[trigger] pick(s, f_key())[i];
        let vs = pick(s, f_vals())[i];
        &&& live_keys(m).contains(k)
        &&& vs == m[k].content.elems_spec()
        &&& seq_kind(m[k]) ==> lookup(entries(m), k) == (if vs.len() > 0 { Some(vs.last()) } else { None })
        &&& single_value(m[k]) ==> lookup(entries(m), k) == Some(vs[0]) && vs.len() == 1
    }) by {
        assert(l.contains(l[i]));
        assert(l.contains((l[i].0, l[i].1)));
    }
}

/// OBSERVATION (String content): an item that is not of a `seq_kind` -- `get` returns the whole string as one value,
/// `values` its characters
pub proof fn lemma_values_vs_get_string(m: Map<Str, ItemPtr>, k: Str, whole: Out, a: Out, b: Out)
    requires
        m.contains_key(k),
        live(m[k]),
        m[k].content.last_spec() == Some(whole),
        m[k].content.elems_spec() == seq![a, b],
        whole != b,
    ensures
        lookup(entries(m), k) == Some(whole),
        !seq_kind(m[k]),
        m[k].content.elems_spec().last() != whole,
{
    assert(seq![a, b].last() == b);
}

/// TYING IT TOGETHER: for EVERY branch state `m` (and every order `s` in which the HashMap enumerates it)
///   keys() yields exactly live_keys(m), each once; len() is their number; contains_key is membership in it;
///   get(k) is lookup(entries(m), k), and it is Some only for live keys; iter() yields exactly the (k, get(k)) with get(k) Some,
///   no key twice; to_json has exactly the live keys, with the JSON image of get(k) wherever get(k) is Some (null otherwise);
///   and if no live entry is valueless (entries_wf) all of them describe the same key set.
pub proof fn theorem_read_paths_agree(s: Seq<Pair>, m: Map<Str, ItemPtr>)
    requires
        enumerates(s, m),
    ensures
        // keys / len / contains_key
        pick(s, f_key()).no_duplicates() && pick(s, f_key()).to_set() == live_keys(m) && pick(s, f_key()).len() == live_keys(m).len(),
        // get / iter
        forall|k: Str| lookup(entries(m), k) is Some ==> #[trigger] live_keys(m).contains(k),
        forall|k: Str, v: Out| #[trigger] pick(s, f_kv()).contains((k, v)) <==> lookup(entries(m), k) == Some(v),
        // to_json
        json_spec(m).dom() == live_keys(m),
        forall|k: Str| #[trigger] entries(m).contains_key(k) ==> json_spec(m)[k] == json_of(entries(m)[k]),
        // the condition under which ALL readers list the same keys
        entries_wf(m) <==> entries(m).dom() == live_keys(m),
        entries_wf(m) ==> pick(s, f_kv()).len() == live_keys(m).len(),
{
    theorem_keys(s, m);
    theorem_iter(s, m);
    lemma_wf_agree(m);
    if entries_wf(m) {
        // the keys of iter() are the keys of keys()
        let kv = pick(s, f_kv());
        let ks = kv.map_values(|x: (Str, Out)| x.0);
        assert forall|i: int, j: int| 0 <= i < ks.len() && 0 <= j < ks.len() && i != j implies ks[i] != ks[j] by {
            if i < j {
                assert(kv[i].0 != kv[j].0);
            } else {
                assert(kv[j].0 != kv[i].0);
            }
        }
        assert forall|k: Str| ks.to_set().contains(k) <==> live_keys(m).contains(k) by {
            if ks.contains(k) {
                let i = choose|i: int| 0 <= i < ks.len() && ks[i] == k;
                assert(kv.contains(kv[i]));
                assert(kv.contains((kv[i].0, kv[i].1)));
            }
            if live_keys(m).contains(k) {
                assert(m[k].content.last_spec() is Some);
                let v = m[k].content.last_spec().unwrap();
                assert(lookup(entries(m), k) == Some(v));
                assert(kv.contains((k, v)));
                let i = choose|i: int| 0 <= i < kv.len() && kv[i] == (k, v);
                assert(ks[i] == k);
            }
        }
        assert(ks.to_set() =~= live_keys(m));
        ks.unique_seq_to_set();
    }
}

/// keys(), drained: the keys it yields over its life are exactly live_keys(m), each exactly once, `len()` many
pub proof fn corollary_keys_drained(states: Seq<Seq<Pair>>, outs: Seq<Str>, m: Map<Str, ItemPtr>)
    requires
        enumerates(states[0], m),
        is_trace(states, outs, f_key()),
    ensures
        outs.no_duplicates(),
        outs.to_set() == live_keys(m),
        outs.len() == live_keys(m).len(),
{
    lemma_drain(states, outs, f_key());
    theorem_keys(states[0], m);
}

/// iter(), drained: the pairs it yields over its life are exactly the (k, v) with get(k) == Some(v), no key twice
pub proof fn corollary_iter_drained(states: Seq<Seq<Pair>>, outs: Seq<(Str, Out)>, m: Map<Str, ItemPtr>)
    requires
        enumerates(states[0], m),
        is_trace(states, outs, f_kv()),
    ensures
        outs.no_duplicates(),
        forall|k: Str, v: Out| #[trigger] outs.contains((k, v)) <==> lookup(entries(m), k) == Some(v),
        forall|i: int, j: int| 0 <= i < j < outs.len() ==> (#[trigger] outs[i]).0 != (#[trigger] outs[j]).0,
{
    lemma_drain(states, outs, f_kv());
    theorem_iter(states[0], m);
}

/// `Map::get_as` as a function of what `get` returns
pub open spec fn get_as_spec<V: DeserializeOwned>(got: Option<Out>) -> Result<V, Error> {
    V::from_any_spec(json_of(match got {
        Some(v) => v,
        None => Out::Any(Any::Null),
    }))
}

// ---- MapIter relative to Entries
/// where the first pair with a value lies, relative to the first live pair `n`: at `n` if that pair has a value; otherwise
/// where it lies in the rest `s.skip(n + 1)` (what the recursive call of `MapIter::next` sees)
pub proof fn lemma_kv_after_live(s: Seq<Pair>)
    ensures
        ({
            let n = first_some(s, f_live());
            let t = s.skip(n + 1);
            let k = first_some(t, f_kv());
            &&& 0 <= n <= s.len()
            &&& n == s.len() ==> first_some(s, f_kv()) == s.len()
            &&& n < s.len() && f_kv()(s[n]) is Some ==> first_some(s, f_kv()) == n
            &&& n < s.len() && f_kv()(s[n]) is None ==> {
                &&& first_some(s, f_kv()) == n + 1 + k
                &&& 0 <= k <= t.len()
                &&& k < t.len() ==> t[k] == s[n + 1 + k] && t.skip(k + 1) == s.skip(n + 1 + k + 1)
            }
        }),
{
    lemma_first_bounds(s, f_live());
    let n = first_some(s, f_live());
    assert forall|i: int| 0 <= i < n implies f_kv()(#[trigger] s[i]) is None by {
        assert(f_live()(s[i]) is None);
    }
    if n == s.len() {
        lemma_first_is(s, f_kv(), n);
    } else if f_kv()(s[n]) is Some {
        lemma_first_is(s, f_kv(), n);
    } else {
        lemma_first_skip(s, f_kv(), n + 1);
        let t = s.skip(n + 1);
        lemma_first_bounds(t, f_kv());
        let k = first_some(t, f_kv());
        if k < t.len() {
            assert(t.skip(k + 1) =~= s.skip(n + 1 + k + 1));
        }
    }
}

// ---- to_json: the loop
/// `cur` holds the JSON entries of the live pairs among the first `i`
pub open spec fn json_inv(cur: Map<Str, Any>, s: Seq<Pair>, m: Map<Str, ItemPtr>, i: int) -> bool {
    &&& forall|k: Str| #[trigger] cur.contains_key(k) <==> exists|j: int| 0 <= j < i && (#[trigger] s[j]).0 == k && live(s[j].1)
    &&& forall|k: Str| #[trigger] cur.contains_key(k) ==> m.contains_key(k) && cur[k] == json_of(value_or_null(m[k]))
}

pub proof fn lemma_json_step(s: Seq<Pair>, m: Map<Str, ItemPtr>, i: int, cur: Map<Str, Any>, nxt: Map<Str, Any>)
    requires
        enumerates(s, m),
        0 <= i < s.len(),
        json_inv(cur, s, m, i),
        nxt == (if live(s[i].1) { cur.insert(s[i].0, json_of(value_or_null(s[i].1))) } else { cur }),
    ensures
        json_inv(nxt, s, m, i + 1),
{
    let x = s[i];
    assert(m.contains_key(x.0) && m[x.0] == x.1);
    assert forall|k: Str| #[trigger] nxt.contains_key(k) <==> exists|j: int| 0 <= j < i + 1 && (#[trigger] s[j]).0 == k && live(s[j].1) by {
        if cur.contains_key(k) {
            let j = choose|j: int| 0 <= j < i && (#[trigger] s[j]).0 == k && live(s[j].1);
            assert(0 <= j < i + 1 && s[j].0 == k && live(s[j].1));
        }
        if exists|j: int| 0 <= j < i + 1 && (#[trigger] s[j]).0 == k && live(s[j].1) {
            let j = choose|j: int| 0 <= j < i + 1 && (#[trigger] s[j]).0 == k && live(s[j].1);
            if j < i {
                assert(0 <= j < i && s[j].0 == k && live(s[j].1));
                assert(cur.contains_key(k));
            }
        }
        if live(x.1) && k == x.0 {
            assert(0 <= i < i + 1 && s[i].0 == k && live(s[i].1));
        }
    }
}

pub proof fn lemma_json_done(s: Seq<Pair>, m: Map<Str, ItemPtr>, cur: Map<Str, Any>)
    requires
        enumerates(s, m),
        json_inv(cur, s, m, s.len() as int),
    ensures
        cur == json_spec(m),
{
    assert forall|k: Str| cur.contains_key(k) <==> json_spec(m).contains_key(k) by {
        if cur.contains_key(k) {
            let j = choose|j: int| 0 <= j < s.len() && (#[trigger] s[j]).0 == k && live(s[j].1);
            assert(m.contains_key(s[j].0) && m[s[j].0] == s[j].1);
        }
        if live_keys(m).contains(k) {
            let j = choose|j: int| 0 <= j < s.len() && (#[trigger] s[j]).0 == k;
            assert(m[s[j].0] == s[j].1);
            assert(0 <= j < s.len() && s[j].0 == k && live(s[j].1));
        }
    }
    assert(cur =~= json_spec(m));
}

/// the loop of `to_json`, after `i` pairs of the enumeration `raw`
pub open spec fn json_loop_inv(res: Map<Str, Any>, raw: Seq<(&Str, &ItemPtr)>, m: Map<Str, ItemPtr>, i: int) -> bool {
    &&& raw_enumerates(raw, m)
    &&& 0 <= i <= raw.len()
    &&& json_inv(res, pairs_of(raw), m, i)
}

// ---- len: the loop
/// number of live items among the first `i` pairs
pub open spec fn live_count(s: Seq<Pair>, i: int) -> nat
    decreases i,
{
    if i <= 0 {
        0
    } else {
        live_count(s, i - 1) + (if live(s[i - 1].1) { 1nat } else { 0nat })
    }
}

/// the loop of `len`, after `i` pairs of the enumeration `raw`
pub open spec fn len_loop_inv(len: int, raw: Seq<(&Str, &ItemPtr)>, m: Map<Str, ItemPtr>, i: int) -> bool {
    &&& raw_enumerates(raw, m)
    &&& 0 <= i <= raw.len()
    &&& len == live_count(pairs_of(raw), i)
}

pub proof fn lemma_live_count_mono(s: Seq<Pair>, i: int, j: int)
    requires
        i <= j,
    ensures
        live_count(s, i) <= live_count(s, j),
    decreases j - i,
{
    if i < j {
        lemma_live_count_mono(s, i, j - 1);
    }
}

pub proof fn lemma_live_count_shift(s: Seq<Pair>, i: int)
    requires
        0 <= i < s.len(),
    ensures
        live_count(s, i + 1) == live_count(s.drop_first(), i) + (if live(s[0].1) { 1nat } else { 0nat }),
    decreases i,
{
    if i > 0 {
        lemma_live_count_shift(s, i - 1);
        assert(s.drop_first()[i - 1] == s[i]);
    } else {
        assert(live_count(s, 0) == 0 && live_count(s.drop_first(), 0) == 0);
    }
}

pub proof fn lemma_live_count_pick(s: Seq<Pair>)
    ensures
        live_count(s, s.len() as int) == pick(s, f_live()).len(),
    decreases s.len(),
{
    if s.len() > 0 {
        lemma_live_count_pick(s.drop_first());
        lemma_live_count_shift(s, s.len() - 1);
    }
}

/// all pairs of an enumeration counted: the number of live keys
pub proof fn lemma_live_count_total(s: Seq<Pair>, m: Map<Str, ItemPtr>)
    requires
        enumerates(s, m),
    ensures
        live_count(s, s.len() as int) == live_keys(m).len(),
{
    lemma_live_count_pick(s);
    theorem_keys(s, m);
}

// ---------------------------------------------------------------------------------------------
// the real code, part 1: Entries (yrs/src/types/mod.rs)
// ---------------------------------------------------------------------------------------------
/*@extract yrs/src/types/mod.rs | - | struct Entries @*/

impl<'a, B, T: ReadTxn> Entries<'a, B, T> {
    /// representation invariant: the wrapped std iterator is one that vstd's iterator laws speak about
    pub closed spec fn wf(&self) -> bool {
        self.iter.obeys_prophetic_iter_laws() && self.iter.decrease() is Some
    }

    /// the pairs the wrapped `hash_map::Iter` has not handed out yet, in its order
    #[verifier::prophetic]
    pub closed spec fn pending(&self) -> Seq<Pair> {
        pairs_of(self.iter.remaining())
    }

    /// termination measure of the wrapped iterator
    pub closed spec fn measure(&self) -> nat {
        self.iter.decrease().unwrap()
    }

    /*@extract yrs/src/types/mod.rs | impl<'a, B, T: ReadTxn> Entries<'a, B, T> where B: Borrow<T>, T: ReadTxn, | fn new | label=entries_new
    @ret r
    @sig
        ensures
            r.wf(),
            enumerates(r.pending(), source@),
    @before 1 `Entries {`
        proof {
            assert forall|raw: Seq<(&Str, &ItemPtr)>| raw_enumerates(raw, source@) implies enumerates(#[trigger] pairs_of(raw), source@) by {
                lemma_pairs_enumerate(raw, source@);
            }
        }
    @*/

    /*@extract yrs/src/types/mod.rs | impl<'a, B, T> Iterator for Entries<'a, B, T> where B: Borrow<T>, T: ReadTxn, | fn next | label=entries_next | rules=SUB(from=Option<Self::Item>;;to=Option<(&'a Str, &'a Item)>) SUB(from=(key, ptr) = self.iter.next()?;;to=let vx_n = self.iter.next()?; key = vx_n.0; ptr = vx_n.1)
    @ret r
    @sig
        requires
            old(self).wf(),
        ensures
            final(self).wf(),
            // the first pair whose item is not deleted, if there is one ...
            r is Some <==> first_some(old(self).pending(), f_live()) < old(self).pending().len(),
            r is Some ==> *r.unwrap().0 == old(self).pending()[first_some(old(self).pending(), f_live())].0
                && r.unwrap().1 == old(self).pending()[first_some(old(self).pending(), f_live())].1
                && live(r.unwrap().1),
            // ... and the iterator stands just behind it (exhausted if there is none)
            final(self).pending() =~= (if r is Some { old(self).pending().skip(first_some(old(self).pending(), f_live()) + 1) } else { Seq::empty() }),
            r is Some ==> final(self).measure() < old(self).measure(),
    @start
        let ghost vx_s = self.pending();
        let ghost mut vx_i: int = 0;
        proof {
            lemma_pairs_drop_first(self.iter.remaining());
        }
    @loop 1
        invariant
            self.wf(),
            0 <= vx_i < vx_s.len(),
            forall|i: int| 0 <= i < vx_i ==> !live((#[trigger] vx_s[i]).1),
            vx_s[vx_i] == (*key, *ptr),
            self.pending() == vx_s.skip(vx_i + 1),
            self.measure() < old(self).measure(),
            vx_s == old(self).pending(),
        decreases self.measure(),
    @before 1 `stmt:let vx_n`
        proof {
            assert(!live(vx_s[vx_i].1));
            lemma_pairs_drop_first(self.iter.remaining());
            assert(vx_i + 1 < vx_s.len() ==> vx_s.skip(vx_i + 1).skip(1) =~= vx_s.skip(vx_i + 2));
            assert(vx_i + 1 < vx_s.len() ==> vx_s.skip(vx_i + 1)[0] == vx_s[vx_i + 1]);
            // if nothing is left, every pair was a tombstone
            assert(vx_i + 1 >= vx_s.len() ==> first_some(vx_s, f_live()) == vx_s.len()) by {
                if vx_i + 1 >= vx_s.len() {
                    lemma_first_is(vx_s, f_live(), vx_s.len() as int);
                }
            }
        }
    @after 1 `stmt:assign ptr`
        proof {
            vx_i = vx_i + 1;
        }
    @before 1 `stmt:call Some`
        proof {
            lemma_first_is(vx_s, f_live(), vx_i);
        }
    @*/
}

impl<'a, T: ReadTxn> Entries<'a, &'a T, T> {
    /*@extract yrs/src/types/mod.rs | impl<'a, T: ReadTxn> Entries<'a, &'a T, T> where T: Borrow<T> + ReadTxn, | fn from_ref | label=entries_from_ref
    @ret r
    @sig
        ensures
            r.wf(),
            enumerates(r.pending(), source@),
    @*/
}

// ---------------------------------------------------------------------------------------------
// the real code, part 2: Branch::get (yrs/src/branch.rs)
// ---------------------------------------------------------------------------------------------
impl Branch {
    /*@extract yrs/src/branch.rs | impl Branch | fn get | label=branch_get
    @ret r
    @sig
        ensures
            // Some(v) iff the key is live and its entry item has a last value v
            r == lookup(entries(self.map@), *key),
            r is Some ==> live_keys(self.map@).contains(*key),
    @*/

    /*@extract yrs/src/branch.rs | impl Branch | fn entries | label=branch_entries
    @ret r
    @sig
        ensures
            r.wf(),
            enumerates(r.pending(), self.map@),
    @*/
}

/// what `get` returns for a key whose entry item is `p`
pub open spec fn item_value(p: &Item) -> Option<Out> {
    if live(p) { p.content.last_spec() } else { None }
}

// the value `Branch::remove` (= `Map::remove`, `Xml::remove_attribute`) REPORTS: the statement `let prev = ..` (the rest of the
// function deletes the item: a writer, not here).  STEP level.
/*@extract yrs/src/branch.rs | impl Branch | region remove | stmt=stmt:let prev | stmtnth=1 | label=remove_read_step | tail=prev
@header
    pub fn branch_remove_read(item: ItemPtr) -> (r: Option<Out>)
@sig
    ensures
        // exactly what `get` returned for that key just before
        r == item_value(item),
@*/

// ---------------------------------------------------------------------------------------------
// the real code, part 3: the iterators of map.rs
// ---------------------------------------------------------------------------------------------
/*@extract yrs/src/types/map.rs | - | struct MapRef @*/

/*@extract yrs/src/types/map.rs | - | struct Keys @*/

/*@extract yrs/src/types/map.rs | - | struct Values @*/

/*@extract yrs/src/types/map.rs | - | struct MapIter @*/

impl<'a, B, T: ReadTxn> Keys<'a, B, T> {
    pub closed spec fn wf(&self) -> bool {
        self.0.wf()
    }

    #[verifier::prophetic]
    pub closed spec fn pending(&self) -> Seq<Pair> {
        self.0.pending()
    }

    /*@extract yrs/src/types/map.rs | impl<'a, B, T> Keys<'a, B, T> where B: Borrow<T>, T: ReadTxn, | fn new | label=keys_new
    @ret r
    @sig
        ensures
            r.wf(),
            enumerates(r.pending(), branch.map@),
    @*/

    /*@extract yrs/src/types/map.rs | impl<'a, B, T> Iterator for Keys<'a, B, T> where B: Borrow<T>, T: ReadTxn, | fn next | label=keys_next | rules=SUB(from=Option<Self::Item>;;to=Option<&'a Str>)
    @ret r
    @sig
        requires
            old(self).wf(),
        ensures
            final(self).wf(),
            // the key of the first pair whose item is not deleted
            r is Some <==> first_some(old(self).pending(), f_key()) < old(self).pending().len(),
            r is Some ==> Some(*r.unwrap()) == f_key()(old(self).pending()[first_some(old(self).pending(), f_key())]),
            final(self).pending() =~= (if r is Some { old(self).pending().skip(first_some(old(self).pending(), f_key()) + 1) } else { Seq::empty() }),
    @start
        proof {
            lemma_same_first(self.pending());
        }
    @*/
}

impl<'a, B, T: ReadTxn> Values<'a, B, T> {
    pub closed spec fn wf(&self) -> bool {
        self.0.wf()
    }

    #[verifier::prophetic]
    pub closed spec fn pending(&self) -> Seq<Pair> {
        self.0.pending()
    }

    /*@extract yrs/src/types/map.rs | impl<'a, B, T> Values<'a, B, T> where B: Borrow<T>, T: ReadTxn, | fn new | label=values_new
    @ret r
    @sig
        ensures
            r.wf(),
            enumerates(r.pending(), branch.map@),
    @*/

    // OBSERVATION C: the `panic!` in the else branch is excluded exactly by `item_len_ok` of the entry items (a precondition
    // here), which holds for every entry the Map API creates but not for Format content or String content with astral
    // characters injected by a hand-crafted update (see the header).
    /*@extract yrs/src/types/map.rs | impl<'a, B, T> Iterator for Values<'a, B, T> where B: Borrow<T>, T: ReadTxn, | fn next | label=values_next | rules=SUB(from=Option<Self::Item>;;to=Option<Vec<Out>>)
    @ret r
    @sig
        requires
            old(self).wf(),
            // OBSERVATION C: the block length of every entry item equals the number of elements its content yields (true for
            // every entry the crate's own Map API creates: Any(vec![v]) / Type / Doc / Embed, one element each)
            forall|i: int| 0 <= i < old(self).pending().len() ==> item_len_ok(#[trigger] old(self).pending()[i].1),
        ensures
            final(self).wf(),
            // ALL elements of the content of the first pair whose item is not deleted
            r is Some <==> first_some(old(self).pending(), f_vals()) < old(self).pending().len(),
            r is Some && item_len_ok(old(self).pending()[first_some(old(self).pending(), f_vals())].1)
                ==> Some(r.unwrap()@) == f_vals()(old(self).pending()[first_some(old(self).pending(), f_vals())]),
            final(self).pending() =~= (if r is Some { old(self).pending().skip(first_some(old(self).pending(), f_vals()) + 1) } else { Seq::empty() }),
    @start
        proof {
            lemma_same_first(self.pending());
        }
    @before 1 `stmt:call Some`
        proof {
            assert(item_len_ok(item) ==> values@ =~= item.content.elems_spec());
        }
    @*/
}

impl<'a, B, T: ReadTxn> MapIter<'a, B, T> {
    pub closed spec fn wf(&self) -> bool {
        self.0.wf()
    }

    #[verifier::prophetic]
    pub closed spec fn pending(&self) -> Seq<Pair> {
        self.0.pending()
    }

    pub closed spec fn measure(&self) -> nat {
        self.0.measure()
    }

    /*@extract yrs/src/types/map.rs | impl<'a, B, T> MapIter<'a, B, T> where B: Borrow<T>, T: ReadTxn, | fn new | label=map_iter_new
    @ret r
    @sig
        ensures
            r.wf(),
            enumerates(r.pending(), branch.map@),
    @*/

    /*@extract yrs/src/types/map.rs | impl<'a, B, T> Iterator for MapIter<'a, B, T> where B: Borrow<T>, T: ReadTxn, | fn next | label=map_iter_next | rules=SUB(from=Option<Self::Item>;;to=Option<(&'a Str, Out)>)
    @ret r
    @sig
        requires
            old(self).wf(),
        ensures
            final(self).wf(),
            // (key, last value) of the first pair whose item is not deleted AND has a last value
            r is Some <==> first_some(old(self).pending(), f_kv()) < old(self).pending().len(),
            r is Some ==> Some((*r.unwrap().0, r.unwrap().1)) == f_kv()(old(self).pending()[first_some(old(self).pending(), f_kv())]),
            final(self).pending() =~= (if r is Some { old(self).pending().skip(first_some(old(self).pending(), f_kv()) + 1) } else { Seq::empty() }),
            r is Some ==> final(self).measure() < old(self).measure(),
        decreases old(self).measure(),
    @start
        let ghost vx_s = self.pending();
        proof {
            lemma_kv_after_live(vx_s);
        }
    @*/
}

/// Entries, Keys and Values stop at the same pair
pub proof fn lemma_same_first(s: Seq<Pair>)
    ensures
        first_some(s, f_key()) == first_some(s, f_live()),
        first_some(s, f_vals()) == first_some(s, f_live()),
        0 <= first_some(s, f_live()) <= s.len(),
{
    lemma_first_bounds(s, f_live());
    let n = first_some(s, f_live());
    assert forall|i: int| 0 <= i < n implies f_key()(#[trigger] s[i]) is None && f_vals()(s[i]) is None by {
        assert(f_live()(s[i]) is None);
    }
    lemma_first_is(s, f_key(), n);
    lemma_first_is(s, f_vals(), n);
}

// ---------------------------------------------------------------------------------------------
// the real code, part 4: MapIntoIter::next, the statement after `let (key, item) = self.entries.next()?;`
// ---------------------------------------------------------------------------------------------
/// a `MapIntoIter` after one pair has been taken out of `entries`
pub trait IntoIterRest {
    /// what `MapIntoIter::next` returns on it
    spec fn result(&self) -> Option<(Str, Out)>;

    fn next(&mut self) -> (r: Option<(Str, Out)>)
        ensures
            r == old(self).result(),
    ;
}

// (finding A, repaired: before fix cf619ba the second clause failed -- a tombstone that still held its content was yielded)
/*@extract yrs/src/types/map.rs | impl<'a, T: ReadTxn> Iterator for MapIntoIter<'a, T> | region next | stmt=stmt:if | stmtnth=1 | label=map_into_iter_step | rules=SUB(from=self.next();;to=rest.next())
@header
    pub fn map_into_iter_step<R: IntoIterRest>(rest: &mut R, key: Str, item: ItemPtr) -> (r: Option<(Str, Out)>)
@sig
    ensures
        // a live pair is yielded with its last value; a live pair without one is skipped
        live(item) ==> r == (match item.content.last_spec() { Some(v) => Some((key, v)), None => old(rest).result() }),
        // a tombstone is skipped (finding A, repaired)
        !live(item) ==> r == old(rest).result(),
@*/

// ---------------------------------------------------------------------------------------------
// the real code, part 4b: the loop bodies of `len` and `to_json` on their own (so that an edit of a body fails a contract
// clause of real code and not only the loop invariant spliced into the whole function below)
// ---------------------------------------------------------------------------------------------
/*@extract yrs/src/types/map.rs | trait Map: AsRef<Branch> + Sized | region len | stmt=stmt:if | stmtnth=1 | label=len_step | tail=len
@header
    pub fn map_len_step(item: &ItemPtr, mut len: u32) -> (r: u32)
@sig
    requires
        len < u32::MAX,
    ensures
        // a live entry item counts, a tombstone does not
        r == len + (if live(*item) { 1int } else { 0int }),
@*/

/*@extract yrs/src/types/map.rs | impl ToJson for MapRef | region to_json | stmt=stmt:if | stmtnth=1 | label=to_json_step
@header
    pub fn map_to_json_step<T: ReadTxn>(txn: &T, key: &Str, item: &ItemPtr, res: &mut HashMap<Str, Any>)
@sig
    ensures
        // a live entry item contributes key -> JSON image of its last value (null if it has none), a tombstone nothing
        final(res)@ == (if live(*item) { old(res)@.insert(*key, json_of(value_or_null(*item))) } else { old(res)@ }),
@*/

// ---------------------------------------------------------------------------------------------
// the real code, part 4c: the READ side of `Map::get_or_init` (the statement before `V::default_prelim()` / `self.insert`, which
// are the write side): `return value` is spelled `return Some(value)`, falling through is `None` (SUB / tail, logged).  STEP level.
// ---------------------------------------------------------------------------------------------
/// what `get_or_init` finds: the conversion of exactly get(k)'s value, if there is one and it converts
pub open spec fn found_spec<V: TryFromOut>(got: Option<Out>) -> Option<V> {
    match got {
        Some(v) => match V::try_from_spec(v) {
            Ok(x) => Some(x),
            Err(_) => None,
        },
        None => None,
    }
}

/*@extract yrs/src/types/map.rs | trait Map: AsRef<Branch> + Sized | region get_or_init | stmt=stmt:if | stmtnth=1 | label=get_or_init_read_step | tail=None | rules=SUB(from=return value;;to=return Some(value))
@header
    pub fn map_get_or_init_read<T: ReadTxn, V: TryFromOut>(branch: &Branch, txn: &T, key: Str) -> (r: Option<V>)
@sig
    ensures
        // a tombstone or a missing key is "not found" (then the caller re-initializes the entry)
        r == found_spec::<V>(lookup(entries(branch.map@), key)),
@*/

// ---------------------------------------------------------------------------------------------
// the real code, part 5: the default methods of trait Map and ToJson for MapRef, as inherent methods of MapRef
// ---------------------------------------------------------------------------------------------
impl MapRef {
    /// the map component of the branch behind the reference
    pub closed spec fn entries_map(&self) -> Map<Str, ItemPtr> {
        self.0.map@
    }

    /*@extract yrs/src/types/map.rs | impl AsRef<Branch> for MapRef | fn as_ref | rules=SUB(from=self.0.deref();;to=self.0)
    @ret r
    @sig
        ensures
            r.map@ == self.entries_map(),
    @*/

    /*@extract yrs/src/types/map.rs | trait Map: AsRef<Branch> + Sized | fn len | rules=SUB(from=for item in inner.map.values() {;;to=for (_vx_key, item) in inner.map.iter() {)
    @ret r
    @sig
        requires
            // DOMAIN RESTRICTION: `len += 1` is an unchecked u32 addition
            live_keys(self.entries_map()).len() <= u32::MAX,
        ensures
            r == live_keys(self.entries_map()).len(),
    @loop 1 iter=it
        invariant
            inner.map@ == self.entries_map(),
            live_keys(inner.map@).len() <= u32::MAX,
            len_loop_inv(len as int, it.snapshot@.remaining(), inner.map@, it.index@ as int),
    @before 1 `stmt:if`
        proof {
            let s = pairs_of(it.snapshot@.remaining());
            lemma_pairs_enumerate(it.snapshot@.remaining(), inner.map@);
            lemma_live_count_total(s, inner.map@);
            lemma_live_count_mono(s, it.index@ as int + 1, s.len() as int);
        }
    @before 1 `stmt:expr len`
        proof {
            assert forall|raw: Seq<(&Str, &ItemPtr)>, i: int| #[trigger] len_loop_inv(len as int, raw, inner.map@, i) && i == raw.len()
                implies len as int == live_keys(inner.map@).len() by {
                lemma_pairs_enumerate(raw, inner.map@);
                lemma_live_count_total(pairs_of(raw), inner.map@);
            }
        }
    @*/

    /*@extract yrs/src/types/map.rs | trait Map: AsRef<Branch> + Sized | fn keys
    @ret r
    @sig
        ensures
            r.wf(),
            enumerates(r.pending(), self.entries_map()),
    @*/

    /*@extract yrs/src/types/map.rs | trait Map: AsRef<Branch> + Sized | fn values
    @ret r
    @sig
        ensures
            r.wf(),
            enumerates(r.pending(), self.entries_map()),
    @*/

    /*@extract yrs/src/types/map.rs | trait Map: AsRef<Branch> + Sized | fn iter
    @ret r
    @sig
        ensures
            r.wf(),
            enumerates(r.pending(), self.entries_map()),
    @*/

    /*@extract yrs/src/types/map.rs | trait Map: AsRef<Branch> + Sized | fn get | rules=SUB(from=BranchPtr::from(self.as_ref());;to=self.as_ref())
    @ret r
    @sig
        ensures
            r == lookup(entries(self.entries_map()), *key),
            r is Some ==> live_keys(self.entries_map()).contains(*key),
    @*/

    /*@extract yrs/src/types/map.rs | trait Map: AsRef<Branch> + Sized | fn get_as | rules=SUB(from=BranchPtr::from(self.as_ref());;to=self.as_ref())
    @ret r
    @sig
        ensures
            // determined by `get`: the deserialization of the JSON image of exactly get(k)'s value, of JSON null if get(k) is None
            r == get_as_spec::<V>(lookup(entries(self.entries_map()), *key)),
            lookup(entries(self.entries_map()), *key) is None ==> r == V::from_any_spec(Any::Null),
    @start
        proof {
            lemma_json_of_any(Any::Null);
        }
    @*/

    // OBSERVATION B: a live entry item without a last value (Format content; not creatable through the Map API) is reported as
    // present here (and by len / keys / to_json) but `get` returns None and `iter` skips it (see the header).
    /*@extract yrs/src/types/map.rs | trait Map: AsRef<Branch> + Sized | fn contains_key
    @ret r
    @sig
        ensures
            r == live_keys(self.entries_map()).contains(*key),
            // contains_key(k) <==> get(k) is Some, if no live entry item is valueless ...
            // (OBSERVATION B: not in every state -- a live Format entry is reported here but has no value for get/iter)
            entries_wf(self.entries_map()) ==> r == entries(self.entries_map()).contains_key(*key),
    @*/

    /*@extract yrs/src/types/map.rs | impl ToJson for MapRef | fn to_json
    @ret r
    @sig
        ensures
            r == Any::Map(Ghost(json_spec(self.entries_map()))),
    @loop 1 iter=it
        invariant
            inner.map@ == self.entries_map(),
            json_loop_inv(res@, it.snapshot@.remaining(), inner.map@, it.index@ as int),
    @before 1 `stmt:if`
        let ghost vx_cur = res@;
        proof {
            lemma_pairs_enumerate(it.snapshot@.remaining(), inner.map@);
        }
    @after 1 `stmt:if`
        proof {
            lemma_json_step(pairs_of(it.snapshot@.remaining()), inner.map@, it.index@ as int, vx_cur, res@);
        }
    @before 1 `stmt:call from`
        proof {
            assert forall|raw: Seq<(&Str, &ItemPtr)>, i: int| #[trigger] json_loop_inv(res@, raw, inner.map@, i) && i == raw.len()
                implies res@ == json_spec(inner.map@) by {
                lemma_pairs_enumerate(raw, inner.map@);
                lemma_json_done(pairs_of(raw), inner.map@, res@);
            }
        }
    @*/
}

// ---------------------------------------------------------------------------------------------
// the real code, part 6: the ATTRIBUTE readers of XML nodes (yrs/src/types/xml.rs): trait `Xml` default methods `get_attribute`,
// `attributes` (implementors XmlElementRef, XmlTextRef; emitted as inherent methods of XmlElementRef), `Attributes::{new, next}`.
// They read the same `branch.map` through the same `Branch::get` / `Entries`.
// ---------------------------------------------------------------------------------------------
/*@extract yrs/src/types/xml.rs | - | struct XmlElementRef @*/

/*@extract yrs/src/types/xml.rs | - | struct Attributes @*/

impl<'a, B, T: ReadTxn> Attributes<'a, B, T> {
    pub closed spec fn wf(&self) -> bool {
        self.0.wf()
    }

    #[verifier::prophetic]
    pub closed spec fn pending(&self) -> Seq<Pair> {
        self.0.pending()
    }

    pub closed spec fn measure(&self) -> nat {
        self.0.measure()
    }

    /*@extract yrs/src/types/xml.rs | impl<'a, B, T> Attributes<'a, B, T> where B: Borrow<T>, T: ReadTxn, | fn new | label=attributes_new
    @ret r
    @sig
        ensures
            r.wf(),
            enumerates(r.pending(), branch.map@),
    @*/

    /*@extract yrs/src/types/xml.rs | impl<'a, B, T> Iterator for Attributes<'a, B, T> where B: Borrow<T>, T: ReadTxn, | fn next | label=attributes_next | rules=SUB(from=Option<Self::Item>;;to=Option<(&'a Str, Out)>)
    @ret r
    @sig
        requires
            old(self).wf(),
        ensures
            final(self).wf(),
            // the SAME contract as MapIter::next: (key, last value) of the first live pair that has a last value
            r is Some <==> first_some(old(self).pending(), f_kv()) < old(self).pending().len(),
            r is Some ==> Some((*r.unwrap().0, r.unwrap().1)) == f_kv()(old(self).pending()[first_some(old(self).pending(), f_kv())]),
            final(self).pending() =~= (if r is Some { old(self).pending().skip(first_some(old(self).pending(), f_kv()) + 1) } else { Seq::empty() }),
            r is Some ==> final(self).measure() < old(self).measure(),
        decreases old(self).measure(),
    @start
        let ghost vx_s = self.pending();
        proof {
            lemma_kv_after_live(vx_s);
        }
    @*/
}

impl XmlElementRef {
    /// the map component (the attributes) of the branch behind the reference
    pub closed spec fn entries_map(&self) -> Map<Str, ItemPtr> {
        self.0.map@
    }

    /*@extract yrs/src/types/xml.rs | impl AsRef<Branch> for XmlElementRef | fn as_ref | label=xml_as_ref
    @ret r
    @sig
        ensures
            r.map@ == self.entries_map(),
    @*/

    /*@extract yrs/src/types/xml.rs | trait Xml: AsRef<Branch> | fn get_attribute
    @ret r
    @sig
        ensures
            // the same function of the branch state as Map::get
            r == lookup(entries(self.entries_map()), *attr_name),
            r is Some ==> live_keys(self.entries_map()).contains(*attr_name),
    @*/

    /*@extract yrs/src/types/xml.rs | trait Xml: AsRef<Branch> | fn attributes
    @ret r
    @sig
        ensures
            r.wf(),
            enumerates(r.pending(), self.entries_map()),
    @*/
}

/// THE DERIVED READERS, for EVERY branch state `m` (sibling of `theorem_read_paths_agree`):
///   get_as(k) is a function of get(k) alone (two states in which get(k) agrees give the same get_as(k); a key that get does not
///   find deserializes JSON null); get_or_init finds exactly get(k) (converted); remove reports exactly get(k);
///   get_attribute(k) IS get(k); attributes(), drained, yields exactly the (k, v) with get_attribute(k) == Some(v), no key twice
///   -- the same pairs as Map::iter.
pub proof fn theorem_derived_readers_agree<V: DeserializeOwned, W: TryFromOut>(
    s: Seq<Pair>, m: Map<Str, ItemPtr>, m2: Map<Str, ItemPtr>, k: Str, states: Seq<Seq<Pair>>, outs: Seq<(Str, Out)>)
    requires
        enumerates(s, m),
        states[0] == s,
        is_trace(states, outs, f_kv()),
    ensures
        // get_as / get_or_init / remove: functions of get(k)
        lookup(entries(m), k) == lookup(entries(m2), k) ==> get_as_spec::<V>(lookup(entries(m), k)) == get_as_spec::<V>(lookup(entries(m2), k)),
        !live_keys(m).contains(k) ==> get_as_spec::<V>(lookup(entries(m), k)) == V::from_any_spec(Any::Null)
            && found_spec::<W>(lookup(entries(m), k)) == None::<W>,
        m.contains_key(k) ==> item_value(m[k]) == lookup(entries(m), k),
        // attributes() == iter(): exactly what get_attribute / get return
        outs == pick(s, f_kv()),
        forall|a: Str, v: Out| #[trigger] outs.contains((a, v)) <==> lookup(entries(m), a) == Some(v),
        forall|i: int, j: int| 0 <= i < j < outs.len() ==> (#[trigger] outs[i]).0 != (#[trigger] outs[j]).0,
{
    lemma_json_of_any(Any::Null);
    lemma_drain(states, outs, f_kv());
    corollary_iter_drained(states, outs, m);
}

} // verus!
fn main() {}
