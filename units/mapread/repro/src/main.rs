// Reproducer for the findings of unit `mapread` (A: into_iter yields tombstones, B: valueless live entry, C: Values::next
// panics) on the REAL crate, public API only.  Stand-alone crate, not part of any check:
//     cd /verif/units/mapread/repro && cargo run --offline --target-dir /tmp/mapread-repro-target
// Observed on the pinned tree (2026-09-26):
//   removed in the same txn / committed with skip_gc:  len 0, contains_key false, get None, keys [], iter [], to_json {}  BUT
//                                                      into_iter = [("k", 1.0)]                                            (A)
//   Format entry (custom Prelim AND the 18-byte remote update):  len 1, contains_key true, keys ["k"], to_json {"k": null}  BUT
//                                                      get None, iter [], values() PANICS                               (B, C)
//   String entry "ab":     get "ab", iter [("k","ab")], values [["a","b"]]        (observation: whole string vs characters)
//   String entry U+1F600:  values() PANICS (item.len() == 2 UTF-16 units, read() yields 1 char)                            (C)
//   Any[1,2] entry (remote update): get 2, iter [("k",2)], to_json {"k":2}, values [[1,2]]   (consistent: values = all elements)
use std::sync::Arc;
use yrs::block::{ItemContent, Prelim, Unused};
use yrs::branch::BranchPtr;
use yrs::types::ToJson;
use yrs::updates::decoder::Decode;
use yrs::{Any, Doc, Map, ReadTxn, Transact, TransactionMut, Update, Options};

struct Fmt;
impl Prelim for Fmt {
    type Return = Unused;
    fn into_content(self, _txn: &mut TransactionMut) -> (ItemContent, Option<Self>) {
        (ItemContent::Format(Arc::from("b"), Box::new(Any::Bool(true))), None)
    }
    fn integrate(self, _txn: &mut TransactionMut, _inner_ref: BranchPtr) {}
}
struct S(&'static str);
impl Prelim for S {
    type Return = Unused;
    fn into_content(self, _txn: &mut TransactionMut) -> (ItemContent, Option<Self>) {
        (ItemContent::String(self.0.into()), None)
    }
    fn integrate(self, _txn: &mut TransactionMut, _inner_ref: BranchPtr) {}
}

fn show<T: ReadTxn>(tag: &str, map: &yrs::MapRef, txn: &T, k: &str) {
    println!("== {tag}");
    println!("  len          = {}", map.len(txn));
    println!("  contains_key = {}", map.contains_key(txn, k));
    println!("  get          = {:?}", map.get(txn, k));
    println!("  keys         = {:?}", map.keys(txn).collect::<Vec<_>>());
    println!("  iter         = {:?}", map.iter(txn).collect::<Vec<_>>());
    println!("  to_json      = {:?}", map.to_json(txn));
    let vals = std::panic::catch_unwind(std::panic::AssertUnwindSafe(|| map.values(txn).collect::<Vec<_>>()));
    println!("  values       = {:?}", vals.map_err(|_| "PANIC"));
}

fn main() {
    // 1. into_iter after remove inside the same transaction / with skip_gc
    {
        let doc = Doc::new();
        let map = doc.get_or_insert_map("m");
        let mut txn = doc.transact_mut();
        map.insert(&mut txn, "k", 1);
        map.remove(&mut txn, "k");
        show("removed in the same txn", &map, &txn, "k");
        println!("  into_iter    = {:?}", map.clone().into_iter(&txn).collect::<Vec<_>>());
    }
    {
        let mut o = Options::default();
        o.skip_gc = true;
        let doc = Doc::with_options(o);
        let map = doc.get_or_insert_map("m");
        { let mut txn = doc.transact_mut(); map.insert(&mut txn, "k", 1); }
        { let mut txn = doc.transact_mut(); map.remove(&mut txn, "k"); }
        let txn = doc.transact();
        show("removed, committed, skip_gc", &map, &txn, "k");
        println!("  into_iter    = {:?}", map.clone().into_iter(&txn).collect::<Vec<_>>());
    }
    {
        let doc = Doc::new();
        let map = doc.get_or_insert_map("m");
        { let mut txn = doc.transact_mut(); map.insert(&mut txn, "k", 1); }
        { let mut txn = doc.transact_mut(); map.remove(&mut txn, "k"); }
        let txn = doc.transact();
        show("removed, committed, gc", &map, &txn, "k");
        println!("  into_iter    = {:?}", map.clone().into_iter(&txn).collect::<Vec<_>>());
    }
    // 2. Format content as a map entry through a user Prelim
    {
        let doc = Doc::new();
        let map = doc.get_or_insert_map("m");
        let mut txn = doc.transact_mut();
        map.insert(&mut txn, "k", Fmt);
        show("Format entry (custom Prelim)", &map, &txn, "k");
    }
    // 3. String content as a map entry
    {
        let doc = Doc::new();
        let map = doc.get_or_insert_map("m");
        let mut txn = doc.transact_mut();
        map.insert(&mut txn, "k", S("ab"));
        show("String entry 'ab' (custom Prelim)", &map, &txn, "k");
    }
    {
        let doc = Doc::new();
        let map = doc.get_or_insert_map("m");
        let mut txn = doc.transact_mut();
        map.insert(&mut txn, "k", S("\u{1F600}"));
        show("String entry astral (custom Prelim)", &map, &txn, "k");
    }
    // 4. the same through a remote update (v1 bytes): one client 1, one block, info = Format(6) | HAS_PARENT_SUB(0x20)
    {
        // [1 client][1 block][client 1][clock 0][info 0x26][parent_info true=1]["m"]["k"][key "b"][json "true"] [ds 0]
        let bytes: Vec<u8> = vec![1, 1, 1, 0, 0x26, 1, 1, b'm', 1, b'k', 1, b'b', 4, b't', b'r', b'u', b'e', 0];
        let doc = Doc::new();
        let map = doc.get_or_insert_map("m");
        match Update::decode_v1(&bytes) {
            Ok(u) => {
                let mut txn = doc.transact_mut();
                let r = txn.apply_update(u);
                println!("apply_update: {:?}", r.is_ok());
                show("Format entry (remote update)", &map, &txn, "k");
            }
            Err(e) => println!("decode failed: {e:?}"),
        }
    }
    {
        // Any content with 2 elements: info = Any(8) | HAS_PARENT_SUB ; content: len 2, any 125 (int) 1, 125 2
        let bytes: Vec<u8> = vec![1, 1, 1, 0, 0x28, 1, 1, b'm', 1, b'k', 2, 125, 1, 125, 2, 0];
        let doc = Doc::new();
        let map = doc.get_or_insert_map("m");
        match Update::decode_v1(&bytes) {
            Ok(u) => {
                let mut txn = doc.transact_mut();
                let r = txn.apply_update(u);
                println!("apply_update: {:?}", r.is_ok());
                show("Any[1,2] entry (remote update)", &map, &txn, "k");
            }
            Err(e) => println!("decode failed: {e:?}"),
        }
    }
}
