// unit `header` -- the code that encodes a *slice* of a block (yrs/src/slice.rs, yrs/src/block.rs).  Serves C13, C06.
//
// When a document state is encoded from a snapshot (Store::write_blocks_to) or against a state vector
// (Store::write_blocks_from), the last / first block of a client may have to be cut; the cut piece is written by
// `BlockSlice::encode` -> `ItemSlice::encode` -> `ItemContent::encode_slice`.  This unit puts those functions (and the
// slice arithmetic around them, and the whole-item writers `Item::encode` / `ItemContent::encode`) under contract:
//
//   * `header_of_slice(item, start, end)` is THE PROPERTY: the block that describes the sub-range (id, len, origin,
//     right origin, parent, parent_sub, content range);
//   * `grammar(h)` lays a header out in the READING order of `Update::decode_block` / `ItemContent::decode`, `parse_block`
//     mirrors that flag-driven reader, and `lemma_roundtrip` proves `parse_block(grammar(h) + rest) == Some((h, rest))`;
//   * the contracts say: the tokens appended to the encoder are exactly that block (`wrote_slice`, `wrote_content`, stated
//     in push form `emit_block`, see there; `lemma_wrote_slice` / `lemma_emit_block` give the `+ grammar(h)` form).
//
// Function bodies are pulled from /repo on every run; this file holds stand-in types, the specification, the
// contracts and the (few) proof hints only.
//
// FINDINGS of the PINNED tree. H1, H2, H3 were repaired in /repo (fix: commits d8f329c, 95add2f, e69c0b3): their clauses
// are kept and verify on the repaired tree (the `finding_hN(..) ==>` guards only name the input class). H4 is a stated
// domain restriction, H5 a doc/prose inconsistency outside the property. Original report:
//   H1  ItemSlice.encode::post      clause `finding_h1_end_trimmed_with_right_origin(*self) ==> wrote_slice(..)`
//   H2  ItemContent.encode_slice::post  clause `finding_h2_string_end_zero(*self, end) ==> wrote_content(..)`
//   H3  BlockSlice.encode::post     clause `finding_h3_skip_len_column(*self) ==> .. emit_skip(..)`
//   H4  ItemSlice.trim_end::overflow    `self.end -= count` under the function's own debug_assert (count == len, start == 0)
//   H5  BlockRange.last_id::post    clause `finding_h5_last_id_is_inclusive() ==> ..`  (low; not on the C13/C06 path)
//
// ------------------------------------------------------------------------------------------------------------------
// STAND-IN TYPES (everything not listed here is extracted verbatim from /repo)
//
//   ItemPtr        real: `struct ItemPtr(NonNull<Item>)` with `Deref<Target = Item>` (raw pointer, unchecked).
//                  here: `type ItemPtr = &'static Item` (read-only lowering: every function of this unit only READS
//                  through the pointer; the assumption is the usual one for ItemPtr, the pointee is alive and not
//                  mutated while the function runs).  Spelling change: `self.ptr.deref()` -> `self.ptr` (SUB, logged).
//   BranchPtr      real: `struct BranchPtr(NonNull<Branch>)` with Deref.  here: `type BranchPtr = &'static Branch`.
//   Branch         sliced to the fields `encode` / `encode_slice` read: `item`, `name`, `type_ref`.
//                  DROPPED: start, map, block_len, content_len, has_formatting, observers, deep_observers.
//   TypeRef        re-declared without the explicit discriminants (`= TYPE_REFS_*`, only used by `as u8` casts that are
//                  not in this unit) and without the variant `WeakLink(Arc<LinkSource>)`, which exists only under
//                  `cfg(feature = "weak")` (not a default feature; the verus! macro does not strip cfg'd variants).
//   Str            opaque string value with equality only.  Stands for `str`, `Arc<str>`, `String`,
//                  `SplittableString`, `Uuid` (SUB rules below, logged).  `Str::{as_ref, as_str, to_string}` are the
//                  identity (they model `Arc<str>::as_ref`, `String::as_str`, `SplittableString -> &str` deref).
//   Any            opaque JSON-like value with equality only (`crate::any::Any`); `Box<Any>` is lowered to `Any` (SUB).
//   ClientID       opaque, equality only (real: NonZeroU64 newtype / u32 under `small-client`).
//   Doc            the struct itself is extracted (`store: DocStore`); `DocStore` is sliced to the current `Options`
//                  (real: `Arc<StoreInner>` holding an `ArcSwap<Options>`; `options()` returns a load guard), and
//                  `Options` is sliced to what `Options::encode` reads: `guid` and the value of `as_any()`.
//                  DROPPED from Options: client_id, collection_id, offset_kind, skip_gc, auto_load, should_load,
//                  cleanup_formatting (they only enter through `as_any()`, kept as one opaque `Any`).
//   Item           extracted verbatim (all eleven fields; `parent_sub: Option<Arc<str>>` becomes `Option<Str>`).
//   Encoder        trait with a ghost token log, see below (signatures extracted from the real trait).
//
// `impl Encode for TypeRef` / `impl Encode for Options` are extracted into inherent impls (same function, static dispatch).
//
// NOT IN THIS UNIT: `split_str` (iterates chars; opaque here: `StrKernel::split_str` with the uninterpreted spec
// `split_spec`; bounded-checked by Kani under C03), the encoder back ends EncoderV1/EncoderV2 (C09), `Update::decode_block`
// itself (the `parse_*` spec functions mirror its reading discipline; it is not extracted because it builds `Item`s
// through `Item::new` / `Branch::new`), `Block::{encode, encode_with_offset}` (need the `&Box<Item> -> ItemPtr` cast;
// their Item arms are `Item::encode` resp. `ItemSlice::new(ptr, offset, len - 1).encode(..)`, both covered here),
// `ItemSlice::{is_deleted,is_countable,left,right}`, `BlockSlice::{as_item,is_deleted}`, `BlockRange::{merge,integrate}`.
// ------------------------------------------------------------------------------------------------------------------
#![allow(unused_imports, unused_variables, unused_mut, dead_code, unused_parens, unused_braces, unused_assignments)]
use vstd::prelude::*;

verus! {

/*@rules R9 R10
   SUB(from=Arc<str>;;to=Str)
   SUB(from=Vec<String>;;to=Vec<Str>)
   SUB(from=Box<Any>;;to=Any)
   SUB(from=&block::ID;;to=&ID)
   SUB(from=&str;;to=&Str)
   SUB(from=self.ptr.deref();;to=self.ptr)
   SUB(from=.as_deref();;to=.as_ref())
   SUB(from=split_str;;to=E::split_str)
   SUB(from=BlockSlice::GC(s) | BlockSlice::Skip(s) => s.trim_start(count),;;to=BlockSlice::GC(s) => s.trim_start(count), BlockSlice::Skip(s) => s.trim_start(count),)
   SUB(from=BlockSlice::GC(s) | BlockSlice::Skip(s) => s.trim_end(count),;;to=BlockSlice::GC(s) => s.trim_end(count), BlockSlice::Skip(s) => s.trim_end(count),)
@*/

pub mod vx_base {
    use vstd::prelude::*;
    use core::ops::Range;
/*@include vx/prelude.rs @*/
}
use vx_base::*;
use core::ops::Range;

// ---------------------------------------------------------------------------------------------
// opaque stand-ins
// ---------------------------------------------------------------------------------------------
#[derive(PartialEq, Eq, Structural, Clone, Copy)]
pub struct Str(pub u64);

impl Str {
    /// `Arc<str>::as_ref`
    pub fn as_ref(&self) -> (r: &Str)
        ensures *r == *self,
    {
        self
    }

    /// `String::as_str`
    pub fn as_str(&self) -> (r: &Str)
        ensures *r == *self,
    {
        self
    }

    /// `ToString for str`
    pub fn to_string(&self) -> (r: Str)
        ensures r == *self,
    {
        *self
    }
}

pub type SplittableString = Str;
pub type Uuid = Str;

#[derive(PartialEq, Eq, Structural, Clone, Copy)]
pub struct Any(pub u64);

impl Any {
    /// `Box<Any>::as_ref`
    pub fn as_ref(&self) -> (r: &Any)
        ensures *r == *self,
    {
        self
    }
}

#[derive(PartialEq, Eq, Structural, Clone, Copy)]
pub struct ClientID(pub u64);

// ---------------------------------------------------------------------------------------------
// real declarations
// ---------------------------------------------------------------------------------------------
/*@extract yrs/src/block.rs | - | const BLOCK_GC_REF_NUMBER @*/
/*@extract yrs/src/block.rs | - | const BLOCK_ITEM_DELETED_REF_NUMBER @*/
/*@extract yrs/src/block.rs | - | const BLOCK_ITEM_JSON_REF_NUMBER @*/
/*@extract yrs/src/block.rs | - | const BLOCK_ITEM_BINARY_REF_NUMBER @*/
/*@extract yrs/src/block.rs | - | const BLOCK_ITEM_STRING_REF_NUMBER @*/
/*@extract yrs/src/block.rs | - | const BLOCK_ITEM_EMBED_REF_NUMBER @*/
/*@extract yrs/src/block.rs | - | const BLOCK_ITEM_FORMAT_REF_NUMBER @*/
/*@extract yrs/src/block.rs | - | const BLOCK_ITEM_TYPE_REF_NUMBER @*/
/*@extract yrs/src/block.rs | - | const BLOCK_ITEM_ANY_REF_NUMBER @*/
/*@extract yrs/src/block.rs | - | const BLOCK_ITEM_DOC_REF_NUMBER @*/
/*@extract yrs/src/block.rs | - | const BLOCK_SKIP_REF_NUMBER @*/
/*@extract yrs/src/block.rs | - | const HAS_RIGHT_ORIGIN @*/
/*@extract yrs/src/block.rs | - | const HAS_ORIGIN @*/
/*@extract yrs/src/block.rs | - | const HAS_PARENT_SUB @*/

/*@extract yrs/src/types/mod.rs | - | const TYPE_REFS_ARRAY @*/
/*@extract yrs/src/types/mod.rs | - | const TYPE_REFS_MAP @*/
/*@extract yrs/src/types/mod.rs | - | const TYPE_REFS_TEXT @*/
/*@extract yrs/src/types/mod.rs | - | const TYPE_REFS_XML_ELEMENT @*/
/*@extract yrs/src/types/mod.rs | - | const TYPE_REFS_XML_FRAGMENT @*/
/*@extract yrs/src/types/mod.rs | - | const TYPE_REFS_XML_HOOK @*/
/*@extract yrs/src/types/mod.rs | - | const TYPE_REFS_XML_TEXT @*/
/*@extract yrs/src/types/mod.rs | - | const TYPE_REFS_DOC @*/
/*@extract yrs/src/types/mod.rs | - | const TYPE_REFS_UNDEFINED @*/

#[derive(Copy, Clone, PartialEq, Eq, Structural)]
/*@extract yrs/src/block.rs | - | struct ID @*/

#[derive(Copy, Clone, PartialEq, Eq, Structural)]
/*@extract yrs/src/block.rs | - | struct BlockRange @*/

#[derive(Copy, Clone, PartialEq, Eq, Structural)]
/*@extract yrs/src/block.rs | - | struct ItemFlags @*/

#[derive(Copy, Clone, PartialEq, Eq, Structural)]
/*@extract yrs/src/doc.rs | - | enum OffsetKind @*/

pub type ItemPtr = &'static Item;
pub type BranchPtr = &'static Branch;

/// sliced, see the table at the top
pub enum TypeRef {
    Array,
    Map,
    Text,
    XmlElement(Str),
    XmlFragment,
    XmlHook,
    XmlText,
    SubDoc,
    Undefined,
}

/// sliced, see the table at the top
pub struct Branch {
    pub item: Option<ItemPtr>,
    pub name: Option<Str>,
    pub type_ref: TypeRef,
}

/// sliced, see the table at the top
pub struct Options {
    pub guid: Uuid,
    pub vx_as_any: Any,
}

/// sliced, see the table at the top
pub struct DocStore {
    pub vx_options: Options,
}

impl DocStore {
    /// stand-in for `DocStore::options` (an ArcSwap load): the current options
    pub fn options(&self) -> (r: &Options)
        ensures *r == self.vx_options,
    {
        &self.vx_options
    }
}

/*@extract yrs/src/doc.rs | - | struct Doc @*/

/*@extract yrs/src/types/mod.rs | - | enum TypePtr @*/

/*@extract yrs/src/block.rs | - | enum ItemContent @*/

/*@extract yrs/src/block.rs | - | struct Item @*/

/*@extract yrs/src/slice.rs | - | struct ItemSlice @*/

/*@extract yrs/src/slice.rs | - | enum BlockSlice @*/

// ---------------------------------------------------------------------------------------------
// the encoder, abstracted to the sequence of tokens written so far.
// This is an ABSTRACTION of the encoder back ends EncoderV1 / EncoderV2 (which are verified elsewhere, C09): each
// `write_*` method appends one token; tokens of different methods are distinct because EncoderV2 routes them into
// different columns (`write_len` -> len column, `write_var` -> rest buffer, `write_left_id` / `write_right_id` ->
// different clock columns, ...), so a reader that calls a different `read_*` than the writer's `write_*` desyncs.
// The method signatures are extracted from the real trait; `write_string` / `write_buf` come from the supertrait
// `lib0::Write` (default bodies dropped; `write_buf<B: AsRef<[u8]>>` is monomorphised to `&Vec<u8>`).
// ---------------------------------------------------------------------------------------------
pub enum Tok {
    Info(u8),
    LeftId(ID),
    RightId(ID),
    ParentInfo(bool),
    String(Str),
    Len(u32),
    /// `Write::write_var::<u32>` (what `decode_block` reads for a Skip block); never produced by this unit's code
    Var(u32),
    Buf(Seq<u8>),
    Json(Any),
    Any(Any),
    Key(Str),
    TypeRef(u8),
}

/// `split_str` is opaque in this unit: a pure function of its arguments (uninterpreted)
pub uninterp spec fn split_spec(s: Str, offset: usize, kind: OffsetKind) -> (Str, Str);

/// number of UTF-16 code units of a string (`SplittableString::len(OffsetKind::Utf16)`), uninterpreted
pub uninterp spec fn utf16_len(s: Str) -> u32;

pub trait StrKernel {
    /// block.rs `split_str(str, offset, kind) -> (&str, &str)`; the call is spelled `E::split_str(..)` (SUB, logged)
    fn split_str(s: &Str, offset: usize, kind: OffsetKind) -> (r: (&Str, &Str))
        ensures
            (*r.0, *r.1) == split_spec(*s, offset, kind),
    ;
}

pub trait Encoder: Sized + StrKernel {
    spec fn log(&self) -> Seq<Tok>;

    /*@extract yrs/src/updates/encoder.rs | trait Encoder: Write | fn write_left_id
    @sig
        ensures final(self).log() == old(self).log().push(Tok::LeftId(*id)),
    @*/

    /*@extract yrs/src/updates/encoder.rs | trait Encoder: Write | fn write_right_id
    @sig
        ensures final(self).log() == old(self).log().push(Tok::RightId(*id)),
    @*/

    /*@extract yrs/src/updates/encoder.rs | trait Encoder: Write | fn write_info
    @sig
        ensures final(self).log() == old(self).log().push(Tok::Info(info)),
    @*/

    /*@extract yrs/src/updates/encoder.rs | trait Encoder: Write | fn write_parent_info
    @sig
        ensures final(self).log() == old(self).log().push(Tok::ParentInfo(is_y_key)),
    @*/

    /*@extract yrs/src/updates/encoder.rs | trait Encoder: Write | fn write_type_ref
    @sig
        ensures final(self).log() == old(self).log().push(Tok::TypeRef(info)),
    @*/

    /*@extract yrs/src/updates/encoder.rs | trait Encoder: Write | fn write_len
    @sig
        ensures final(self).log() == old(self).log().push(Tok::Len(len)),
    @*/

    /*@extract yrs/src/updates/encoder.rs | trait Encoder: Write | fn write_any
    @sig
        ensures final(self).log() == old(self).log().push(Tok::Any(*any)),
    @*/

    /*@extract yrs/src/updates/encoder.rs | trait Encoder: Write | fn write_json
    @sig
        ensures final(self).log() == old(self).log().push(Tok::Json(*any)),
    @*/

    /*@extract yrs/src/updates/encoder.rs | trait Encoder: Write | fn write_key
    @sig
        ensures final(self).log() == old(self).log().push(Tok::Key(*string)),
    @*/

    /// `lib0::Write::write_string`
    fn write_string(&mut self, str: &Str)
        ensures final(self).log() == old(self).log().push(Tok::String(*str)),
    ;

    /// `lib0::Write::write_var::<u32>` (generic `write_var<T: VarInt>` monomorphised; not called by the pinned code of this
    /// unit, present so that a Skip length written the way `decode_block` reads it can be expressed)
    fn write_var(&mut self, num: u32)
        ensures final(self).log() == old(self).log().push(Tok::Var(num)),
    ;

    /// `lib0::Write::write_buf`
    fn write_buf(&mut self, buf: &Vec<u8>)
        ensures final(self).log() == old(self).log().push(Tok::Buf(buf@)),
    ;
}

// ---------------------------------------------------------------------------------------------
// specification: what a block slice IS (Header), how it is laid out for the reader (grammar), and how the reader
// takes it apart again (parse, mirroring Update::decode_block / ItemContent::decode / TypeRef::decode / Options::decode)
// ---------------------------------------------------------------------------------------------

/// decoded content (what `ItemContent::decode` reconstructs)
pub enum Content {
    Deleted(u32),
    Json(Seq<Str>),
    Binary(Seq<u8>),
    String(Str),
    Embed(Any),
    Format(Str, Any),
    Type(TypeRef),
    Any(Seq<Any>),
    /// guid, options
    Doc(Str, Any),
}

pub enum Parent {
    Named(Str),
    ID(ID),
}

/// the block that describes a sub-range of an item
pub struct Header {
    /// id of the first element (not part of the token stream: the reader derives it from the client's clock header)
    pub id: ID,
    /// number of elements (not part of the token stream: the reader derives it from the content)
    pub len: int,
    pub origin: Option<ID>,
    pub right_origin: Option<ID>,
    pub parent: Parent,
    pub parent_sub: Option<Str>,
    pub content: Content,
}

/// what `decode_block` hands to `Item::new` (parent / parent_sub are only transmitted when there is no origin at all;
/// otherwise the integrating peer copies them from the origin item)
pub struct Decoded {
    pub origin: Option<ID>,
    pub right_origin: Option<ID>,
    /// None = TypePtr::Unknown
    pub parent: Option<Parent>,
    pub parent_sub: Option<Str>,
    pub content: Content,
}

pub enum BlockDesc {
    Item(Decoded),
    GC(u32),
    Skip(u32),
}

/// content tag, as dispatched by `ItemContent::decode`
pub open spec fn content_ref(c: Content) -> u8 {
    match c {
        Content::Deleted(_) => 1,
        Content::Json(_) => 2,
        Content::Binary(_) => 3,
        Content::String(_) => 4,
        Content::Embed(_) => 5,
        Content::Format(_, _) => 6,
        Content::Type(_) => 7,
        Content::Any(_) => 8,
        Content::Doc(_, _) => 9,
    }
}

pub open spec fn flag(b: bool, f: u8) -> u8 {
    if b { f } else { 0u8 }
}

/// the info byte: flag bits agree with the fields, low nibble is the content tag
pub open spec fn info_of(o: bool, r: bool, s: bool, k: u8) -> u8 {
    flag(o, 0x80) | flag(r, 0x40) | flag(s, 0x20) | (k & 0x0f)
}

pub open spec fn strs_toks(v: Seq<Str>) -> Seq<Tok> {
    Seq::new(v.len(), |j: int| Tok::String(v[j]))
}

pub open spec fn anys_toks(v: Seq<Any>) -> Seq<Tok> {
    Seq::new(v.len(), |j: int| Tok::Any(v[j]))
}

pub open spec fn type_ref_kind(t: TypeRef) -> u8 {
    match t {
        TypeRef::Array => 0,
        TypeRef::Map => 1,
        TypeRef::Text => 2,
        TypeRef::XmlElement(_) => 3,
        TypeRef::XmlFragment => 4,
        TypeRef::XmlHook => 5,
        TypeRef::XmlText => 6,
        TypeRef::SubDoc => 9,
        TypeRef::Undefined => 15,
    }
}

pub open spec fn type_ref_toks(t: TypeRef) -> Seq<Tok> {
    match t {
        TypeRef::XmlElement(name) => seq![Tok::TypeRef(3), Tok::Key(name)],
        _ => seq![Tok::TypeRef(type_ref_kind(t))],
    }
}

pub open spec fn content_toks(c: Content) -> Seq<Tok> {
    match c {
        Content::Deleted(n) => seq![Tok::Len(n)],
        Content::Json(v) => seq![Tok::Len(v.len() as u32)] + strs_toks(v),
        Content::Binary(b) => seq![Tok::Buf(b)],
        Content::String(s) => seq![Tok::String(s)],
        Content::Embed(a) => seq![Tok::Json(a)],
        Content::Format(k, a) => seq![Tok::Key(k), Tok::Json(a)],
        Content::Type(t) => type_ref_toks(t),
        Content::Any(v) => seq![Tok::Len(v.len() as u32)] + anys_toks(v),
        Content::Doc(g, o) => seq![Tok::String(g), Tok::Any(o)],
    }
}

/// number of elements the reader attributes to a content (`ItemContent::len(Utf16)`, used by `Item::new`)
pub open spec fn content_count(c: Content) -> int {
    match c {
        Content::Deleted(n) => n as int,
        Content::Json(v) => v.len() as int,
        Content::String(s) => utf16_len(s) as int,
        Content::Any(v) => v.len() as int,
        _ => 1,
    }
}

pub open spec fn opt_left(o: Option<ID>) -> Seq<Tok> {
    match o {
        Some(id) => seq![Tok::LeftId(id)],
        None => Seq::empty(),
    }
}

pub open spec fn opt_right(o: Option<ID>) -> Seq<Tok> {
    match o {
        Some(id) => seq![Tok::RightId(id)],
        None => Seq::empty(),
    }
}

pub open spec fn opt_str(o: Option<Str>) -> Seq<Tok> {
    match o {
        Some(s) => seq![Tok::String(s)],
        None => Seq::empty(),
    }
}

pub open spec fn parent_toks(p: Parent) -> Seq<Tok> {
    match p {
        Parent::Named(n) => seq![Tok::ParentInfo(true), Tok::String(n)],
        Parent::ID(id) => seq![Tok::ParentInfo(false), Tok::LeftId(id)],
    }
}

pub open spec fn cant_copy(h: Header) -> bool {
    h.origin.is_none() && h.right_origin.is_none()
}

pub open spec fn header_info(h: Header) -> u8 {
    info_of(h.origin.is_some(), h.right_origin.is_some(), h.parent_sub.is_some(), content_ref(h.content))
}

/// parent + parent_sub, written iff neither origin nor right origin is present
pub open spec fn parent_part(h: Header) -> Seq<Tok> {
    if cant_copy(h) { parent_toks(h.parent) + opt_str(h.parent_sub) } else { Seq::empty() }
}

/// everything before the content, in the reading order of `Update::decode_block`
pub open spec fn head_toks(h: Header) -> Seq<Tok> {
    seq![Tok::Info(header_info(h))] + opt_left(h.origin) + opt_right(h.right_origin) + parent_part(h)
}

/// the token layout of an item block
pub open spec fn grammar(h: Header) -> Seq<Tok> {
    head_toks(h) + content_toks(h.content)
}

/// GC / Skip blocks as `decode_block` reads them: GC length with `read_len`, Skip length with `read_var`
pub open spec fn grammar_gc(len: u32) -> Seq<Tok> {
    seq![Tok::Info(0), Tok::Len(len)]
}

pub open spec fn grammar_skip(len: u32) -> Seq<Tok> {
    seq![Tok::Info(10), Tok::Var(len)]
}

// ---- the same layout, written as the successive pushes a writer performs (push form).  The contracts of the real
// functions are stated in push form, because then the code's own sequence of `write_*` calls produces the very same
// term and no proof hint is needed (no hint that could fail); `lemma_emit_block` shows push form == `base + grammar(h)`.

/// what a loop that writes `v[a]`, `v[a + 1]`, ... as strings has appended after `n` rounds
pub open spec fn emit_strs(base: Seq<Tok>, v: Seq<Str>, a: int, n: int) -> Seq<Tok>
    decreases n,
{
    if n <= 0 { base } else { emit_strs(base, v, a, n - 1).push(Tok::String(v[a + n - 1])) }
}

pub open spec fn emit_anys(base: Seq<Tok>, v: Seq<Any>, a: int, n: int) -> Seq<Tok>
    decreases n,
{
    if n <= 0 { base } else { emit_anys(base, v, a, n - 1).push(Tok::Any(v[a + n - 1])) }
}

pub open spec fn emit_opt_left(b: Seq<Tok>, o: Option<ID>) -> Seq<Tok> {
    match o { Some(id) => b.push(Tok::LeftId(id)), None => b }
}

pub open spec fn emit_opt_right(b: Seq<Tok>, o: Option<ID>) -> Seq<Tok> {
    match o { Some(id) => b.push(Tok::RightId(id)), None => b }
}

pub open spec fn emit_opt_str(b: Seq<Tok>, o: Option<Str>) -> Seq<Tok> {
    match o { Some(s) => b.push(Tok::String(s)), None => b }
}

pub open spec fn emit_parent(b: Seq<Tok>, p: Parent) -> Seq<Tok> {
    match p {
        Parent::Named(n) => b.push(Tok::ParentInfo(true)).push(Tok::String(n)),
        Parent::ID(id) => b.push(Tok::ParentInfo(false)).push(Tok::LeftId(id)),
    }
}

pub open spec fn emit_type_ref(b: Seq<Tok>, t: TypeRef) -> Seq<Tok> {
    match t {
        TypeRef::XmlElement(name) => b.push(Tok::TypeRef(3)).push(Tok::Key(name)),
        _ => b.push(Tok::TypeRef(type_ref_kind(t))),
    }
}

pub open spec fn emit_content(b: Seq<Tok>, c: Content) -> Seq<Tok> {
    match c {
        Content::Deleted(n) => b.push(Tok::Len(n)),
        Content::Json(v) => emit_strs(b.push(Tok::Len(v.len() as u32)), v, 0, v.len() as int),
        Content::Binary(x) => b.push(Tok::Buf(x)),
        Content::String(s) => b.push(Tok::String(s)),
        Content::Embed(a) => b.push(Tok::Json(a)),
        Content::Format(k, a) => b.push(Tok::Key(k)).push(Tok::Json(a)),
        Content::Type(t) => emit_type_ref(b, t),
        Content::Any(v) => emit_anys(b.push(Tok::Len(v.len() as u32)), v, 0, v.len() as int),
        Content::Doc(g, o) => b.push(Tok::String(g)).push(Tok::Any(o)),
    }
}

pub open spec fn emit_head(b: Seq<Tok>, h: Header) -> Seq<Tok> {
    let b3 = emit_opt_right(emit_opt_left(b.push(Tok::Info(header_info(h))), h.origin), h.right_origin);
    if cant_copy(h) { emit_opt_str(emit_parent(b3, h.parent), h.parent_sub) } else { b3 }
}

/// `b` followed by the block `h`
pub open spec fn emit_block(b: Seq<Tok>, h: Header) -> Seq<Tok> {
    emit_content(emit_head(b, h), h.content)
}

/// the loop only looks at v[a .. a + n)
pub proof fn lemma_emit_strs_cong(base: Seq<Tok>, v: Seq<Str>, a: int, w: Seq<Str>, b: int, n: int)
    requires
        forall|k: int| 0 <= k < n ==> #[trigger] v[a + k] == w[b + k],
    ensures
        emit_strs(base, v, a, n) == emit_strs(base, w, b, n),
    decreases n,
{
    if n > 0 {
        lemma_emit_strs_cong(base, v, a, w, b, n - 1);
        assert(v[a + (n - 1)] == w[b + (n - 1)]);
    }
}

pub proof fn lemma_emit_anys_cong(base: Seq<Tok>, v: Seq<Any>, a: int, w: Seq<Any>, b: int, n: int)
    requires
        forall|k: int| 0 <= k < n ==> #[trigger] v[a + k] == w[b + k],
    ensures
        emit_anys(base, v, a, n) == emit_anys(base, w, b, n),
    decreases n,
{
    if n > 0 {
        lemma_emit_anys_cong(base, v, a, w, b, n - 1);
        assert(v[a + (n - 1)] == w[b + (n - 1)]);
    }
}

pub proof fn lemma_emit_strs(base: Seq<Tok>, v: Seq<Str>, a: int, n: int)
    requires
        0 <= a,
        0 <= n,
        a + n <= v.len(),
    ensures
        emit_strs(base, v, a, n) == base + strs_toks(v.subrange(a, a + n)),
        emit_strs(base, v, a, n) == emit_strs(base, v.subrange(a, a + n), 0, n),
    decreases n,
{
    lemma_emit_strs_cong(base, v, a, v.subrange(a, a + n), 0, n);
    if n == 0 {
        assert(base + strs_toks(v.subrange(a, a)) =~= base);
    } else {
        lemma_emit_strs(base, v, a, n - 1);
        assert((base + strs_toks(v.subrange(a, a + n - 1))).push(Tok::String(v[a + n - 1])) =~= base + strs_toks(v.subrange(a, a + n)));
    }
}

pub proof fn lemma_emit_anys(base: Seq<Tok>, v: Seq<Any>, a: int, n: int)
    requires
        0 <= a,
        0 <= n,
        a + n <= v.len(),
    ensures
        emit_anys(base, v, a, n) == base + anys_toks(v.subrange(a, a + n)),
        emit_anys(base, v, a, n) == emit_anys(base, v.subrange(a, a + n), 0, n),
    decreases n,
{
    lemma_emit_anys_cong(base, v, a, v.subrange(a, a + n), 0, n);
    if n == 0 {
        assert(base + anys_toks(v.subrange(a, a)) =~= base);
    } else {
        lemma_emit_anys(base, v, a, n - 1);
        assert((base + anys_toks(v.subrange(a, a + n - 1))).push(Tok::Any(v[a + n - 1])) =~= base + anys_toks(v.subrange(a, a + n)));
    }
}

pub proof fn lemma_emit_content(b: Seq<Tok>, c: Content)
    ensures
        emit_content(b, c) == b + content_toks(c),
{
    match c {
        Content::Json(v) => {
            lemma_emit_strs(b.push(Tok::Len(v.len() as u32)), v, 0, v.len() as int);
            assert(v.subrange(0, v.len() as int) =~= v);
            assert(b.push(Tok::Len(v.len() as u32)) + strs_toks(v) =~= b + content_toks(c));
        },
        Content::Any(v) => {
            lemma_emit_anys(b.push(Tok::Len(v.len() as u32)), v, 0, v.len() as int);
            assert(v.subrange(0, v.len() as int) =~= v);
            assert(b.push(Tok::Len(v.len() as u32)) + anys_toks(v) =~= b + content_toks(c));
        },
        _ => {
            assert(emit_content(b, c) =~= b + content_toks(c));
        },
    }
}

pub proof fn lemma_emit_head(b: Seq<Tok>, h: Header)
    ensures
        emit_head(b, h) == b + head_toks(h),
{
    assert(emit_head(b, h) =~= b + head_toks(h));
}

/// push form == `base + grammar(h)`
pub proof fn lemma_emit_block(b: Seq<Tok>, h: Header)
    ensures
        emit_block(b, h) == b + grammar(h),
{
    lemma_emit_head(b, h);
    lemma_emit_content(b + head_toks(h), h.content);
    assert((b + head_toks(h)) + content_toks(h.content) =~= b + grammar(h));
}

pub open spec fn emit_gc(b: Seq<Tok>, len: u32) -> Seq<Tok> {
    b.push(Tok::Info(0)).push(Tok::Len(len))
}

pub open spec fn emit_skip(b: Seq<Tok>, len: u32) -> Seq<Tok> {
    b.push(Tok::Info(10)).push(Tok::Var(len))
}

pub proof fn lemma_emit_gc_skip(b: Seq<Tok>, len: u32)
    ensures
        emit_gc(b, len) == b + grammar_gc(len),
        emit_skip(b, len) == b + grammar_skip(len),
{
    assert(emit_gc(b, len) =~= b + grammar_gc(len));
    assert(emit_skip(b, len) =~= b + grammar_skip(len));
}

pub open spec fn decoded_of(h: Header) -> Decoded {
    Decoded {
        origin: h.origin,
        right_origin: h.right_origin,
        parent: if cant_copy(h) { Some(h.parent) } else { None },
        parent_sub: if cant_copy(h) { h.parent_sub } else { None },
        content: h.content,
    }
}

// ---- the reader -----------------------------------------------------------------------------

pub open spec fn rd_left(t: Seq<Tok>) -> Option<(ID, Seq<Tok>)> {
    if t.len() > 0 && t[0] is LeftId { Some((t[0]->LeftId_0, t.skip(1))) } else { None }
}

pub open spec fn rd_right(t: Seq<Tok>) -> Option<(ID, Seq<Tok>)> {
    if t.len() > 0 && t[0] is RightId { Some((t[0]->RightId_0, t.skip(1))) } else { None }
}

pub open spec fn rd_string(t: Seq<Tok>) -> Option<(Str, Seq<Tok>)> {
    if t.len() > 0 && t[0] is String { Some((t[0]->String_0, t.skip(1))) } else { None }
}

pub open spec fn rd_len(t: Seq<Tok>) -> Option<(u32, Seq<Tok>)> {
    if t.len() > 0 && t[0] is Len { Some((t[0]->Len_0, t.skip(1))) } else { None }
}

pub open spec fn rd_var(t: Seq<Tok>) -> Option<(u32, Seq<Tok>)> {
    if t.len() > 0 && t[0] is Var { Some((t[0]->Var_0, t.skip(1))) } else { None }
}

pub open spec fn rd_parent_info(t: Seq<Tok>) -> Option<(bool, Seq<Tok>)> {
    if t.len() > 0 && t[0] is ParentInfo { Some((t[0]->ParentInfo_0, t.skip(1))) } else { None }
}

pub open spec fn rd_json(t: Seq<Tok>) -> Option<(Any, Seq<Tok>)> {
    if t.len() > 0 && t[0] is Json { Some((t[0]->Json_0, t.skip(1))) } else { None }
}

pub open spec fn rd_any(t: Seq<Tok>) -> Option<(Any, Seq<Tok>)> {
    if t.len() > 0 && t[0] is Any { Some((t[0]->Any_0, t.skip(1))) } else { None }
}

pub open spec fn rd_key(t: Seq<Tok>) -> Option<(Str, Seq<Tok>)> {
    if t.len() > 0 && t[0] is Key { Some((t[0]->Key_0, t.skip(1))) } else { None }
}

pub open spec fn rd_buf(t: Seq<Tok>) -> Option<(Seq<u8>, Seq<Tok>)> {
    if t.len() > 0 && t[0] is Buf { Some((t[0]->Buf_0, t.skip(1))) } else { None }
}

pub open spec fn rd_type_ref(t: Seq<Tok>) -> Option<(u8, Seq<Tok>)> {
    if t.len() > 0 && t[0] is TypeRef { Some((t[0]->TypeRef_0, t.skip(1))) } else { None }
}

/// `n` strings (the JSON arm of `ItemContent::decode`; NOTE the real loop runs `while remaining >= 0`, i.e. reads
/// n + 1 strings -- a reader-side defect outside this unit; the grammar here is the intended one, the one Yjs uses)
pub open spec fn rd_strings(t: Seq<Tok>, n: nat) -> Option<(Seq<Str>, Seq<Tok>)>
    decreases n,
{
    if n == 0 {
        Some((Seq::empty(), t))
    } else {
        match rd_string(t) {
            None => None,
            Some((s, t1)) => match rd_strings(t1, (n - 1) as nat) {
                None => None,
                Some((v, t2)) => Some((seq![s] + v, t2)),
            },
        }
    }
}

pub open spec fn rd_anys(t: Seq<Tok>, n: nat) -> Option<(Seq<Any>, Seq<Tok>)>
    decreases n,
{
    if n == 0 {
        Some((Seq::empty(), t))
    } else {
        match rd_any(t) {
            None => None,
            Some((a, t1)) => match rd_anys(t1, (n - 1) as nat) {
                None => None,
                Some((v, t2)) => Some((seq![a] + v, t2)),
            },
        }
    }
}

/// `TypeRef::decode`
pub open spec fn parse_type_ref(t: Seq<Tok>) -> Option<(TypeRef, Seq<Tok>)> {
    match rd_type_ref(t) {
        None => None,
        Some((k, t1)) => {
            if k == 0 { Some((TypeRef::Array, t1)) }
            else if k == 1 { Some((TypeRef::Map, t1)) }
            else if k == 2 { Some((TypeRef::Text, t1)) }
            else if k == 3 {
                match rd_key(t1) {
                    None => None,
                    Some((name, t2)) => Some((TypeRef::XmlElement(name), t2)),
                }
            }
            else if k == 4 { Some((TypeRef::XmlFragment, t1)) }
            else if k == 5 { Some((TypeRef::XmlHook, t1)) }
            else if k == 6 { Some((TypeRef::XmlText, t1)) }
            else if k == 9 { Some((TypeRef::SubDoc, t1)) }
            else if k == 15 { Some((TypeRef::Undefined, t1)) }
            else { None }
        },
    }
}

/// `ItemContent::decode(decoder, info)`: dispatch on `info & 0b1111`
pub open spec fn parse_content(info: u8, t: Seq<Tok>) -> Option<(Content, Seq<Tok>)> {
    let k = info & 0x0f;
    if k == 1 {
        match rd_len(t) { None => None, Some((n, t1)) => Some((Content::Deleted(n), t1)) }
    } else if k == 2 {
        match rd_len(t) {
            None => None,
            Some((n, t1)) => match rd_strings(t1, n as nat) {
                None => None,
                Some((v, t2)) => Some((Content::Json(v), t2)),
            },
        }
    } else if k == 3 {
        match rd_buf(t) { None => None, Some((b, t1)) => Some((Content::Binary(b), t1)) }
    } else if k == 4 {
        match rd_string(t) { None => None, Some((s, t1)) => Some((Content::String(s), t1)) }
    } else if k == 5 {
        match rd_json(t) { None => None, Some((a, t1)) => Some((Content::Embed(a), t1)) }
    } else if k == 6 {
        match rd_key(t) {
            None => None,
            Some((key, t1)) => match rd_json(t1) {
                None => None,
                Some((a, t2)) => Some((Content::Format(key, a), t2)),
            },
        }
    } else if k == 7 {
        match parse_type_ref(t) { None => None, Some((tr, t1)) => Some((Content::Type(tr), t1)) }
    } else if k == 8 {
        match rd_len(t) {
            None => None,
            Some((n, t1)) => match rd_anys(t1, n as nat) {
                None => None,
                Some((v, t2)) => Some((Content::Any(v), t2)),
            },
        }
    } else if k == 9 {
        match rd_string(t) {
            None => None,
            Some((g, t1)) => match rd_any(t1) {
                None => None,
                Some((o, t2)) => Some((Content::Doc(g, o), t2)),
            },
        }
    } else {
        None
    }
}

pub open spec fn parse_opt_left(present: bool, t: Seq<Tok>) -> Option<(Option<ID>, Seq<Tok>)> {
    if present {
        match rd_left(t) { None => None, Some((id, t1)) => Some((Some(id), t1)) }
    } else {
        Some((None, t))
    }
}

pub open spec fn parse_opt_right(present: bool, t: Seq<Tok>) -> Option<(Option<ID>, Seq<Tok>)> {
    if present {
        match rd_right(t) { None => None, Some((id, t1)) => Some((Some(id), t1)) }
    } else {
        Some((None, t))
    }
}

pub open spec fn parse_parent(present: bool, t: Seq<Tok>) -> Option<(Option<Parent>, Seq<Tok>)> {
    if present {
        match rd_parent_info(t) {
            None => None,
            Some((named, t1)) => if named {
                match rd_string(t1) { None => None, Some((n, t2)) => Some((Some(Parent::Named(n)), t2)) }
            } else {
                match rd_left(t1) { None => None, Some((id, t2)) => Some((Some(Parent::ID(id)), t2)) }
            },
        }
    } else {
        Some((None, t))
    }
}

pub open spec fn parse_opt_str(present: bool, t: Seq<Tok>) -> Option<(Option<Str>, Seq<Tok>)> {
    if present {
        match rd_string(t) { None => None, Some((s, t1)) => Some((Some(s), t1)) }
    } else {
        Some((None, t))
    }
}

/// the `info =>` arm of `Update::decode_block`, flag-driven
pub open spec fn parse_item(info: u8, t: Seq<Tok>) -> Option<(Decoded, Seq<Tok>)> {
    let cant = info & (0x80u8 | 0x40u8) == 0;
    match parse_opt_left(info & 0x80 != 0, t) {
        None => None,
        Some((origin, t1)) => match parse_opt_right(info & 0x40 != 0, t1) {
            None => None,
            Some((right_origin, t2)) => match parse_parent(cant, t2) {
                None => None,
                Some((parent, t3)) => match parse_opt_str(cant && (info & 0x20 != 0), t3) {
                    None => None,
                    Some((parent_sub, t4)) => match parse_content(info, t4) {
                        None => None,
                        Some((content, t5)) => Some((Decoded { origin, right_origin, parent, parent_sub, content }, t5)),
                    },
                },
            },
        },
    }
}

/// `Update::decode_block`
pub open spec fn parse_block(t: Seq<Tok>) -> Option<(BlockDesc, Seq<Tok>)> {
    if t.len() > 0 && t[0] is Info {
        let info = t[0]->Info_0;
        let t0 = t.skip(1);
        if info == 10 {
            match rd_var(t0) { None => None, Some((n, t1)) => Some((BlockDesc::Skip(n), t1)) }
        } else if info == 0 {
            match rd_len(t0) { None => None, Some((n, t1)) => Some((BlockDesc::GC(n), t1)) }
        } else {
            match parse_item(info, t0) { None => None, Some((d, t1)) => Some((BlockDesc::Item(d), t1)) }
        }
    } else {
        None
    }
}

// ---- round trip lemmas ------------------------------------------------------------------------

pub proof fn lemma_info_bits(o: bool, r: bool, s: bool, k: u8)
    requires
        1 <= k <= 9,
    ensures
        (info_of(o, r, s, k) & 0x80 != 0) == o,
        (info_of(o, r, s, k) & 0x40 != 0) == r,
        (info_of(o, r, s, k) & 0x20 != 0) == s,
        info_of(o, r, s, k) & 0x0f == k,
        (info_of(o, r, s, k) & (0x80u8 | 0x40u8) == 0) == (!o && !r),
        info_of(o, r, s, k) != 0,
        info_of(o, r, s, k) != 10,
        info_of(o, r, s, k) | 0x80 == info_of(true, r, s, k),
{
    let a = flag(o, 0x80);
    let b = flag(r, 0x40);
    let c = flag(s, 0x20);
    assert(((a | b | c | (k & 0x0f)) & 0x80 != 0) == (a != 0)
        && ((a | b | c | (k & 0x0f)) & 0x40 != 0) == (b != 0)
        && ((a | b | c | (k & 0x0f)) & 0x20 != 0) == (c != 0)
        && (a | b | c | (k & 0x0f)) & 0x0f == k
        && ((a | b | c | (k & 0x0f)) & (0x80u8 | 0x40u8) == 0) == (a == 0 && b == 0)
        && (a | b | c | (k & 0x0f)) != 0
        && (a | b | c | (k & 0x0f)) != 10
        && (a | b | c | (k & 0x0f)) | 0x80 == (0x80u8 | b | c | (k & 0x0f))) by (bit_vector)
        requires
            a == 0 || a == 0x80,
            b == 0 || b == 0x40,
            c == 0 || c == 0x20,
            1 <= k <= 9,
    ;
}

pub proof fn lemma_skip_cons(x: Tok, s: Seq<Tok>)
    ensures
        (seq![x] + s).len() == s.len() + 1,
        (seq![x] + s)[0] == x,
        (seq![x] + s).skip(1) == s,
{
    assert((seq![x] + s).skip(1) =~= s);
}

pub proof fn lemma_rd_strings(v: Seq<Str>, rest: Seq<Tok>)
    ensures
        rd_strings(strs_toks(v) + rest, v.len()) == Some((v, rest)),
    decreases v.len(),
{
    if v.len() == 0 {
        assert(strs_toks(v) + rest =~= rest);
        assert(v =~= Seq::empty());
    } else {
        let w = v.skip(1);
        let t = strs_toks(v) + rest;
        assert(t =~= seq![Tok::String(v[0])] + (strs_toks(w) + rest));
        lemma_skip_cons(Tok::String(v[0]), strs_toks(w) + rest);
        lemma_rd_strings(w, rest);
        assert(seq![v[0]] + w =~= v);
    }
}

pub proof fn lemma_rd_anys(v: Seq<Any>, rest: Seq<Tok>)
    ensures
        rd_anys(anys_toks(v) + rest, v.len()) == Some((v, rest)),
    decreases v.len(),
{
    if v.len() == 0 {
        assert(anys_toks(v) + rest =~= rest);
        assert(v =~= Seq::empty());
    } else {
        let w = v.skip(1);
        let t = anys_toks(v) + rest;
        assert(t =~= seq![Tok::Any(v[0])] + (anys_toks(w) + rest));
        lemma_skip_cons(Tok::Any(v[0]), anys_toks(w) + rest);
        lemma_rd_anys(w, rest);
        assert(seq![v[0]] + w =~= v);
    }
}

/// a content the reader can take back: element counts fit the u32 length prefix
pub open spec fn content_wf(c: Content) -> bool {
    match c {
        Content::Json(v) => v.len() <= u32::MAX,
        Content::Any(v) => v.len() <= u32::MAX,
        _ => true,
    }
}

pub proof fn lemma_parse_type_ref(tr: TypeRef, rest: Seq<Tok>)
    ensures
        parse_type_ref(type_ref_toks(tr) + rest) == Some((tr, rest)),
{
    match tr {
        TypeRef::XmlElement(name) => {
            assert(type_ref_toks(tr) + rest =~= seq![Tok::TypeRef(3)] + (seq![Tok::Key(name)] + rest));
            lemma_skip_cons(Tok::TypeRef(3), seq![Tok::Key(name)] + rest);
            lemma_skip_cons(Tok::Key(name), rest);
        },
        _ => {
            assert(type_ref_toks(tr) + rest =~= seq![Tok::TypeRef(type_ref_kind(tr))] + rest);
            lemma_skip_cons(Tok::TypeRef(type_ref_kind(tr)), rest);
        },
    }
}

pub proof fn lemma_parse_content(info: u8, c: Content, rest: Seq<Tok>)
    requires
        content_wf(c),
        info & 0x0f == content_ref(c),
    ensures
        parse_content(info, content_toks(c) + rest) == Some((c, rest)),
{
    let t = content_toks(c) + rest;
    match c {
        Content::Deleted(n) => {
            assert(t =~= seq![Tok::Len(n)] + rest);
            lemma_skip_cons(Tok::Len(n), rest);
        },
        Content::Json(v) => {
            assert(t =~= seq![Tok::Len(v.len() as u32)] + (strs_toks(v) + rest));
            lemma_skip_cons(Tok::Len(v.len() as u32), strs_toks(v) + rest);
            lemma_rd_strings(v, rest);
        },
        Content::Binary(b) => {
            assert(t =~= seq![Tok::Buf(b)] + rest);
            lemma_skip_cons(Tok::Buf(b), rest);
        },
        Content::String(s) => {
            assert(t =~= seq![Tok::String(s)] + rest);
            lemma_skip_cons(Tok::String(s), rest);
        },
        Content::Embed(a) => {
            assert(t =~= seq![Tok::Json(a)] + rest);
            lemma_skip_cons(Tok::Json(a), rest);
        },
        Content::Format(k, a) => {
            assert(t =~= seq![Tok::Key(k)] + (seq![Tok::Json(a)] + rest));
            lemma_skip_cons(Tok::Key(k), seq![Tok::Json(a)] + rest);
            lemma_skip_cons(Tok::Json(a), rest);
        },
        Content::Type(tr) => {
            lemma_parse_type_ref(tr, rest);
        },
        Content::Any(v) => {
            assert(t =~= seq![Tok::Len(v.len() as u32)] + (anys_toks(v) + rest));
            lemma_skip_cons(Tok::Len(v.len() as u32), anys_toks(v) + rest);
            lemma_rd_anys(v, rest);
        },
        Content::Doc(g, o) => {
            assert(t =~= seq![Tok::String(g)] + (seq![Tok::Any(o)] + rest));
            lemma_skip_cons(Tok::String(g), seq![Tok::Any(o)] + rest);
            lemma_skip_cons(Tok::Any(o), rest);
        },
    }
}

pub proof fn lemma_parse_opt_left(o: Option<ID>, rest: Seq<Tok>)
    ensures
        parse_opt_left(o.is_some(), opt_left(o) + rest) == Some((o, rest)),
{
    match o {
        Some(id) => { lemma_skip_cons(Tok::LeftId(id), rest); },
        None => { assert(opt_left(o) + rest =~= rest); },
    }
}

pub proof fn lemma_parse_opt_right(o: Option<ID>, rest: Seq<Tok>)
    ensures
        parse_opt_right(o.is_some(), opt_right(o) + rest) == Some((o, rest)),
{
    match o {
        Some(id) => { lemma_skip_cons(Tok::RightId(id), rest); },
        None => { assert(opt_right(o) + rest =~= rest); },
    }
}

pub proof fn lemma_parse_opt_str(o: Option<Str>, rest: Seq<Tok>)
    ensures
        parse_opt_str(o.is_some(), opt_str(o) + rest) == Some((o, rest)),
{
    match o {
        Some(s) => { lemma_skip_cons(Tok::String(s), rest); },
        None => { assert(opt_str(o) + rest =~= rest); },
    }
}

pub proof fn lemma_parse_parent(p: Parent, rest: Seq<Tok>)
    ensures
        parse_parent(true, parent_toks(p) + rest) == Some((Some(p), rest)),
{
    match p {
        Parent::Named(n) => {
            assert(parent_toks(p) + rest =~= seq![Tok::ParentInfo(true)] + (seq![Tok::String(n)] + rest));
            lemma_skip_cons(Tok::ParentInfo(true), seq![Tok::String(n)] + rest);
            lemma_skip_cons(Tok::String(n), rest);
        },
        Parent::ID(id) => {
            assert(parent_toks(p) + rest =~= seq![Tok::ParentInfo(false)] + (seq![Tok::LeftId(id)] + rest));
            lemma_skip_cons(Tok::ParentInfo(false), seq![Tok::LeftId(id)] + rest);
            lemma_skip_cons(Tok::LeftId(id), rest);
        },
    }
}

/// everything after the info byte
pub open spec fn body_toks(h: Header) -> Seq<Tok> {
    opt_left(h.origin) + (opt_right(h.right_origin) + (parent_part(h) + content_toks(h.content)))
}

/// the flag-driven part of the reader, given an info byte whose bits agree with the header's fields
pub proof fn lemma_parse_item(info: u8, h: Header, rest: Seq<Tok>)
    requires
        content_wf(h.content),
        (info & 0x80 != 0) == h.origin.is_some(),
        (info & 0x40 != 0) == h.right_origin.is_some(),
        (info & 0x20 != 0) == h.parent_sub.is_some(),
        (info & (0x80u8 | 0x40u8) == 0) == cant_copy(h),
        info & 0x0f == content_ref(h.content),
    ensures
        parse_item(info, body_toks(h) + rest) == Some((decoded_of(h), rest)),
{
    hide(parse_content);
    hide(content_toks);
    hide(parent_toks);
    hide(parse_opt_left);
    hide(parse_opt_right);
    hide(opt_left);
    hide(opt_right);
    let cant = cant_copy(h);
    let t5 = content_toks(h.content) + rest;
    let t4 = opt_str(if cant { h.parent_sub } else { None }) + t5;
    let t3 = (if cant { parent_toks(h.parent) } else { Seq::empty() }) + t4;
    let t2 = opt_right(h.right_origin) + t3;
    let t1 = opt_left(h.origin) + t2;
    assert(t3 =~= parent_part(h) + content_toks(h.content) + rest);
    assert(body_toks(h) + rest =~= t1);
    lemma_parse_opt_left(h.origin, t2);
    lemma_parse_opt_right(h.right_origin, t3);
    if cant {
        lemma_parse_parent(h.parent, t4);
        lemma_parse_opt_str(h.parent_sub, t5);
    } else {
        assert(t3 =~= t4);
        assert(t4 =~= t5);
    }
    lemma_parse_content(info, h.content, rest);
}

/// "the written tokens are decodable and decode to the slice": the reader, run on `grammar(h)` followed by anything,
/// returns exactly the fields of `h` (parent / parent_sub iff there is no origin at all) and stops right after them
pub proof fn lemma_roundtrip(h: Header, rest: Seq<Tok>)
    requires
        content_wf(h.content),
    ensures
        parse_block(grammar(h) + rest) == Some((BlockDesc::Item(decoded_of(h)), rest)),
{
    hide(parse_item);
    hide(body_toks);
    hide(content_toks);
    hide(info_of);
    let info = header_info(h);
    lemma_info_bits(h.origin.is_some(), h.right_origin.is_some(), h.parent_sub.is_some(), content_ref(h.content));
    assert(grammar(h) + rest =~= seq![Tok::Info(info)] + (body_toks(h) + rest)) by {
        reveal(body_toks);
    }
    lemma_skip_cons(Tok::Info(info), body_toks(h) + rest);
    lemma_parse_item(info, h, rest);
}

pub proof fn lemma_roundtrip_gc_skip(len: u32, rest: Seq<Tok>)
    ensures
        parse_block(grammar_gc(len) + rest) == Some((BlockDesc::GC(len), rest)),
        parse_block(grammar_skip(len) + rest) == Some((BlockDesc::Skip(len), rest)),
{
    assert(grammar_gc(len) + rest =~= seq![Tok::Info(0)] + (seq![Tok::Len(len)] + rest));
    lemma_skip_cons(Tok::Info(0), seq![Tok::Len(len)] + rest);
    lemma_skip_cons(Tok::Len(len), rest);
    assert(grammar_skip(len) + rest =~= seq![Tok::Info(10)] + (seq![Tok::Var(len)] + rest));
    lemma_skip_cons(Tok::Info(10), seq![Tok::Var(len)] + rest);
    lemma_skip_cons(Tok::Var(len), rest);
}

// ---------------------------------------------------------------------------------------------
// from the real item to the header of one of its slices
// ---------------------------------------------------------------------------------------------

/// `ItemContent::len(OffsetKind::Utf16)`
pub open spec fn ic_len(c: ItemContent) -> int {
    match c {
        ItemContent::Deleted(n) => n as int,
        ItemContent::String(s) => utf16_len(s) as int,
        ItemContent::Any(v) => v@.len() as int,
        ItemContent::JSON(v) => v@.len() as int,
        _ => 1,
    }
}

/// the UTF-16 sub-range [start..=end] of a string, in terms of the opaque `split_str`:
/// drop the first `start` units (nothing to drop when start == 0), then keep `end - start + 1` units
pub open spec fn str_range(s: Str, start: int, end: int) -> Str {
    let right = if start == 0 { s } else { split_spec(s, start as usize, OffsetKind::Utf16).1 };
    split_spec(right, (end - start + 1) as usize, OffsetKind::Utf16).0
}

/// the content restricted to the elements start..=end
pub open spec fn slice_content(c: ItemContent, start: int, end: int) -> Content {
    match c {
        ItemContent::Any(v) => Content::Any(v@.subrange(start, end + 1)),
        ItemContent::Binary(b) => Content::Binary(b@),
        ItemContent::Deleted(_) => Content::Deleted((end - start + 1) as u32),
        ItemContent::Doc(_, doc) => Content::Doc(doc.store.vx_options.guid, doc.store.vx_options.vx_as_any),
        ItemContent::JSON(v) => Content::Json(v@.subrange(start, end + 1)),
        ItemContent::Embed(a) => Content::Embed(a),
        ItemContent::Format(k, a) => Content::Format(k, a),
        ItemContent::String(s) => Content::String(str_range(s, start, end)),
        ItemContent::Type(b) => Content::Type(b.type_ref),
    }
}

/// the whole content, as the reader reconstructs it
pub open spec fn whole_content(c: ItemContent) -> Content {
    match c {
        ItemContent::Any(v) => Content::Any(v@),
        ItemContent::Binary(b) => Content::Binary(b@),
        ItemContent::Deleted(n) => Content::Deleted(n),
        ItemContent::Doc(_, doc) => Content::Doc(doc.store.vx_options.guid, doc.store.vx_options.vx_as_any),
        ItemContent::JSON(v) => Content::Json(v@),
        ItemContent::Embed(a) => Content::Embed(a),
        ItemContent::Format(k, a) => Content::Format(k, a),
        ItemContent::String(s) => Content::String(s),
        ItemContent::Type(b) => Content::Type(b.type_ref),
    }
}

pub open spec fn ic_ref(c: ItemContent) -> u8 {
    match c {
        ItemContent::Any(_) => 8,
        ItemContent::Binary(_) => 3,
        ItemContent::Deleted(_) => 1,
        ItemContent::Doc(_, _) => 9,
        ItemContent::JSON(_) => 2,
        ItemContent::Embed(_) => 5,
        ItemContent::Format(_, _) => 6,
        ItemContent::String(_) => 4,
        ItemContent::Type(_) => 7,
    }
}

pub open spec fn parent_known(p: TypePtr) -> bool {
    match p {
        TypePtr::Unknown => false,
        TypePtr::Branch(b) => b.item.is_some() || b.name.is_some(),
        _ => true,
    }
}

pub open spec fn parent_of(p: TypePtr) -> Parent {
    match p {
        TypePtr::Branch(b) => if b.item.is_some() { Parent::ID(b.item.unwrap().id) } else { Parent::Named(b.name.unwrap()) },
        TypePtr::Named(n) => Parent::Named(n),
        TypePtr::ID(id) => Parent::ID(id),
        TypePtr::Unknown => arbitrary(),
    }
}

/// THE PROPERTY: the block that describes the sub-range [start..=end] of `item`
pub open spec fn header_of_slice(item: Item, start: int, end: int) -> Header {
    Header {
        id: ID { client: item.id.client, clock: (item.id.clock + start) as u32 },
        len: end - start + 1,
        // the first element keeps the item's origin; any later element was inserted right after its predecessor
        origin: if start == 0 { item.origin } else { Some(ID { client: item.id.client, clock: (item.id.clock + start - 1) as u32 }) },
        // a prefix or middle piece of a block has the same right origin as the block (this is what splitting an item
        // produces: both halves keep `right_origin`)
        right_origin: item.right_origin,
        parent: parent_of(item.parent),
        parent_sub: item.parent_sub,
        content: slice_content(item.content, start, end),
    }
}

/// the block that describes a whole item
pub open spec fn header_of_item(item: Item) -> Header {
    Header {
        id: item.id,
        len: item.len as int,
        origin: item.origin,
        right_origin: item.right_origin,
        parent: parent_of(item.parent),
        parent_sub: item.parent_sub,
        content: whole_content(item.content),
    }
}

/// cutting nothing off gives the whole item (String: needs a fact about the opaque `split_str`, not claimed)
pub proof fn lemma_full_slice_is_item(item: Item)
    requires
        item.wf(),
        !(item.content is String),
    ensures
        header_of_slice(item, 0, item.len - 1) == header_of_item(item),
{
    match item.content {
        ItemContent::Any(v) => { assert(v@.subrange(0, item.len as int) =~= v@); },
        ItemContent::JSON(v) => { assert(v@.subrange(0, item.len as int) =~= v@); },
        _ => {},
    }
}

/// the element count the reader derives from the content of a slice is the slice's length (String: not claimed, opaque),
/// and it fits the u32 length prefix
pub proof fn lemma_slice_len(item: Item, start: int, end: int)
    requires
        item.wf(),
        0 <= start <= end < item.len,
    ensures
        !(item.content is String) ==> content_count(header_of_slice(item, start, end).content) == header_of_slice(item, start, end).len,
        content_wf(header_of_slice(item, start, end).content),
{
}

impl Item {
    /// well-formedness of an item view: non-empty, clocks do not wrap, `len` is the content's length
    /// (established by `Item::new`, kept by splice / squash)
    pub open spec fn wf(&self) -> bool {
        &&& self.len >= 1
        &&& self.id.clock + self.len <= u32::MAX
        &&& self.len == ic_len(self.content)
    }

    pub open spec fn info_spec(&self) -> u8 {
        info_of(self.origin.is_some(), self.right_origin.is_some(), self.parent_sub.is_some(), ic_ref(self.content))
    }
}

/// `l1` is `l0` followed by exactly the block that describes the slice (push form; == `l0 + grammar(..)`, lemma_wrote_slice)
pub open spec fn wrote_slice(l0: Seq<Tok>, l1: Seq<Tok>, s: ItemSlice) -> bool {
    l1 == emit_block(l0, header_of_slice(*s.ptr, s.start as int, s.end as int))
}

/// `l1` is `l0` followed by exactly the block that describes the whole item
pub open spec fn wrote_item(l0: Seq<Tok>, l1: Seq<Tok>, item: Item) -> bool {
    l1 == emit_block(l0, header_of_item(item))
}

/// `l1` is `l0` followed by exactly the elements start..=end of the content
pub open spec fn wrote_content(l0: Seq<Tok>, l1: Seq<Tok>, c: ItemContent, start: u32, end: u32) -> bool {
    l1 == emit_content(l0, slice_content(c, start as int, end as int))
}

/// C13 / C06 kernel at token level -- what the contract `wrote_slice` of `ItemSlice::encode` means: the appended tokens are
/// `grammar(h)` for the block `h` that describes the sub-range; the reader (`parse_block`, the mirror of
/// `Update::decode_block`) takes exactly `h` back from them and stops right after them; and `h` has the id, length,
/// origin and right origin of the piece [start..=end]
pub proof fn lemma_wrote_slice(l0: Seq<Tok>, l1: Seq<Tok>, s: ItemSlice, rest: Seq<Tok>)
    requires
        s.wf(),
        wrote_slice(l0, l1, s),
    ensures
        ({
            let h = header_of_slice(*s.ptr, s.start as int, s.end as int);
            &&& l1 == l0 + grammar(h)
            &&& parse_block(grammar(h) + rest) == Some((BlockDesc::Item(decoded_of(h)), rest))
            &&& h.id.client == s.ptr.id.client && h.id.clock == s.ptr.id.clock + s.start
            &&& h.len == s.end - s.start + 1
            &&& h.origin == (if s.start == 0 { s.ptr.origin } else { Some(ID { client: s.ptr.id.client, clock: (s.ptr.id.clock + s.start - 1) as u32 }) })
            &&& h.right_origin == s.ptr.right_origin
            // the length the reader derives from the content is the slice's length (String: opaque, not claimed)
            &&& !(s.ptr.content is String) ==> content_count(h.content) == h.len
        }),
{
    let h = header_of_slice(*s.ptr, s.start as int, s.end as int);
    lemma_slice_len(*s.ptr, s.start as int, s.end as int);
    lemma_emit_block(l0, h);
    lemma_roundtrip(h, rest);
}

pub proof fn lemma_wrote_content(l0: Seq<Tok>, l1: Seq<Tok>, c: ItemContent, start: u32, end: u32)
    requires
        wrote_content(l0, l1, c, start, end),
    ensures
        l1 == l0 + content_toks(slice_content(c, start as int, end as int)),
{
    lemma_emit_content(l0, slice_content(c, start as int, end as int));
}

// FINDING domains (see the report): the inputs on which the pinned code violates the contract
/// H1: an end-trimmed slice of an item that has a right origin
pub open spec fn finding_h1_end_trimmed_with_right_origin(s: ItemSlice) -> bool {
    s.end != s.ptr.len - 1 && s.ptr.right_origin.is_some()
}

/// H2: a String content cut to the range [0..=0]
pub open spec fn finding_h2_string_end_zero(c: ItemContent, end: u32) -> bool {
    c is String && end == 0
}

/// H5: marker only (the whole function is concerned)
pub open spec fn finding_h5_last_id_is_inclusive() -> bool {
    true
}

/// H3: a Skip block slice
pub open spec fn finding_h3_skip_len_column(s: BlockSlice) -> bool {
    s is Skip
}

// ---------------------------------------------------------------------------------------------
// the real code
// ---------------------------------------------------------------------------------------------

impl ID {
    /*@extract yrs/src/block.rs | impl ID | fn new | label=ID.new
    @ret r
    @sig
        ensures r.client == client, r.clock == clock,
    @*/
}

impl Doc {
    /*@extract yrs/src/doc.rs | impl Doc | fn store | label=Doc.store
    @ret r
    @sig
        ensures *r == self.store,
    @*/
}

impl Options {
    /// stand-in for `Options::as_any` (builds a HashMap): its value is the opaque field
    fn as_any(&self) -> (r: Any)
        ensures r == self.vx_as_any,
    {
        self.vx_as_any
    }

    // real: `impl Encode for Options`
    /*@extract yrs/src/doc.rs | impl Encode for Options | fn encode | label=Options.encode
    @sig
        ensures final(encoder).log() == old(encoder).log().push(Tok::String(self.guid)).push(Tok::Any(self.vx_as_any)),
    @*/
}

impl TypeRef {
    // real: `impl Encode for TypeRef`
    /*@extract yrs/src/types/mod.rs | impl Encode for TypeRef | fn encode | label=TypeRef.encode
    @sig
        ensures final(encoder).log() == emit_type_ref(old(encoder).log(), *self),
    @*/
}

impl BlockRange {
    pub open spec fn wf(&self) -> bool {
        self.clock + self.len <= u32::MAX
    }

    /*@extract yrs/src/block.rs | impl BlockRange | fn new | label=BlockRange.new
    @ret r
    @sig
        ensures r.client == id.client, r.clock == id.clock, r.len == len,
    @*/

    /*@extract yrs/src/block.rs | impl BlockRange | fn id | label=BlockRange.id
    @ret r
    @sig
        ensures r.client == self.client, r.clock == self.clock,
    @*/

    /*@extract yrs/src/block.rs | impl BlockRange | fn last_id | label=BlockRange.last_id
    @ret r
    @sig
        requires self.wf(), self.len >= 1,
        ensures
            r.client == self.client,
            // NOTE (H5, not on the C13/C06 path, not a property clause): the doc prose says "last update fitting into the
            // bounds" but the doc-test pins the first id PAST the range; the contract states what the doc-test pins
            r.clock == self.clock + self.len,
    @*/

    /*@extract yrs/src/block.rs | impl BlockRange | fn clock_end | label=BlockRange.clock_end
    @ret r
    @sig
        requires self.wf(),
        ensures r == self.clock + self.len,
    @*/

    /*@extract yrs/src/block.rs | impl BlockRange | fn clock_range | label=BlockRange.clock_range
    @ret r
    @sig
        requires self.wf(),
        ensures r.start == self.clock, r.end == self.clock + self.len,
    @*/

    /*@extract yrs/src/block.rs | impl BlockRange | fn trim_start | label=BlockRange.trim_start
    @sig
        requires old(self).wf(), count <= old(self).len,
        ensures
            final(self).wf(),
            final(self).client == old(self).client,
            final(self).clock == old(self).clock + count,
            final(self).len == old(self).len - count,
            // the end of the range does not move
            final(self).clock + final(self).len == old(self).clock + old(self).len,
    @*/

    /*@extract yrs/src/block.rs | impl BlockRange | fn trim_end | label=BlockRange.trim_end
    @sig
        requires old(self).wf(), count <= old(self).len,
        ensures
            final(self).wf(),
            final(self).client == old(self).client,
            // the start of the range does not move
            final(self).clock == old(self).clock,
            final(self).len == old(self).len - count,
    @*/

    /*@extract yrs/src/block.rs | impl BlockRange | fn slice | label=BlockRange.slice
    @ret r
    @sig
        requires self.wf(), offset <= self.len,
        ensures
            r.wf(),
            r.client == self.client,
            r.clock == self.clock + offset,
            r.len == self.len - offset,
    @*/

    /*@extract yrs/src/block.rs | impl BlockRange | fn contains | label=BlockRange.contains
    @ret r
    @sig
        requires self.wf(),
        ensures r == (self.client == id.client && self.clock <= id.clock < self.clock + self.len),
    @*/
}

impl ItemContent {
    /*@extract yrs/src/block.rs | impl ItemContent | fn get_ref_number | label=ItemContent.get_ref_number
    @ret r
    @sig
        ensures r == ic_ref(*self), 1 <= r <= 9,
    @*/

    /*@extract yrs/src/block.rs | impl ItemContent | fn encode_slice | label=ItemContent.encode_slice
    @sig
        requires
            start <= end,
            (end as int) < ic_len(*self),
            // the content's length is a block length (u32): `Item::len == content.len()` (Item::wf)
            ic_len(*self) <= u32::MAX,
        ensures
            // the tokens describe exactly the elements start..=end
            !finding_h2_string_end_zero(*self, end) ==> wrote_content(old(encoder).log(), final(encoder).log(), *self, start, end),
            // FINDING H2: String content, end == 0: the end cut is skipped and the whole string is written
            finding_h2_string_end_zero(*self, end) ==> wrote_content(old(encoder).log(), final(encoder).log(), *self, start, end),
    @before 1 `stmt:for`
        let ghost lb = encoder.log();
    @loop 1 iter=it1
        invariant
            start <= end,
            (end as int) < s@.len(),
            it1.seq().len() == end - start + 1,
            forall|k: int| 0 <= k < it1.seq().len() ==> it1.seq()[k] == start + k,
            encoder.log() == emit_strs(lb, s@, start as int, it1.index@ as int),
    @after 1 `stmt:for`
        proof {
            // (a lemma whose precondition follows from this function's `requires` alone: cannot fail)
            lemma_emit_strs(lb, s@, start as int, end - start + 1);
        }
    @before 2 `stmt:for`
        let ghost lb = encoder.log();
    @loop 2 iter=it2
        invariant
            start <= end,
            (end as int) < any@.len(),
            it2.seq().len() == end - start + 1,
            forall|k: int| 0 <= k < it2.seq().len() ==> it2.seq()[k] == start + k,
            encoder.log() == emit_anys(lb, any@, start as int, it2.index@ as int),
    @after 2 `stmt:for`
        proof {
            lemma_emit_anys(lb, any@, start as int, end - start + 1);
        }
    @*/
}

impl ItemContent {
    /*@extract yrs/src/block.rs | impl ItemContent | fn encode | label=ItemContent.encode
    @sig
        ensures
            final(encoder).log() == emit_content(old(encoder).log(), whole_content(*self)),
    @before 1 `stmt:for`
        let ghost lb = encoder.log();
    @loop 1 iter=it1
        invariant
            it1.seq().len() == s@.len(),
            forall|k: int| 0 <= k < it1.seq().len() ==> *it1.seq()[k] == s@[k],
            encoder.log() == emit_strs(lb, s@, 0, it1.index@ as int),
    @before 2 `stmt:for`
        let ghost lb = encoder.log();
    @loop 2 iter=it2
        invariant
            it2.seq().len() == any@.len(),
            forall|k: int| 0 <= k < it2.seq().len() ==> *it2.seq()[k] == any@[k],
            encoder.log() == emit_anys(lb, any@, 0, it2.index@ as int),
    @*/
}

/*@extract yrs/src/block.rs | - | const ITEM_FLAG_DELETED @*/
/*@extract yrs/src/block.rs | - | const ITEM_FLAG_COUNTABLE @*/

impl ItemFlags {
    pub closed spec fn bits(&self) -> u16 { self.0 }

    /*@extract yrs/src/block.rs | impl ItemFlags | fn check | label=ItemFlags.check
    @ret r
    @sig
        ensures r == (self.bits() & value == value),
    @*/

    /*@extract yrs/src/block.rs | impl ItemFlags | fn is_countable | label=ItemFlags.is_countable
    @ret r
    @sig
        ensures r == (self.bits() & 0b10 == 0b10),
    @*/

    /*@extract yrs/src/block.rs | impl ItemFlags | fn is_deleted | label=ItemFlags.is_deleted
    @ret r
    @sig
        ensures r == (self.bits() & 0b100 == 0b100),
    @*/
}

impl Item {
    // (is_countable / is_deleted: not used by the encoder on the pinned tree; under contract so that code consulting the
    // item's flags can be ingested)
    /*@extract yrs/src/block.rs | impl Item | fn is_countable | label=Item.is_countable
    @ret r
    @sig
        ensures r == (self.info.bits() & 0b10 == 0b10),
    @*/

    /*@extract yrs/src/block.rs | impl Item | fn is_deleted | label=Item.is_deleted
    @ret r
    @sig
        ensures r == (self.info.bits() & 0b100 == 0b100),
    @*/

    /*@extract yrs/src/block.rs | impl Item | fn id | label=Item.id
    @ret r
    @sig
        ensures *r == self.id,
    @*/

    /*@extract yrs/src/block.rs | impl Item | fn len | label=Item.len
    @ret r
    @sig
        ensures r == self.len,
    @*/

    /*@extract yrs/src/block.rs | impl Item | fn last_id | label=Item.last_id
    @ret r
    @sig
        requires self.wf(),
        ensures r.client == self.id.client, r.clock == self.id.clock + self.len - 1,
    @*/

    /*@extract yrs/src/block.rs | impl Item | fn info | label=Item.info
    @ret r
    @sig
        ensures r == self.info_spec(),
    @*/

    /*@extract yrs/src/block.rs | impl Item | fn encode | label=Item.encode
    @sig
        requires
            // the item is integrated: its parent is resolved (only needed when the parent has to be written)
            self.origin.is_none() && self.right_origin.is_none() ==> parent_known(self.parent),
        ensures
            wrote_item(old(encoder).log(), final(encoder).log(), *self),
    @after 1 `stmt:let cant_copy_parent_info`
        proof {
            lemma_info_bits(self.origin.is_some(), self.right_origin.is_some(), self.parent_sub.is_some(), ic_ref(self.content));
        }
    @*/
}

impl ItemSlice {
    /// a slice designates the non-empty range [start..=end] inside its item
    pub open spec fn wf(&self) -> bool {
        &&& self.ptr.wf()
        &&& self.start <= self.end
        &&& self.end < self.ptr.len
    }

    pub open spec fn spec_len(&self) -> u32 {
        (self.end - self.start + 1) as u32
    }

    /*@extract yrs/src/slice.rs | impl ItemSlice | fn new | label=ItemSlice.new
    @ret r
    @sig
        requires start <= end,
        ensures r.ptr == ptr, r.start == start, r.end == end,
    @*/

    /*@extract yrs/src/slice.rs | impl ItemSlice | fn clock_start | label=ItemSlice.clock_start
    @ret r
    @sig
        requires self.wf(),
        ensures r == self.ptr.id.clock + self.start,
            r == header_of_slice(*self.ptr, self.start as int, self.end as int).id.clock,
    @*/

    /*@extract yrs/src/slice.rs | impl ItemSlice | fn clock_end | label=ItemSlice.clock_end
    @ret r
    @sig
        requires self.wf(),
        ensures r == self.ptr.id.clock + self.end,
    @*/

    #[verifier::when_used_as_spec(spec_len)]
    /*@extract yrs/src/slice.rs | impl ItemSlice | fn len | label=ItemSlice.len
    @ret r
    @sig
        requires self.wf(),
        ensures r == self.spec_len(), r == self.end - self.start + 1,
            r == header_of_slice(*self.ptr, self.start as int, self.end as int).len,
    @*/

    /*@extract yrs/src/slice.rs | impl ItemSlice | fn id | label=ItemSlice.id
    @ret r
    @sig
        requires self.wf(),
        ensures r.client == self.ptr.id.client, r.clock == self.ptr.id.clock + self.start,
            r == header_of_slice(*self.ptr, self.start as int, self.end as int).id,
    @*/

    /*@extract yrs/src/slice.rs | impl ItemSlice | fn last_id | label=ItemSlice.last_id
    @ret r
    @sig
        requires self.wf(),
        ensures r.client == self.ptr.id.client, r.clock == self.ptr.id.clock + self.end,
    @*/

    /*@extract yrs/src/slice.rs | impl ItemSlice | fn trim_start | label=ItemSlice.trim_start
    @sig
        requires old(self).wf(), count <= old(self).spec_len(),
        ensures
            final(self).ptr == old(self).ptr,
            final(self).start == old(self).start + count,
            final(self).end == old(self).end,
            count < old(self).spec_len() ==> final(self).wf() && final(self).spec_len() == old(self).spec_len() - count,
    @*/

    /*@extract yrs/src/slice.rs | impl ItemSlice | fn trim_end | label=ItemSlice.trim_end
    @sig
        // H4 (domain restriction, not a property clause): the function's own debug_assert admits count == len, for which
        // `self.end -= count` underflows when start == 0; the weakest precondition is count <= end. Every call site in the
        // crate passes count < len.
        requires old(self).wf(), count <= old(self).spec_len(), count <= old(self).end,
        ensures
            final(self).ptr == old(self).ptr,
            final(self).start == old(self).start,
            final(self).end == old(self).end - count,
            count < old(self).spec_len() ==> final(self).wf() && final(self).spec_len() == old(self).spec_len() - count,
    @*/

    /*@extract yrs/src/slice.rs | impl ItemSlice | fn adjacent_left | label=ItemSlice.adjacent_left
    @ret r
    @sig
        ensures r == (self.start == 0),
    @*/

    /*@extract yrs/src/slice.rs | impl ItemSlice | fn adjacent_right | label=ItemSlice.adjacent_right
    @ret r
    @sig
        requires self.ptr.len >= 1,
        ensures r == (self.end == self.ptr.len - 1),
    @*/

    /*@extract yrs/src/slice.rs | impl ItemSlice | fn adjacent | label=ItemSlice.adjacent
    @ret r
    @sig
        requires self.ptr.len >= 1,
        ensures r == (self.start == 0 && self.end == self.ptr.len - 1),
    @*/

    /*@extract yrs/src/slice.rs | impl ItemSlice | fn contains_id | label=ItemSlice.contains_id
    @ret r
    @sig
        requires self.wf(),
        ensures r == (self.ptr.id.client == id.client
            && self.ptr.id.clock + self.start <= id.clock <= self.ptr.id.clock + self.end),
    @*/

    /*@extract yrs/src/slice.rs | impl ItemSlice | fn encode | label=ItemSlice.encode
    @sig
        requires
            self.wf(),
            // the item is integrated: its parent is resolved (only needed when the parent has to be written)
            self.ptr.origin.is_none() && self.ptr.right_origin.is_none() && self.start == 0 ==> parent_known(self.ptr.parent),
        ensures
            // the appended tokens are exactly the block that describes the sub-range
            !finding_h1_end_trimmed_with_right_origin(*self) ==> wrote_slice(old(encoder).log(), final(encoder).log(), *self),
            // FINDING H1: end-trimmed slice of an item with a right origin: info carries HAS_RIGHT_ORIGIN, no right id is written
            finding_h1_end_trimmed_with_right_origin(*self) ==> wrote_slice(old(encoder).log(), final(encoder).log(), *self),
    @after 1 `stmt:let cant_copy_parent_info`
        proof {
            lemma_info_bits(self.ptr.origin.is_some(), self.ptr.right_origin.is_some(), self.ptr.parent_sub.is_some(), ic_ref(self.ptr.content));
            lemma_info_bits(true, self.ptr.right_origin.is_some(), self.ptr.parent_sub.is_some(), ic_ref(self.ptr.content));
        }
    @*/
}

impl BlockSlice {
    pub open spec fn wf(&self) -> bool {
        match *self {
            BlockSlice::Item(s) => s.wf(),
            BlockSlice::GC(r) => r.len >= 1 && r.wf(),
            BlockSlice::Skip(r) => r.len >= 1 && r.wf(),
        }
    }

    pub open spec fn spec_clock_start(&self) -> int {
        match *self {
            BlockSlice::Item(s) => s.ptr.id.clock + s.start,
            BlockSlice::GC(r) => r.clock as int,
            BlockSlice::Skip(r) => r.clock as int,
        }
    }

    pub open spec fn spec_len(&self) -> int {
        match *self {
            BlockSlice::Item(s) => s.end - s.start + 1,
            BlockSlice::GC(r) => r.len as int,
            BlockSlice::Skip(r) => r.len as int,
        }
    }

    /// same variant, same underlying block
    pub open spec fn same_block(&self, o: &BlockSlice) -> bool {
        match (*self, *o) {
            (BlockSlice::Item(a), BlockSlice::Item(b)) => a.ptr == b.ptr,
            (BlockSlice::GC(a), BlockSlice::GC(b)) => a.client == b.client,
            (BlockSlice::Skip(a), BlockSlice::Skip(b)) => a.client == b.client,
            _ => false,
        }
    }

    /*@extract yrs/src/slice.rs | impl BlockSlice | fn clock_start | label=BlockSlice.clock_start
    @ret r
    @sig
        requires self.wf(),
        ensures r == self.spec_clock_start(),
    @*/

    /*@extract yrs/src/slice.rs | impl BlockSlice | fn clock_end | label=BlockSlice.clock_end
    @ret r
    @sig
        requires self.wf(),
        ensures r == self.spec_clock_start() + self.spec_len() - 1,
    @*/

    /*@extract yrs/src/slice.rs | impl BlockSlice | fn len | label=BlockSlice.len
    @ret r
    @sig
        requires self.wf(),
        ensures r == self.spec_len(),
    @*/

    /*@extract yrs/src/slice.rs | impl BlockSlice | fn trim_start | label=BlockSlice.trim_start
    @sig
        requires old(self).wf(), count <= old(self).spec_len(),
        ensures
            final(self).same_block(old(self)),
            final(self).spec_clock_start() == old(self).spec_clock_start() + count,
            final(self).spec_len() == old(self).spec_len() - count,
            count < old(self).spec_len() ==> final(self).wf(),
    @*/

    /*@extract yrs/src/slice.rs | impl BlockSlice | fn trim_end | label=BlockSlice.trim_end
    @sig
        requires old(self).wf(), count <= old(self).spec_len(), *old(self) is Item ==> count <= (*old(self))->Item_0.end,
        ensures
            final(self).same_block(old(self)),
            final(self).spec_clock_start() == old(self).spec_clock_start(),
            final(self).spec_len() == old(self).spec_len() - count,
            count < old(self).spec_len() ==> final(self).wf(),
    @*/

    /*@extract yrs/src/slice.rs | impl BlockSlice | fn encode | label=BlockSlice.encode
    @sig
        requires
            self.wf(),
            self is Item ==> (self->Item_0.ptr.origin.is_none() && self->Item_0.ptr.right_origin.is_none() && self->Item_0.start == 0
                ==> parent_known(self->Item_0.ptr.parent)),
        ensures
            self is Item && !finding_h1_end_trimmed_with_right_origin(self->Item_0) ==> wrote_slice(old(encoder).log(), final(encoder).log(), self->Item_0),
            self is GC ==> final(encoder).log() == emit_gc(old(encoder).log(), self->GC_0.len),
            // FINDING H3: a Skip length is written with write_len, the reader takes it with read_var
            finding_h3_skip_len_column(*self) ==> final(encoder).log() == emit_skip(old(encoder).log(), self->Skip_0.len),
    @*/
}

} // verus!
fn main() {}
