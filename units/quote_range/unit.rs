// unit `quote_range` -- boundary-delimited iteration behind quotations (yrs/src/iter.rs: `RangeIter::{new, begin}`,
// `<RangeIter as Iterator>::next`, `<RangeIter as DoubleEndedIterator>::next_back`; yrs/src/block.rs: `Item::{contains, id, len}`
// (what `ItemPtr::contains(id)` derefs to); yrs/src/slice.rs: `ItemSlice::new`; yrs/src/sticky_index.rs: `StickyIndex::id`; one
// statement of yrs/src/types/weak.rs `Quotable::quote`).
// Serves C20 (KERNEL ONLY): "A quotation of a range of a text, array or XML child list ... dereferences at any later time and on
// any replica to exactly the elements currently visible between its two boundary elements (boundaries included or excluded as
// the range was given), including elements inserted inside the range after it was quoted and excluding deleted ones";
// mechanism named by the property: "boundary-delimited iteration -- LinkSource::unquote, iter.rs RangeIter / within_range".
// `LinkSource::unquote` is `BlockIter::new(parent.start).within_range(quote_start, quote_end).values()`: THIS unit is the
// `within_range` stage (which unit ids lie between the two boundary elements, for EVERY block layout -- blocks get split and
// squashed, items are inserted inside the range: the iterator only sees the current sequence of blocks).  NOT here: `Values`
// (skips deleted items, reads the content of a slice), `LinkSource::{materialize, to_string, to_xml_string}`, the walk of
// `quote` itself, `BlockIter`, that the ids of a collection keep their relative order on every replica (integration).
//
// THE CONVENTION (quoted from /repo):
//   sticky_index.rs, `enum Assoc`:  "After:  The corresponding [StickyIndex] points to space **after** the referenced [ID]."
//                                   "Before: The corresponding [StickyIndex] points to space **before** the referenced [ID]."
//   weak.rs, `Quotable::quote`:     `range.start_bound()`: `Bound::Included(&i) => Some((i, Assoc::Before))`, `Bound::Excluded(&i) =>
//                                   Some((i, Assoc::After))`, `Bound::Unbounded => None` (-> `IndexScope::from_branch(this)`, Assoc::Before);
//                                   `range.end_bound()`: `Included(&i) => (i, Assoc::After)`, `Excluded(&i) => (i, Assoc::Before)`,
//                                   `Unbounded` -> type-scoped, Assoc::After.  Doc: "Inclusive range (eg. `1..=2`) means, that any
//                                   concurrent inserts that happen between indexes 2 and 3 will **not** be part of the quoted range.
//                                   Exclusive range (eg. `1..3`) ... these inserts will be counted as a part of quoted range."
//   sticky_index.rs, `StickyIndex::id`: "Returns `None` if current [StickyIndex] has been created on an empty shared collection (in
//                                   that case there's no block that we can refer to)" -- i.e. Some(id) exactly for `IndexScope::Relative`.
//   Hence, with S = the unit ids of the blocks in document order (block by block, clock by clock):
//     start, Assoc::Before = the gap BEFORE the anchor unit: the range begins AT it (inclusive); Assoc::After = the gap behind it:
//            the range begins with the NEXT unit (exclusive); no anchor id: from the first unit;
//     end,   Assoc::After  = the gap behind the anchor unit: the range ends AT it (inclusive); Assoc::Before: it ends in FRONT of it
//            (exclusive); no anchor id: to the last unit.
//   (`StickyIndex::get_offset`, unit `sticky`, resolves Assoc the other way round -- After = the gap before the anchored unit.
//   `RangeIter` and `quote` follow the doc comments of `Assoc`; noted, not a subject of this unit.)
//
// THE PROPERTY.  `lo(s, start)` / `hi(s, end)`: the positions in S = flat(s) of the first unit of the range / directly behind its
//   last unit (`pos` = position of the anchor, `lemma_pos_index`: S[pos] == anchor; with pairwise disjoint blocks it is the only
//   one, `lemma_pos_unique`);  expected(s, start, end) = S[lo .. hi)  (empty if hi < lo).
//   theorem_quote_range: a RangeIter over the blocks `s` iterated with `next` until it returns None yields slices that are each a
//     NON-EMPTY offset range start ..= end of ONE block of `s` (`slices_ok`), whose concatenation is EXACTLY expected(s, start, end)
//     -- nothing before, nothing behind, in order, no id twice (`lemma_flat_nodup`); hi <= lo gives the EMPTY sequence -- on the
//     WHOLE domain of the property (`prop_dom`): whenever both anchors occur, the end anchor is not in front of the start anchor.
//     (The block-level domain `dom` of the code is larger: the BLOCK of the end anchor is not in front of the block of the
//     start anchor; `lemma_dom_of_order`: prop_dom ==> dom.  OUTSIDE every contract: an end anchor in a block in front of the
//     start block -- `begin` passes that block without looking for the end, the iteration runs to the end of S.  `quote` cannot
//     produce it any more (Q2), only a hand-made link can.)
//   DERIVED, not assumed: a start anchor that does not occur in S  -> nothing is yielded (lo = |S|);
//                         an end anchor that does not occur in S   -> the iteration runs to the END of S (hi = |S|), the same as
//                         for an end without anchor.  (So a quotation whose end element has left the list -- its parent was
//                         deleted and collected -- would dereference to everything behind the start.  Not reachable while the
//                         start element is still there: both live in the same list.)
//
// CONTRACTS (whole functions unless noted; `View` = (pending blocks of the inner iterator, state, start, end))
//   Item::contains(id)        == covers_id(self, id): same client, clock in [id.clock, id.clock + len).  requires clock + len <= u32::MAX
//                                (`self.id.clock + self.len()` is an unchecked u32 addition; holds for integrated blocks: A-CLK).
//   Item::{id, len}, ItemSlice::new (requires start <= end: its debug_assert!, R9), StickyIndex::id (== id_spec()), RangeIter::new.
//   RangeIter::begin          total on every sequence of `item_ok` blocks.  With l = start_landing(pending, start, end): not found ->
//                                None, all blocks consumed, state unchanged; found -> state InRange, *start_offset = l.off, returns
//                                block l.idx (None if the exclusive start was the last unit of the last block), pending = the blocks
//                                behind it; `l.ended` (exclusive start on the last unit of a block that also holds the end anchor) ->
//                                state Closed, None, the next block is NOT consumed.
//   RangeIter::next           TOTAL: no precondition besides `item_ok` of the pending blocks (all u32 arithmetic and the
//                                `ItemSlice::new` debug_assert are discharged for every input).
//                                ensures (final view, r) == next_spec(old view): Closed -> None; InRange -> next pending block from
//                                offset 0, cut by `end_cut`; Opened -> landing block from the landing offset, cut by `end_cut`;
//                                end_cut: end anchor in this block -> state Closed and (After) offsets ..= eo, (Before) ..= eo - 1, or None
//                                if that is in front of the slice start; otherwise the whole rest of the block, state InRange.
//                                + the Q1 class (exclusive start, end at the same element) yields nothing, now or later.
//     theorem_step (pure)     on `dom`: r is None <==> nothing is left; r = Some(sl): sl is a non-empty range of one pending block
//                                and  rem(old) == slice_ids(sl) + rem(new)  (rem = the units still to be yielded).
//     lemma_drain / theorem_quote_range: iterating to the end yields exactly expected(s, start, end).
//   range_start_offset / range_end_cut (STEP level, R18 regions): the two boundary-offset computations on their own.
//   quote_end_remaining (R18 region of `Quotable::quote`): the guard + `remaining = end_index - start_index + remaining;`: TOTAL on
//                                every pair of indexes: Err(OutOfBounds) for end_index < start_index, else the new `remaining`.
//   RangeIter::next_back      OBSERVATION QB, dead code.  Under contract against what the code DOES (`next_back_code`, requires the
//                                weakest precondition of its `ItemSlice::new`).  What it SHOULD do: `next_back_ok(old view, new view,
//                                r)` -- None iff nothing is left, else a non-empty slice of one pending block holding the LAST units
//                                still to be yielded (rem_back(old) == rem_back(new) + slice_ids(sl)); `lemma_drain_back`: all calls
//                                together yield exactly expected(..); `example_next_back_single_block`: satisfiable.
//                                `observation_qb_*` PROVE that `next_back_code` violates `next_back_ok`.
//   MIXED USE of next / next_back is OUTSIDE every contract: the iterator has ONE `state` for both ends.  After a `next` has
//     entered the range (InRange) a `next_back` no longer looks for the end boundary (it takes the last pending block whole), and
//     once either end reaches the other boundary's block, Closed stops BOTH ends although units between them may not have been
//     yielded.  Only traversals that use one of the two methods exclusively are specified.
//
// FINDINGS (reproducer through the public API, feature `weak`: units/quote_range/repro/main.rs; observed on debug AND release
//   builds of the tree before the repair; the repair is units/quote_range/repair.diff; this unit verifies the REPAIRED code)
//   Q1  REPAIRED (was: next reached `ItemSlice::new` with start > end / `offset -= 1` at 0 / ran to the end of the list).  An
//       EXCLUSIVE start and an end anchored at the SAME element: `array.quote(&txn, (Bound::Excluded(i), Bound::Included(i)))` or
//       `(Excluded(i), Excluded(i))` (empty ranges; `quote` returns Ok: start = (id_i, After), end = (id_i, After | Before)).
//       Expected: dereferences to nothing.  Observed before the repair:
//         layout [0,1,2,3,4,5] = ONE block, i = 1 (not the last unit of its block): `begin` -> start_offset 2; end offset 1 ->
//           `ItemSlice::new(ptr, 2, 1)`: debug `assertion failed: start <= end` (slice.rs:108); release: the inverted slice reaches
//           Store::materialize when the link is inserted -> panic `Option::unwrap() on None` (store.rs:365) / `mid > len`;
//           with end Before and i = 0: `offset -= 1` underflows (iter.rs:183);
//         layout [0,1] [2,3] [4,5] = THREE blocks, i = 1 (the LAST unit of its block): `begin` moves to the next block, the end block
//           is never seen again: unquote yields 2,3,4,5 -- everything up to the end of the array.
//       Repair: `begin` closes the iterator when the block it leaves holds the end anchor; `next` returns None for an end cut at or
//       in front of the slice start (`offset <= start_offset` for Before, `offset < start_offset` for After).  Obligations: the Q1
//       clause of range_next::post, range_next / range_end_cut ::{overflow, pre}, range_start_offset::post.
//   Q2  REPAIRED (in `Quotable::quote`, the producer of the boundaries; obligation quote_end_remaining::{overflow, post}).
//       `remaining = end_index - start_index + remaining;` on an inverted (= empty) range: `array.quote(&txn, 3..=2)` / `3..1`.
//       Before the repair: debug: panic `attempt to subtract with overflow` (weak.rs:748); release: wraps and RETURNS a quotation whose
//       end anchor is IN FRONT of its start anchor (outside `dom`: `next` ran to the end of the list or built an inverted slice),
//       inserting it panicked in Store::materialize.  Repair: `if end_index < start_index { return Err(QuoteError::OutOfBounds); }`.
//   QB  OBSERVATION, DEAD CODE (no caller in the crate; `RangeIter` is pub(crate); and `BlockIter::next_back` walks LEFT from the
//       same cursor, it is no double-ended iterator).  `next_back` is not the mirror image of `next`: (1) Opened, end without
//       anchor: `end_offset = ptr.len()` -- one past the last unit (inclusive `end`) [observation_qb_end_one_past_the_block: one
//       block of 2 units, no anchors: yields (ptr, 0, 2), i.e. the unit id clock + 2 that is not in the block]; (2) InRange:
//       `end_offset` keeps its initial 0 -- every further block contributes its FIRST unit only [observation_qb_inner_blocks_lose_
//       units], and in the start block `ItemSlice::new(ptr, start_offset, 0)` is inverted; (3) `end.assoc` is ignored (an exclusive
//       end is yielded); (4) `start.assoc` is ignored (an exclusive start is yielded).  Not reachable through the public API.
//   OBSERVATIONS outside this unit (not claimed; O3 is in the reproducer and NOT touched by repair.diff):
//     O3  `LinkSource::materialize` starts its RangeIter at `quote_start.get_item()`, which for an exclusive start on the LAST unit
//         of a block is the NEXT block: the sequence handed to `within_range` does not contain the start anchor, so -- by the
//         derived rule above -- NOTHING is yielded and no item is marked as linked.  `unquote` (which iterates from `parent.start`)
//         is right, but the link never fires an event: blocks [0,1] [2,3] [4,5], `quote((Excluded(1), Included(4)))`, two edits
//         inside the range: 0 events (2 events for the same range spelled `2..=4`).
//     O4  `WeakPrelim<TextRef>::get_string` on a quotation that has not been inserted yet returns whole blocks ("abcdef" for
//         `text.quote(&txn, 1..=3)`): `LinkSource::to_string` does not use RangeIter, it compares the boundaries with block ends
//         only, which coincide once `materialize` has split the blocks.
//
// ------------------------------------------------------------------------------------------------------------------
// LOWERING AND STAND-IN TYPES (everything not listed is extracted verbatim from /repo on every run)
//   I: Iterator<Item = ItemPtr>   STAND-IN trait `BlockSeqIter`: ghost `pending()` = the blocks not handed out yet, in document order;
//                `next` returns pending[0] and leaves pending.skip(1); on an empty sequence None, nothing changes (a FUSED iterator;
//                `BlockIter`, the only instantiation in the crate, is: it holds `Option<ItemPtr>`).  `BlockSeqDeIter::next_back`: the
//                other end of the same sequence.  The impl headers `impl<I> .. where I: Iterator<Item = ItemPtr>` are template text
//                (`impl<I: BlockSeqIter> RangeIter<I>`); the `Iterator::next` / `DoubleEndedIterator::next_back` impls are emitted as
//                inherent methods (a trait-method impl cannot carry `requires`); `Self::Item` is spelled `ItemSlice` (SUB, logged).
//   ItemPtr      real: `struct ItemPtr(NonNull<Item>)` with Deref.  here: `&'static Item` (read-only lowering R15).  ASSUMPTION A5: the
//                pointees are alive and not mutated during the life of the iterator.
//   Item         sliced to `id`, `len`.  DROPPED: left, right, origin, right_origin, content, parent, redone, parent_sub, info.
//   ClientID     opaque, equality only.   Str: opaque, stands for `Arc<str>` in `IndexScope::Root` (never inspected).
//   ASSUMPTION A-CLK (`item_ok`): every block has len >= 1 (`Item::new` refuses empty content) and id.clock + len <= u32::MAX (the
//                client's next clock is a u32).  `disjoint`: no unit id in two blocks (block store invariant); used only by the
//                "exactly once" statements, NOT by the contracts of begin / next / next_back.
//   Field visibility (`pub` added to the fields of RangeIter / StickyIndex, `pub enum RangeIterState`): SUB, logged.
//   REWRITE of a construct Verus mishandles (same meaning, logged, `next` and `next_back`): see `vx_only_in` below.
//   QuoteError   STAND-IN enum with the real single variant `OutOfBounds` (the real one carries a thiserror helper attribute).
// TRUSTED: nothing of its own.  `vx_unreachable` (vx/prelude.rs) is included but unused.  No assume / admit / external_body.
// ------------------------------------------------------------------------------------------------------------------
#![allow(unused_imports, unused_variables, unused_mut, dead_code, unused_parens, unused_braces, unused_assignments)]
use vstd::prelude::*;

verus! {

/*@rules R9 R10
   SUB(from=Arc<str>;;to=Str)
@*/

pub mod vx_base {
    use vstd::prelude::*;
    use core::ops::Range;
/*@include vx/prelude.rs @*/
}
use vx_base::vx_unreachable;

// ---------------------------------------------------------------------------------------------
// stand-ins and real declarations
// ---------------------------------------------------------------------------------------------
#[derive(PartialEq, Eq, Structural, Clone, Copy)]
pub struct Str(pub u64);

#[derive(PartialEq, Eq, Structural, Clone, Copy)]
pub struct ClientID(pub u64);

#[derive(Copy, Clone, PartialEq, Eq, Structural)]
/*@extract yrs/src/block.rs | - | struct ID @*/

#[derive(Copy, Clone, PartialEq, Eq, Structural)]
/*@extract yrs/src/sticky_index.rs | - | enum Assoc @*/

/*@extract yrs/src/sticky_index.rs | - | enum IndexScope @*/

/*@extract yrs/src/sticky_index.rs | - | struct StickyIndex | rules=SUB(from=scope: IndexScope;;to=pub scope: IndexScope) @*/

/// sliced, see the table at the top
pub struct Item {
    pub id: ID,
    pub len: u32,
}

pub type ItemPtr = &'static Item;

/*@extract yrs/src/slice.rs | - | struct ItemSlice @*/

#[derive(Copy, Clone, PartialEq, Eq, Structural)]
/*@extract yrs/src/iter.rs | - | enum RangeIterState | rules=SUB(from=enum RangeIterState;;to=pub enum RangeIterState) @*/

/*@extract yrs/src/iter.rs | - | struct RangeIter | rules=SUB(from=iter: I,;;to=pub iter: I,) SUB(from=start: StickyIndex,;;to=pub start: StickyIndex,) SUB(from=end: StickyIndex,;;to=pub end: StickyIndex,) SUB(from=state: RangeIterState,;;to=pub state: RangeIterState,) @*/

// ---------------------------------------------------------------------------------------------
// specification, part 1: blocks, unit ids, boundaries
// ---------------------------------------------------------------------------------------------
/// the block `p` holds the unit `id`: same client, clock in [p.id.clock, p.id.clock + p.len)
pub open spec fn covers_id(p: &Item, id: ID) -> bool {
    p.id.client == id.client && p.id.clock <= id.clock < p.id.clock + p.len
}

/// an integrated block: at least one unit, and its clock range fits u32 (the client's next clock `id.clock + len` is a u32)
pub open spec fn item_ok(p: &Item) -> bool {
    1 <= p.len && p.id.clock + p.len <= u32::MAX
}

pub open spec fn items_ok(s: Seq<ItemPtr>) -> bool {
    forall|i: int| 0 <= i < s.len() ==> item_ok(#[trigger] s[i])
}

/// no unit id lies in two blocks of the sequence
pub open spec fn disjoint(s: Seq<ItemPtr>) -> bool {
    forall|i: int, j: int, id: ID| 0 <= i < j < s.len() && #[trigger] covers_id(s[i], id) ==> !#[trigger] covers_id(s[j], id)
}

/// the unit ids at offsets a ..= b of block `p`
pub open spec fn ids_of(p: &Item, a: int, b: int) -> Seq<ID> {
    Seq::new((if b + 1 >= a { b + 1 - a } else { 0 }) as nat, |k: int| ID { client: p.id.client, clock: (p.id.clock + a + k) as u32 })
}

/// all unit ids of a block
pub open spec fn block_ids(p: &Item) -> Seq<ID> {
    ids_of(p, 0, p.len - 1)
}

/// the unit ids a slice stands for: offsets start ..= end of ONE item
pub open spec fn slice_ids(sl: ItemSlice) -> Seq<ID> {
    ids_of(sl.ptr, sl.start as int, sl.end as int)
}

/// S: the unit ids of a sequence of blocks, block by block, clock by clock
pub open spec fn flat(s: Seq<ItemPtr>) -> Seq<ID>
    decreases s.len(),
{
    if s.len() == 0 {
        Seq::empty()
    } else {
        block_ids(s[0]) + flat(s.skip(1))
    }
}

/// |S|
pub open spec fn total(s: Seq<ItemPtr>) -> int
    decreases s.len(),
{
    if s.len() == 0 {
        0
    } else {
        s[0].len + total(s.skip(1))
    }
}

/// index of the first block that holds `id`; `s.len()` if there is none
pub open spec fn find(s: Seq<ItemPtr>, id: ID) -> int
    decreases s.len(),
{
    if s.len() == 0 {
        0
    } else if covers_id(s[0], id) {
        0
    } else {
        1 + find(s.skip(1), id)
    }
}

/// `id` occurs in S
pub open spec fn occurs(s: Seq<ItemPtr>, id: ID) -> bool {
    find(s, id) < s.len()
}

/// position of (the first occurrence of) `id` in S; |S| if it does not occur
pub open spec fn pos(s: Seq<ItemPtr>, id: ID) -> int
    decreases s.len(),
{
    if s.len() == 0 {
        0
    } else if covers_id(s[0], id) {
        id.clock - s[0].id.clock
    } else {
        s[0].len + pos(s.skip(1), id)
    }
}

impl StickyIndex {
    /// `StickyIndex::id()`: the anchor element of a block-relative sticky index, None for a type-scoped one
    pub open spec fn id_spec(&self) -> Option<ID> {
        match self.scope {
            IndexScope::Relative(id) => Some(id),
            _ => None,
        }
    }
}

/// THE CONVENTION (see the header): position in S of the first unit of the range.
/// no anchor = from the first unit; Assoc::Before = AT the anchor unit (inclusive); Assoc::After = directly after it (exclusive);
/// an anchor that does not occur: |S| (nothing is in the range)
pub open spec fn lo(s: Seq<ItemPtr>, start: StickyIndex) -> int {
    match start.id_spec() {
        None => 0,
        Some(a) => if !occurs(s, a) { total(s) } else if start.assoc == Assoc::After { pos(s, a) + 1 } else { pos(s, a) },
    }
}

/// position in S directly behind the last unit of the range.
/// no anchor = behind the last unit; Assoc::After = behind the anchor unit (inclusive); Assoc::Before = AT the anchor unit
/// (exclusive); an anchor that does not occur: |S| (DERIVED from the code: the iteration runs to the end)
pub open spec fn hi(s: Seq<ItemPtr>, end: StickyIndex) -> int {
    match end.id_spec() {
        None => total(s),
        Some(e) => if !occurs(s, e) { total(s) } else if end.assoc == Assoc::After { pos(s, e) + 1 } else { pos(s, e) },
    }
}

/// THE PROPERTY: the units between the two boundaries
pub open spec fn expected(s: Seq<ItemPtr>, start: StickyIndex, end: StickyIndex) -> Seq<ID> {
    if lo(s, start) <= hi(s, end) {
        flat(s).subrange(lo(s, start), hi(s, end))
    } else {
        Seq::empty()
    }
}

/// DOMAIN of the forward traversal (block level): if both anchors occur, the block of the end anchor is not in front of the block
/// of the start anchor.  It contains the WHOLE domain of the property -- the end anchor occurs at or behind the start anchor,
/// pos(start) <= pos(end): `lemma_dom_of_order` -- and every layout with both anchors in the same block, in any order.
pub open spec fn dom(s: Seq<ItemPtr>, start: StickyIndex, end: StickyIndex) -> bool {
    start.id_spec() is Some && end.id_spec() is Some && occurs(s, start.id_spec().unwrap()) && occurs(s, end.id_spec().unwrap())
        ==> find(s, start.id_spec().unwrap()) <= find(s, end.id_spec().unwrap())
}

/// THE DOMAIN OF THE PROPERTY: if both anchors occur in S, the end anchor is not in front of the start anchor
pub open spec fn prop_dom(s: Seq<ItemPtr>, start: StickyIndex, end: StickyIndex) -> bool {
    start.id_spec() is Some && end.id_spec() is Some && occurs(s, start.id_spec().unwrap()) && occurs(s, end.id_spec().unwrap())
        ==> pos(s, start.id_spec().unwrap()) <= pos(s, end.id_spec().unwrap())
}

/// FINDING Q1 (REPAIRED), input class: an exclusive start and an end anchored at the SAME element (the empty ranges
/// `(Excluded(i), Included(i))` and `(Excluded(i), Excluded(i))` of `Quotable::quote`)
pub open spec fn finding_q1_same_anchor_exclusive_start(start: StickyIndex, end: StickyIndex) -> bool {
    start.id_spec() is Some && end.id_spec() == start.id_spec() && start.assoc == Assoc::After
}

// ---------------------------------------------------------------------------------------------
// specification, part 2: the iterator, block level
// ---------------------------------------------------------------------------------------------
/// ghost view of a `RangeIter`: the blocks the inner iterator has not handed out yet (document order) + the three fields
pub struct View {
    pub s: Seq<ItemPtr>,
    pub state: RangeIterState,
    pub start: StickyIndex,
    pub end: StickyIndex,
}

/// where the range begins: block index into the pending sequence (`s.len()` = behind the last block) and offset inside it
/// `ended`: the exclusive start was the last unit of its block AND that block also holds the end anchor -- the range is empty
pub struct Landing {
    pub found: bool,
    pub ended: bool,
    pub idx: int,
    pub off: int,
}

pub open spec fn start_landing(s: Seq<ItemPtr>, start: StickyIndex, end: StickyIndex) -> Landing {
    match start.id_spec() {
        None => Landing { found: s.len() > 0, ended: false, idx: 0, off: 0 },
        Some(a) => {
            let i = find(s, a);
            if i >= s.len() {
                Landing { found: false, ended: false, idx: s.len() as int, off: 0 }
            } else {
                let off = a.clock - s[i].id.clock;
                if start.assoc == Assoc::After {
                    if off + 1 == s[i].len {
                        // the range begins with the next block -- unless it ends in the block that is left
                        Landing { found: true, ended: end.id_spec() is Some && covers_id(s[i], end.id_spec().unwrap()), idx: i + 1, off: 0 }
                    } else {
                        Landing { found: true, ended: false, idx: i, off: off + 1 }
                    }
                } else {
                    Landing { found: true, ended: false, idx: i, off: off }
                }
            }
        },
    }
}

/// what the end boundary leaves of block `p` from offset `so` on: `closes` = p is the end block; `out` = offsets (first, last)
/// of the slice, None = nothing of this block is in the range
pub struct Cut {
    pub closes: bool,
    pub out: Option<(int, int)>,
}

pub open spec fn end_cut(p: &Item, so: int, end: StickyIndex) -> Cut {
    if end.id_spec() is Some && covers_id(p, end.id_spec().unwrap()) {
        let eo = end.id_spec().unwrap().clock - p.id.clock;
        if end.assoc == Assoc::Before {
            if eo <= so {
                Cut { closes: true, out: None }
            } else {
                Cut { closes: true, out: Some((so, eo - 1)) }
            }
        } else {
            if eo < so {
                Cut { closes: true, out: None }
            } else {
                Cut { closes: true, out: Some((so, eo)) }
            }
        }
    } else {
        Cut { closes: false, out: Some((so, p.len - 1)) }
    }
}

pub open spec fn cut_slice(p: ItemPtr, c: Cut) -> Option<ItemSlice> {
    match c.out {
        Some((a, b)) => Some(ItemSlice { ptr: p, start: a as u32, end: b as u32 }),
        None => None,
    }
}

pub open spec fn cut_ids(p: &Item, c: Cut) -> Seq<ID> {
    match c.out {
        Some((a, b)) => ids_of(p, a, b),
        None => Seq::empty(),
    }
}

pub open spec fn step(v: View, p: ItemPtr, so: int, rest: Seq<ItemPtr>) -> (View, Option<ItemSlice>) {
    let c = end_cut(p, so, v.end);
    (View { s: rest, state: if c.closes { RangeIterState::Closed } else { RangeIterState::InRange }, start: v.start, end: v.end }, cut_slice(p, c))
}

/// PER-CALL CONTRACT of `<RangeIter as Iterator>::next`: the new state / remaining inner sequence and the slice returned
pub open spec fn next_spec(v: View) -> (View, Option<ItemSlice>) {
    match v.state {
        RangeIterState::Closed => (v, None),
        RangeIterState::InRange => if v.s.len() == 0 { (v, None) } else { step(v, v.s[0], 0, v.s.skip(1)) },
        RangeIterState::Opened => {
            let l = start_landing(v.s, v.start, v.end);
            if !l.found {
                (View { s: Seq::empty(), state: v.state, start: v.start, end: v.end }, None)
            } else if l.ended {
                (View { s: v.s.skip(l.idx), state: RangeIterState::Closed, start: v.start, end: v.end }, None)
            } else if l.idx >= v.s.len() {
                (View { s: Seq::empty(), state: RangeIterState::InRange, start: v.start, end: v.end }, None)
            } else {
                step(v, v.s[l.idx], l.off, v.s.skip(l.idx + 1))
            }
        },
    }
}

// TOTALITY: `next` has NO precondition besides `item_ok` of the pending blocks.  `start.clock - ptr.id().clock` and
// `end.clock - ptr.id().clock` are guarded by `contains`; `offset += 1` is bounded by the block length; `ptr.len() - 1` needs
// len >= 1; `offset -= 1` is guarded by `offset > start_offset >= 0`; `ItemSlice::new(ptr, start_offset, end_offset)` is reached
// with start_offset <= end_offset only (an end cut in front of the slice start returns None).

/// the units still to be yielded
pub open spec fn rem(v: View) -> Seq<ID> {
    match v.state {
        RangeIterState::Closed => Seq::empty(),
        RangeIterState::InRange => flat(v.s).subrange(0, hi(v.s, v.end)),
        RangeIterState::Opened => expected(v.s, v.start, v.end),
    }
}

/// `(w, r) == next_spec(v)`, with the sequence component compared extensionally
pub open spec fn next_post(v: View, w: View, r: Option<ItemSlice>) -> bool {
    &&& w.s =~= next_spec(v).0.s
    &&& w.state == next_spec(v).0.state
    &&& w.start == next_spec(v).0.start
    &&& w.end == next_spec(v).0.end
    &&& r == next_spec(v).1
}

pub open spec fn view_dom(v: View) -> bool {
    v.state == RangeIterState::Opened ==> dom(v.s, v.start, v.end)
}

// ---------------------------------------------------------------------------------------------
// specification, part 3: the iterator from the other end (`next_back`).  No block-level mirror of the code is given (the code
// on the pinned tree is not a mirror image of `next`, see FINDING QB); the per-call contract is stated directly over the units
// still to be yielded, so that every correct implementation satisfies it.
// ---------------------------------------------------------------------------------------------
/// the units still to be yielded by a traversal that uses `next_back` only: `s` = the blocks the inner iterator has not handed
/// out yet (its BACK end is consumed)
pub open spec fn rem_back(v: View) -> Seq<ID> {
    match v.state {
        RangeIterState::Closed => Seq::empty(),
        RangeIterState::InRange => if lo(v.s, v.start) <= total(v.s) { flat(v.s).subrange(lo(v.s, v.start), total(v.s)) } else { Seq::empty() },
        RangeIterState::Opened => expected(v.s, v.start, v.end),
    }
}

/// DOMAIN of the backward traversal: both anchors are absent or occur (a traversal from the back cannot know that an anchor will
/// never show up before it has handed out blocks), and the end anchor is not in front of the start anchor
pub open spec fn dom_back(v: View) -> bool {
    v.state == RangeIterState::Opened ==> {
        &&& v.start.id_spec() is Some ==> occurs(v.s, v.start.id_spec().unwrap())
        &&& v.end.id_spec() is Some ==> occurs(v.s, v.end.id_spec().unwrap())
        &&& v.start.id_spec() is Some && v.end.id_spec() is Some ==> pos(v.s, v.start.id_spec().unwrap()) <= pos(v.s, v.end.id_spec().unwrap())
    }
}

/// PER-CALL CONTRACT of `<RangeIter as DoubleEndedIterator>::next_back`: None exactly when nothing is left; otherwise a
/// NON-EMPTY slice of ONE pending block holding the LAST units still to be yielded; what is pending afterwards is a prefix of
/// what was pending
pub open spec fn next_back_ok(v: View, w: View, r: Option<ItemSlice>) -> bool {
    &&& w.start == v.start && w.end == v.end
    &&& w.s.is_prefix_of(v.s)
    &&& match r {
        None => rem_back(v).len() == 0 && rem_back(w).len() == 0,
        Some(sl) => v.s.contains(sl.ptr) && sl.start <= sl.end < sl.ptr.len && rem_back(v) == rem_back(w) + slice_ids(sl),
    }
}

/// the units of a run of slices yielded from the back, in DOCUMENT order (the slice yielded first comes last)
pub open spec fn concat_back(outs: Seq<ItemSlice>) -> Seq<ID>
    decreases outs.len(),
{
    if outs.len() == 0 {
        Seq::empty()
    } else {
        concat_back(outs.skip(1)) + slice_ids(outs[0])
    }
}

/// `vs[i]` is the iterator before the i-th call of `next_back`, `outs[i]` the slice that call returns; `vs.last()` is the
/// iterator after the call that returned None
pub open spec fn is_trace_back(vs: Seq<View>, outs: Seq<ItemSlice>) -> bool {
    &&& vs.len() == outs.len() + 2
    &&& forall|i: int| 0 <= i < outs.len() ==> next_back_ok(#[trigger] vs[i], vs[i + 1], Some(outs[i]))
    &&& next_back_ok(vs[outs.len() as int], vs[outs.len() as int + 1], None)
}

/// DRAIN LEMMA, from the back: all the calls together yield exactly the units still to be yielded at the beginning
pub proof fn lemma_drain_back(vs: Seq<View>, outs: Seq<ItemSlice>)
    requires
        is_trace_back(vs, outs),
    ensures
        concat_back(outs) == rem_back(vs[0]),
    decreases outs.len(),
{
    if outs.len() == 0 {
        assert(rem_back(vs[0]) =~= Seq::<ID>::empty());
    } else {
        let vt = vs.skip(1);
        let ot = outs.skip(1);
        assert(next_back_ok(vs[0], vs[1], Some(outs[0])));
        assert(vt[0] == vs[1]);
        assert forall|i: int| 0 <= i < ot.len() implies next_back_ok(#[trigger] vt[i], vt[i + 1], Some(ot[i])) by {
            assert(vt[i] == vs[i + 1]);
            assert(vt[i + 1] == vs[i + 2]);
            assert(ot[i] == outs[i + 1]);
            assert(next_back_ok(vs[i + 1], vs[i + 2], Some(outs[i + 1])));
        }
        assert(vt[ot.len() as int] == vs[outs.len() as int]);
        assert(vt[ot.len() as int + 1] == vs[outs.len() as int + 1]);
        lemma_drain_back(vt, ot);
    }
}

// ---- OBSERVATION QB: what `next_back` on the pinned tree DOES compute (dead code: no caller in the crate).  It is under contract
// against THIS description (so the disagreement below is about real code), and `observation_qb_*` prove that the description
// violates the per-call contract `next_back_ok` above: `next_back` is not the mirror image of `next`.
/// index of the last block that holds `id`; -1 if there is none
pub open spec fn rfind(s: Seq<ItemPtr>, id: ID) -> int
    decreases s.len(),
{
    if s.len() == 0 {
        -1
    } else if covers_id(s.last(), id) {
        s.len() - 1
    } else {
        rfind(s.drop_last(), id)
    }
}

/// the block at which the code enters the range from the back: the last block if the end has no anchor, else the last block
/// holding the end anchor; -1: none
pub open spec fn back_entry(s: Seq<ItemPtr>, end: StickyIndex) -> int {
    match end.id_spec() {
        None => s.len() - 1,
        Some(e) => rfind(s, e),
    }
}

/// the `end_offset` the code computes for the entry block `p`: the block LENGTH if the end has no anchor (one past the last unit),
/// the offset of the end anchor otherwise -- `end.assoc` is not consulted
pub open spec fn back_entry_offset(p: &Item, end: StickyIndex) -> int {
    match end.id_spec() {
        None => p.len as int,
        Some(e) => e.clock - p.id.clock,
    }
}

/// the slice the code builds from block `p` with the given `end_offset`: from the start anchor (if `p` holds it; `start.assoc`
/// is not consulted) or from offset 0
pub open spec fn step_back_code(v: View, p: ItemPtr, eo: int, rest: Seq<ItemPtr>) -> (View, Option<ItemSlice>) {
    if v.start.id_spec() is Some && covers_id(p, v.start.id_spec().unwrap()) {
        (View { s: rest, state: RangeIterState::Closed, start: v.start, end: v.end },
            Some(ItemSlice { ptr: p, start: (v.start.id_spec().unwrap().clock - p.id.clock) as u32, end: eo as u32 }))
    } else {
        (View { s: rest, state: RangeIterState::InRange, start: v.start, end: v.end }, Some(ItemSlice { ptr: p, start: 0, end: eo as u32 }))
    }
}

pub open spec fn next_back_code(v: View) -> (View, Option<ItemSlice>) {
    match v.state {
        RangeIterState::Closed => (v, None),
        // `end_offset` keeps its initial value 0
        RangeIterState::InRange => if v.s.len() == 0 { (v, None) } else { step_back_code(v, v.s.last(), 0, v.s.drop_last()) },
        RangeIterState::Opened => {
            let j = back_entry(v.s, v.end);
            if j < 0 {
                (View { s: Seq::empty(), state: v.state, start: v.start, end: v.end }, None)
            } else {
                step_back_code(v, v.s[j], back_entry_offset(v.s[j], v.end), v.s.take(j))
            }
        },
    }
}

/// weakest precondition of `ItemSlice::new(ptr, start_offset, end_offset)` in `next_back` (its debug_assert!(start <= end))
pub open spec fn next_back_code_total(v: View) -> bool {
    let a = v.start.id_spec();
    match v.state {
        RangeIterState::Closed => true,
        RangeIterState::InRange => v.s.len() > 0 && a is Some && covers_id(v.s.last(), a.unwrap()) ==> a.unwrap().clock == v.s.last().id.clock,
        RangeIterState::Opened => {
            let j = back_entry(v.s, v.end);
            j >= 0 && a is Some && covers_id(v.s[j], a.unwrap()) ==> a.unwrap().clock - v.s[j].id.clock <= back_entry_offset(v.s[j], v.end)
        },
    }
}

pub open spec fn next_back_code_post(v: View, w: View, r: Option<ItemSlice>) -> bool {
    &&& w.s =~= next_back_code(v).0.s
    &&& w.state == next_back_code(v).0.state
    &&& w.start == next_back_code(v).0.start
    &&& w.end == next_back_code(v).0.end
    &&& r == next_back_code(v).1
}

pub proof fn lemma_rfind_bounds(s: Seq<ItemPtr>, id: ID)
    ensures
        -1 <= rfind(s, id) < s.len(),
        forall|i: int| rfind(s, id) < i < s.len() ==> !covers_id(#[trigger] s[i], id),
        rfind(s, id) >= 0 ==> covers_id(s[rfind(s, id)], id),
    decreases s.len(),
{
    if s.len() > 0 && !covers_id(s.last(), id) {
        let t = s.drop_last();
        lemma_rfind_bounds(t, id);
        assert forall|i: int| rfind(s, id) < i < s.len() implies !covers_id(#[trigger] s[i], id) by {
            if i < s.len() - 1 {
                assert(s[i] == t[i]);
            }
        }
        if rfind(s, id) >= 0 {
            assert(s[rfind(s, id)] == t[rfind(t, id)]);
        }
    }
}

/// OBSERVATION QB, 1: ONE pending block of 2 units, no anchors (the whole block is the range).  The code is total here and
/// yields the slice (p, 0, 2): its last offset is one PAST the block -- the unit id clock + 2 is not in the block, and the call
/// violates the per-call contract
pub proof fn observation_qb_end_one_past_the_block(p: ItemPtr, start: StickyIndex, end: StickyIndex)
    requires
        item_ok(p),
        p.len == 2,
        start.id_spec() is None,
        end.id_spec() is None,
    ensures
        ({
            let v = View { s: seq![p], state: RangeIterState::Opened, start: start, end: end };
            let (w, r) = next_back_code(v);
            &&& next_back_code_total(v) && dom_back(v) && items_ok(v.s) && disjoint(v.s)
            &&& r == Some(ItemSlice { ptr: p, start: 0, end: 2 })
            &&& !covers_id(p, slice_ids(r.unwrap())[2])
            &&& !next_back_ok(v, w, r)
        }),
{
    let s = seq![p];
    assert(s[0] == p);
    assert(s.take(0) =~= Seq::<ItemPtr>::empty());
    let sl = ItemSlice { ptr: p, start: 0, end: 2 };
    assert(slice_ids(sl)[2] == ID { client: p.id.client, clock: (p.id.clock + 2) as u32 });
}

/// OBSERVATION QB, 2: TWO pending blocks of 2 units each, inclusive end anchor = the last unit of the second block, no start
/// anchor.  The first call yields (p1, 0, 1) -- right --, the second call (state InRange) yields (p0, 0, 0): the FIRST unit of
/// the block only; its second unit is never yielded, the call violates the per-call contract
pub proof fn observation_qb_inner_blocks_lose_units(p0: ItemPtr, p1: ItemPtr, start: StickyIndex, end: StickyIndex)
    requires
        item_ok(p0) && item_ok(p1),
        p0.len == 2 && p1.len == 2,
        forall|id: ID| covers_id(p0, id) ==> !covers_id(p1, id),
        start.id_spec() is None,
        end.id_spec() == Some(ID { client: p1.id.client, clock: (p1.id.clock + 1) as u32 }) && end.assoc == Assoc::After,
    ensures
        ({
            let v0 = View { s: seq![p0, p1], state: RangeIterState::Opened, start: start, end: end };
            let (v1, r1) = next_back_code(v0);
            let (v2, r2) = next_back_code(v1);
            &&& next_back_code_total(v0) && next_back_code_total(v1)
            &&& r1 == Some(ItemSlice { ptr: p1, start: 0, end: 1 }) && v1.s == seq![p0] && v1.state == RangeIterState::InRange
            &&& r2 == Some(ItemSlice { ptr: p0, start: 0, end: 0 })
            &&& rem_back(v1) == block_ids(p0)
            &&& !next_back_ok(v1, v2, r2)
        }),
{
    let s = seq![p0, p1];
    let e = end.id_spec().unwrap();
    assert(s[0] == p0 && s[1] == p1 && s.last() == p1);
    assert(covers_id(p1, e));
    assert(rfind(s, e) == 1);
    assert(s.take(1) =~= seq![p0]);
    let v1 = next_back_code(View { s: s, state: RangeIterState::Opened, start: start, end: end }).0;
    let s1 = seq![p0];
    assert(v1.s == s1);
    assert(s1[0] == p0 && s1.last() == p0);
    assert(s1.drop_last() =~= Seq::<ItemPtr>::empty());
    // what is left after the first call: the whole block p0
    assert(items_ok(s1));
    lemma_flat_len(s1);
    assert(total(s1.skip(1)) == 0);
    assert(flat(s1.skip(1)) =~= Seq::<ID>::empty());
    assert(flat(s1) =~= block_ids(p0));
    assert(rem_back(v1) =~= block_ids(p0));
    // the second call accounts for one unit only
    let v2 = next_back_code(v1).0;
    assert(rem_back(v2).len() == 0) by {
        assert(v2.s =~= Seq::<ItemPtr>::empty());
        assert(total(v2.s) == 0);
        assert(flat(v2.s) =~= Seq::<ID>::empty());
    }
    assert(slice_ids(ItemSlice { ptr: p0, start: 0, end: 0 }).len() == 1);
    assert(block_ids(p0).len() == 2);
}

// ---------------------------------------------------------------------------------------------
// lemmas
// ---------------------------------------------------------------------------------------------
pub proof fn lemma_find_bounds(s: Seq<ItemPtr>, id: ID)
    ensures
        0 <= find(s, id) <= s.len(),
        forall|i: int| 0 <= i < find(s, id) ==> !covers_id(#[trigger] s[i], id),
        find(s, id) < s.len() ==> covers_id(s[find(s, id)], id),
    decreases s.len(),
{
    if s.len() > 0 && !covers_id(s[0], id) {
        let t = s.skip(1);
        lemma_find_bounds(t, id);
        assert forall|i: int| 0 <= i < find(s, id) implies !covers_id(#[trigger] s[i], id) by {
            if i > 0 {
                assert(s[i] == t[i - 1]);
            }
        }
        if find(s, id) < s.len() {
            assert(s[find(s, id)] == t[find(t, id)]);
        }
    }
}

pub proof fn lemma_flat_len(s: Seq<ItemPtr>)
    requires
        items_ok(s),
    ensures
        flat(s).len() == total(s),
        total(s) >= 0,
    decreases s.len(),
{
    if s.len() > 0 {
        let t = s.skip(1);
        assert forall|i: int| 0 <= i < t.len() implies item_ok(#[trigger] t[i]) by {
            assert(t[i] == s[i + 1]);
        }
        assert(item_ok(s[0]));
        lemma_flat_len(t);
    }
}

pub proof fn lemma_items_ok_skip(s: Seq<ItemPtr>, n: int)
    requires
        items_ok(s),
        0 <= n <= s.len(),
    ensures
        items_ok(s.skip(n)),
{
    let t = s.skip(n);
    assert forall|i: int| 0 <= i < t.len() implies item_ok(#[trigger] t[i]) by {
        assert(t[i] == s[i + n]);
    }
}

/// position and occurrence, one block further
pub proof fn lemma_pos_bounds(s: Seq<ItemPtr>, id: ID)
    requires
        items_ok(s),
    ensures
        occurs(s, id) ==> 0 <= pos(s, id) < total(s),
        !occurs(s, id) ==> pos(s, id) == total(s),
        s.len() > 0 && !covers_id(s[0], id) ==> occurs(s, id) == occurs(s.skip(1), id) && pos(s, id) == s[0].len + pos(s.skip(1), id),
        s.len() > 0 && covers_id(s[0], id) ==> occurs(s, id) && pos(s, id) == id.clock - s[0].id.clock && pos(s, id) < s[0].len,
        total(s) >= 0,
    decreases s.len(),
{
    if s.len() > 0 {
        lemma_items_ok_skip(s, 1);
        assert(item_ok(s[0]));
        lemma_pos_bounds(s.skip(1), id);
    }
}

/// the subrange of S that starts inside the first block
pub proof fn lemma_flat_split(s: Seq<ItemPtr>, a: int, b: int)
    requires
        items_ok(s),
        s.len() > 0,
        0 <= a <= s[0].len,
        a <= b <= total(s),
    ensures
        b <= s[0].len ==> flat(s).subrange(a, b) == ids_of(s[0], a, b - 1),
        b >= s[0].len ==> flat(s).subrange(a, b) == ids_of(s[0], a, s[0].len - 1) + flat(s.skip(1)).subrange(0, b - s[0].len),
{
    let p = s[0];
    let t = s.skip(1);
    lemma_items_ok_skip(s, 1);
    lemma_flat_len(s);
    lemma_flat_len(t);
    assert(item_ok(p));
    assert(block_ids(p).len() == p.len);
    if b <= p.len {
        assert(flat(s).subrange(a, b) =~= ids_of(p, a, b - 1));
    }
    if b >= p.len {
        assert(flat(s).subrange(a, b) =~= ids_of(p, a, p.len - 1) + flat(t).subrange(0, b - p.len));
    }
}

/// hi, one block further
pub proof fn lemma_hi_shift(s: Seq<ItemPtr>, end: StickyIndex)
    requires
        items_ok(s),
        s.len() > 0,
        !(end.id_spec() is Some && covers_id(s[0], end.id_spec().unwrap())),
    ensures
        hi(s, end) == s[0].len + hi(s.skip(1), end),
        0 <= hi(s.skip(1), end) <= total(s.skip(1)),
{
    lemma_items_ok_skip(s, 1);
    lemma_flat_len(s.skip(1));
    if end.id_spec() is Some {
        lemma_pos_bounds(s, end.id_spec().unwrap());
        lemma_pos_bounds(s.skip(1), end.id_spec().unwrap());
    }
}

pub proof fn lemma_hi_bounds(s: Seq<ItemPtr>, end: StickyIndex)
    requires
        items_ok(s),
    ensures
        0 <= hi(s, end) <= total(s),
{
    lemma_flat_len(s);
    if end.id_spec() is Some {
        lemma_pos_bounds(s, end.id_spec().unwrap());
    }
}

/// S[a .. b), empty if b < a
pub open spec fn seg(s: Seq<ItemPtr>, a: int, b: int) -> Seq<ID> {
    if a <= b {
        flat(s).subrange(a, b)
    } else {
        Seq::empty()
    }
}

/// LEMMA A (one block against the end boundary): what is left of S from offset `so` of the first block up to the end boundary
/// is the cut of the first block followed -- unless that block is the end block -- by what is left of the other blocks.
/// (`so` may lie BEHIND the end boundary: then nothing is left and the cut is None.)
pub proof fn lemma_cut(s: Seq<ItemPtr>, so: int, end: StickyIndex)
    requires
        items_ok(s),
        s.len() > 0,
        0 <= so < s[0].len,
    ensures
        ({
            let c = end_cut(s[0], so, end);
            &&& seg(s, so, hi(s, end)) == cut_ids(s[0], c) + (if c.closes { Seq::<ID>::empty() } else { flat(s.skip(1)).subrange(0, hi(s.skip(1), end)) })
            &&& match c.out {
                Some((a, b)) => a == so && a <= b < s[0].len && cut_ids(s[0], c).len() == b - a + 1,
                None => c.closes && hi(s, end) <= so,
            }
        }),
{
    let p = s[0];
    let t = s.skip(1);
    let c = end_cut(p, so, end);
    assert(item_ok(p));
    lemma_hi_bounds(s, end);
    lemma_flat_len(s);
    if end.id_spec() is Some && covers_id(p, end.id_spec().unwrap()) {
        let e = end.id_spec().unwrap();
        lemma_pos_bounds(s, e);
        let h = hi(s, end);
        assert(0 <= h <= p.len);
        if so <= h {
            lemma_flat_split(s, so, h);
        }
        assert(seg(s, so, h) =~= cut_ids(p, c) + Seq::<ID>::empty());
    } else {
        lemma_hi_shift(s, end);
        let h = hi(s, end);
        lemma_flat_split(s, so, h);
    }
}

/// LEMMA B (the start boundary): on the domain, the expected units are what is left of the pending blocks from the landing
/// block / offset on, up to the end boundary; nothing if the range already ended in the block the exclusive start left
pub proof fn lemma_landing(s: Seq<ItemPtr>, start: StickyIndex, end: StickyIndex)
    requires
        items_ok(s),
        dom(s, start, end),
    ensures
        ({
            let l = start_landing(s, start, end);
            &&& !l.found ==> expected(s, start, end) == Seq::<ID>::empty()
            &&& l.found ==> 0 <= l.idx <= s.len()
            &&& l.found && l.ended ==> expected(s, start, end) == Seq::<ID>::empty()
            &&& l.found && l.idx == s.len() ==> expected(s, start, end) == Seq::<ID>::empty()
            &&& l.found && !l.ended && l.idx < s.len() ==> {
                let t = s.skip(l.idx);
                &&& 0 <= l.off < s[l.idx].len
                &&& expected(s, start, end) == seg(t, l.off, hi(t, end))
            }
        }),
    decreases s.len(),
{
    let l = start_landing(s, start, end);
    lemma_hi_bounds(s, end);
    lemma_flat_len(s);
    match start.id_spec() {
        None => {
            if s.len() > 0 {
                assert(s.skip(0) =~= s);
                assert(item_ok(s[0]));
            } else {
                assert(flat(s).subrange(0, hi(s, end)) =~= Seq::<ID>::empty());
            }
        },
        Some(a) => {
            lemma_find_bounds(s, a);
            lemma_pos_bounds(s, a);
            if s.len() == 0 {
            } else if covers_id(s[0], a) {
                let p = s[0];
                let t = s.skip(1);
                assert(item_ok(p));
                lemma_items_ok_skip(s, 1);
                if end.id_spec() is Some {
                    lemma_pos_bounds(s, end.id_spec().unwrap());
                }
                if l.idx == 0 {
                    assert(s.skip(0) =~= s);
                } else {
                    // Assoc::After on the last unit of the first block: the range begins with the next block
                    assert(l.idx == 1 && lo(s, start) == p.len);
                    if l.ended {
                        // ... but it also ends in the first block
                        assert(hi(s, end) <= p.len);
                        assert(expected(s, start, end) =~= Seq::<ID>::empty());
                    } else {
                        lemma_hi_shift(s, end);
                        lemma_flat_len(t);
                        if t.len() > 0 {
                            lemma_flat_split(s, p.len as int, hi(s, end));
                            assert(ids_of(p, p.len as int, p.len - 1) =~= Seq::<ID>::empty());
                            assert(expected(s, start, end) =~= flat(t).subrange(0, hi(t, end)));
                            assert(item_ok(t[0]));
                            assert(t[0] == s[1]);
                        } else {
                            assert(expected(s, start, end) =~= Seq::<ID>::empty());
                        }
                    }
                }
            } else {
                let p = s[0];
                let t = s.skip(1);
                assert(item_ok(p));
                lemma_items_ok_skip(s, 1);
                lemma_pos_bounds(t, a);
                lemma_find_bounds(t, a);
                lemma_flat_len(t);
                let lt = start_landing(t, start, end);
                if occurs(s, a) {
                    // the landing of s is the landing of t, one block further
                    assert(find(s, a) == 1 + find(t, a));
                    assert(s[find(s, a)] == t[find(t, a)]);
                    assert(l.found && lt.found && l.idx == lt.idx + 1 && l.off == lt.off && l.ended == lt.ended);
                    assert(lo(s, start) == p.len + lo(t, start));
                    if end.id_spec() is Some {
                        let e = end.id_spec().unwrap();
                        lemma_pos_bounds(s, e);
                        lemma_pos_bounds(t, e);
                        lemma_find_bounds(s, e);
                        lemma_find_bounds(t, e);
                        // the end anchor is not in the first block (domain: its block is not in front of the start block)
                        if occurs(s, e) {
                            assert(find(s, e) >= 1);
                        }
                        assert(!covers_id(p, e));
                    }
                    lemma_hi_shift(s, end);
                    assert(dom(t, start, end));
                    lemma_landing(t, start, end);
                    lemma_hi_bounds(t, end);
                    if lo(t, start) <= hi(t, end) {
                        assert(flat(s).subrange(lo(s, start), hi(s, end)) =~= flat(t).subrange(lo(t, start), hi(t, end)));
                    }
                    assert(expected(s, start, end) == expected(t, start, end));
                    if lt.idx < t.len() {
                        assert(t.skip(lt.idx) =~= s.skip(l.idx));
                        assert(s[l.idx] == t[lt.idx]);
                    }
                } else {
                    assert(lo(s, start) == total(s));
                    assert(expected(s, start, end) =~= Seq::<ID>::empty());
                }
            }
        },
    }
}

/// STEP THEOREM: on the domain one call of `next` (as specified by `next_spec`) returns None exactly when nothing is left, and
/// otherwise returns a NON-EMPTY slice of ONE pending block, in order: the next units still to be yielded
pub proof fn theorem_step(v: View)
    requires
        items_ok(v.s),
        view_dom(v),
    ensures
        ({
            let (w, r) = next_spec(v);
            &&& items_ok(w.s) && view_dom(w) && w.start == v.start && w.end == v.end
            &&& forall|p: ItemPtr| w.s.contains(p) ==> v.s.contains(p)
            &&& r is None <==> rem(v).len() == 0
            &&& r is None ==> rem(w).len() == 0
            &&& r is Some ==> {
                let sl = r.unwrap();
                &&& v.s.contains(sl.ptr)
                &&& sl.start <= sl.end < sl.ptr.len
                &&& slice_ids(sl).len() == sl.end - sl.start + 1
                &&& rem(v) == slice_ids(sl) + rem(w)
            }
        }),
{
    let (w, r) = next_spec(v);
    match v.state {
        RangeIterState::Closed => {},
        RangeIterState::InRange => {
            lemma_hi_bounds(v.s, v.end);
            if v.s.len() > 0 {
                assert(item_ok(v.s[0]));
                lemma_cut(v.s, 0, v.end);
                lemma_items_ok_skip(v.s, 1);
                lemma_hi_bounds(v.s.skip(1), v.end);
                lemma_skip_contains(v.s, 1);
            } else {
                assert(total(v.s) == 0);
            }
        },
        RangeIterState::Opened => {
            lemma_landing(v.s, v.start, v.end);
            let l = start_landing(v.s, v.start, v.end);
            if l.found && l.ended {
                lemma_items_ok_skip(v.s, l.idx);
                lemma_skip_contains(v.s, l.idx);
            } else if l.found && l.idx < v.s.len() {
                let t = v.s.skip(l.idx);
                lemma_items_ok_skip(v.s, l.idx);
                assert(t[0] == v.s[l.idx]);
                assert(t.skip(1) =~= v.s.skip(l.idx + 1));
                lemma_cut(t, l.off, v.end);
                lemma_items_ok_skip(t, 1);
                lemma_hi_bounds(t.skip(1), v.end);
                lemma_skip_contains(v.s, l.idx + 1);
            } else {
                assert(flat(Seq::<ItemPtr>::empty()) =~= Seq::<ID>::empty());
                assert(total(Seq::<ItemPtr>::empty()) == 0);
                lemma_hi_bounds(Seq::<ItemPtr>::empty(), v.end);
                lemma_flat_len(Seq::<ItemPtr>::empty());
                assert(expected(Seq::<ItemPtr>::empty(), v.start, v.end) =~= Seq::<ID>::empty());
            }
        },
    }
}

/// what is left is a suffix of what was pending
pub proof fn lemma_skip_contains(s: Seq<ItemPtr>, n: int)
    requires
        0 <= n <= s.len(),
    ensures
        forall|p: ItemPtr| s.skip(n).contains(p) ==> s.contains(p),
{
    assert forall|p: ItemPtr| s.skip(n).contains(p) implies s.contains(p) by {
        let i = choose|i: int| 0 <= i < s.skip(n).len() && s.skip(n)[i] == p;
        assert(s[i + n] == p);
    }
}

// ---------------------------------------------------------------------------------------------
// LIFETIME READING: iterating to the end
// ---------------------------------------------------------------------------------------------
/// the units of a run of slices, in the order in which they were yielded
pub open spec fn concat_ids(outs: Seq<ItemSlice>) -> Seq<ID>
    decreases outs.len(),
{
    if outs.len() == 0 {
        Seq::empty()
    } else {
        slice_ids(outs[0]) + concat_ids(outs.skip(1))
    }
}

/// `vs[i]` is the iterator before the i-th call of `next`, `outs[i]` the slice that call returns, and the call after the last
/// of them returns None
pub open spec fn is_trace(vs: Seq<View>, outs: Seq<ItemSlice>) -> bool {
    &&& vs.len() == outs.len() + 1
    &&& forall|i: int| 0 <= i < outs.len() ==> next_spec(#[trigger] vs[i]) == (vs[i + 1], Some(outs[i]))
    &&& next_spec(vs.last()).1 is None
}

/// every slice is a non-empty range of ONE block of the sequence
pub open spec fn slices_ok(s: Seq<ItemPtr>, outs: Seq<ItemSlice>) -> bool {
    forall|i: int| 0 <= i < outs.len() ==> s.contains((#[trigger] outs[i]).ptr) && outs[i].start <= outs[i].end < outs[i].ptr.len
}

/// DRAIN LEMMA: all the calls together yield exactly the units still to be yielded at the beginning -- nothing else, in order
pub proof fn lemma_drain(vs: Seq<View>, outs: Seq<ItemSlice>)
    requires
        is_trace(vs, outs),
        items_ok(vs[0].s),
        view_dom(vs[0]),
    ensures
        concat_ids(outs) == rem(vs[0]),
        slices_ok(vs[0].s, outs),
    decreases outs.len(),
{
    hide(next_spec);
    hide(rem);
    theorem_step(vs[0]);
    if outs.len() == 0 {
        assert(vs[0] == vs.last());
        assert(rem(vs[0]) =~= Seq::<ID>::empty());
    } else {
        let vt = vs.skip(1);
        let ot = outs.skip(1);
        assert(next_spec(vs[0]) == (vs[1], Some(outs[0])));
        assert(vt[0] == vs[1]);
        assert forall|i: int| 0 <= i < ot.len() implies next_spec(#[trigger] vt[i]) == (vt[i + 1], Some(ot[i])) by {
            assert(vt[i] == vs[i + 1]);
            assert(vt[i + 1] == vs[i + 2]);
            assert(ot[i] == outs[i + 1]);
        }
        assert(vt.last() == vs.last());
        lemma_drain(vt, ot);
        assert forall|i: int| 0 <= i < outs.len() implies vs[0].s.contains((#[trigger] outs[i]).ptr) && outs[i].start <= outs[i].end < outs[i].ptr.len by {
            if i > 0 {
                assert(ot[i - 1] == outs[i]);
                assert(vs[1].s.contains(ot[i - 1].ptr));
            }
        }
    }
}

// ---- what "position in S" means -----------------------------------------------------------------
/// every unit of S lies in one of the blocks
pub proof fn lemma_flat_covered(s: Seq<ItemPtr>, k: int)
    requires
        items_ok(s),
        0 <= k < total(s),
    ensures
        exists|j: int| 0 <= j < s.len() && covers_id(#[trigger] s[j], flat(s)[k]),
    decreases s.len(),
{
    lemma_flat_len(s);
    if s.len() > 0 {
        let p = s[0];
        let t = s.skip(1);
        assert(item_ok(p));
        lemma_items_ok_skip(s, 1);
        lemma_flat_len(t);
        assert(block_ids(p).len() == p.len);
        if k < p.len {
            assert(flat(s)[k] == block_ids(p)[k]);
            assert(covers_id(s[0], flat(s)[k]));
        } else {
            assert(flat(s)[k] == flat(t)[k - p.len]);
            lemma_flat_covered(t, k - p.len);
            let j = choose|j: int| 0 <= j < t.len() && covers_id(#[trigger] t[j], flat(t)[k - p.len]);
            assert(t[j] == s[j + 1]);
        }
    }
}

/// an anchor that occurs sits at `pos`: S[pos(s, id)] == id
pub proof fn lemma_pos_index(s: Seq<ItemPtr>, id: ID)
    requires
        items_ok(s),
        occurs(s, id),
    ensures
        0 <= pos(s, id) < total(s),
        flat(s)[pos(s, id)] == id,
    decreases s.len(),
{
    lemma_pos_bounds(s, id);
    lemma_flat_len(s);
    if s.len() > 0 {
        let p = s[0];
        let t = s.skip(1);
        assert(item_ok(p));
        lemma_items_ok_skip(s, 1);
        lemma_flat_len(t);
        assert(block_ids(p).len() == p.len);
        if covers_id(p, id) {
            assert(flat(s)[pos(s, id)] == block_ids(p)[pos(s, id)]);
        } else {
            lemma_pos_index(t, id);
            assert(flat(s)[pos(s, id)] == flat(t)[pos(s, id) - p.len]);
        }
    }
}

pub proof fn lemma_disjoint_skip(s: Seq<ItemPtr>)
    requires
        disjoint(s),
        s.len() > 0,
    ensures
        disjoint(s.skip(1)),
{
    let t = s.skip(1);
    assert forall|i: int, j: int, id: ID| 0 <= i < j < t.len() && #[trigger] covers_id(t[i], id) implies !#[trigger] covers_id(t[j], id) by {
        assert(t[i] == s[i + 1] && t[j] == s[j + 1]);
        assert(covers_id(s[i + 1], id));
    }
}

/// with pairwise disjoint blocks a unit id occurs in S exactly once: at `pos`
pub proof fn lemma_pos_unique(s: Seq<ItemPtr>, k: int)
    requires
        items_ok(s),
        disjoint(s),
        0 <= k < total(s),
    ensures
        occurs(s, flat(s)[k]),
        pos(s, flat(s)[k]) == k,
    decreases s.len(),
{
    lemma_flat_len(s);
    if s.len() > 0 {
        let p = s[0];
        let t = s.skip(1);
        let id = flat(s)[k];
        assert(item_ok(p));
        lemma_items_ok_skip(s, 1);
        lemma_flat_len(t);
        lemma_pos_bounds(s, id);
        assert(block_ids(p).len() == p.len);
        if k < p.len {
            assert(id == block_ids(p)[k]);
            assert(covers_id(p, id));
        } else {
            assert(id == flat(t)[k - p.len]);
            lemma_flat_covered(t, k - p.len);
            let j = choose|j: int| 0 <= j < t.len() && covers_id(#[trigger] t[j], flat(t)[k - p.len]);
            assert(t[j] == s[j + 1]);
            assert(covers_id(s[j + 1], id));
            if covers_id(s[0], id) {
                assert(!covers_id(s[j + 1], id));
            }
            lemma_disjoint_skip(s);
            lemma_pos_unique(t, k - p.len);
        }
    }
}

/// no unit id twice in S (hence in no sub-sequence of it)
pub proof fn lemma_flat_nodup(s: Seq<ItemPtr>)
    requires
        items_ok(s),
        disjoint(s),
    ensures
        flat(s).no_duplicates(),
{
    lemma_flat_len(s);
    assert forall|i: int, j: int| 0 <= i < flat(s).len() && 0 <= j < flat(s).len() && i != j implies flat(s)[i] != flat(s)[j] by {
        lemma_pos_unique(s, i);
        lemma_pos_unique(s, j);
    }
}

/// an anchor that does not occur is not a unit of S
pub proof fn lemma_not_occurs(s: Seq<ItemPtr>, id: ID)
    requires
        items_ok(s),
        !occurs(s, id),
    ensures
        !flat(s).contains(id),
{
    lemma_flat_len(s);
    lemma_find_bounds(s, id);
    if flat(s).contains(id) {
        let k = choose|k: int| 0 <= k < flat(s).len() && flat(s)[k] == id;
        lemma_flat_covered(s, k);
        let j = choose|j: int| 0 <= j < s.len() && covers_id(#[trigger] s[j], flat(s)[k]);
        assert(!covers_id(s[j], id));
    }
}

/// C20 KERNEL, forward traversal: a `RangeIter` created over the blocks `s` (S = flat(s)) with the boundaries `start` / `end`
/// and iterated to the end yields -- as non-empty slices of single blocks, in order -- exactly the units of S from position
/// lo to position hi (exclusive), where
///     lo = 0                 if `start` has no anchor,     = p      if the anchor is S[p] and start.assoc == Before (inclusive),
///                                                          = p + 1  if start.assoc == After (exclusive)
///     hi = |S|               if `end` has no anchor or its anchor does not occur in S (DERIVED: the iteration runs to the end),
///        = q + 1             if the anchor is S[q] and end.assoc == After (inclusive),   = q  if end.assoc == Before (exclusive)
/// and hi <= lo gives the EMPTY sequence (e.g. an exclusive start and an end at the same element) -- on the WHOLE domain of the
/// property: whenever both anchors occur, the end anchor is not in front of the start anchor (`prop_dom`, q >= p).  Nothing is
/// yielded when the start anchor does not occur.  No id is yielded twice.
pub proof fn theorem_quote_range(s: Seq<ItemPtr>, start: StickyIndex, end: StickyIndex, vs: Seq<View>, outs: Seq<ItemSlice>)
    requires
        items_ok(s),
        disjoint(s),
        prop_dom(s, start, end),
        vs.len() > 0 && vs[0] == (View { s: s, state: RangeIterState::Opened, start: start, end: end }),
        is_trace(vs, outs),
    ensures
        slices_ok(s, outs),
        concat_ids(outs) == expected(s, start, end),
        concat_ids(outs).no_duplicates(),
        // the boundaries are positions of S
        0 <= lo(s, start) <= total(s) && 0 <= hi(s, end) <= total(s) && total(s) == flat(s).len(),
        start.id_spec() is Some && occurs(s, start.id_spec().unwrap()) ==> flat(s)[pos(s, start.id_spec().unwrap())] == start.id_spec().unwrap(),
        end.id_spec() is Some && occurs(s, end.id_spec().unwrap()) ==> flat(s)[pos(s, end.id_spec().unwrap())] == end.id_spec().unwrap(),
        start.id_spec() is Some && !occurs(s, start.id_spec().unwrap()) ==> !flat(s).contains(start.id_spec().unwrap()) && outs.len() == 0,
        end.id_spec() is Some && !occurs(s, end.id_spec().unwrap()) ==> !flat(s).contains(end.id_spec().unwrap()) && hi(s, end) == flat(s).len(),
{
    lemma_dom_of_order(s, start, end);
    lemma_drain(vs, outs);
    lemma_flat_nodup(s);
    lemma_flat_len(s);
    lemma_hi_bounds(s, end);
    let ex = expected(s, start, end);
    if start.id_spec() is Some {
        let a = start.id_spec().unwrap();
        lemma_pos_bounds(s, a);
        if occurs(s, a) {
            lemma_pos_index(s, a);
        } else {
            lemma_not_occurs(s, a);
            assert(ex.len() == 0);
            if outs.len() > 0 {
                theorem_step(vs[0]);
                assert(next_spec(vs[0]) == (vs[1], Some(outs[0])));
            }
        }
    }
    if end.id_spec() is Some {
        let e = end.id_spec().unwrap();
        if occurs(s, e) {
            lemma_pos_index(s, e);
        } else {
            lemma_not_occurs(s, e);
        }
    }
    assert forall|i: int, j: int| 0 <= i < ex.len() && 0 <= j < ex.len() && i != j implies ex[i] != ex[j] by {
        assert(ex[i] == flat(s)[lo(s, start) + i]);
        assert(ex[j] == flat(s)[lo(s, start) + j]);
    }
}

/// positions and blocks are ordered alike: an anchor in an earlier block sits at an earlier position
pub proof fn lemma_find_mono(s: Seq<ItemPtr>, a: ID, e: ID)
    requires
        items_ok(s),
        occurs(s, a),
        occurs(s, e),
        find(s, e) < find(s, a),
    ensures
        pos(s, e) < pos(s, a),
    decreases s.len(),
{
    lemma_pos_bounds(s, a);
    lemma_pos_bounds(s, e);
    lemma_find_bounds(s, a);
    lemma_find_bounds(s, e);
    if s.len() > 0 {
        assert(item_ok(s[0]));
        if covers_id(s[0], e) {
            // e in the first block, a behind it
            assert(!covers_id(s[0], a));
            lemma_items_ok_skip(s, 1);
            lemma_pos_bounds(s.skip(1), a);
        } else {
            assert(!covers_id(s[0], a));
            lemma_items_ok_skip(s, 1);
            lemma_find_mono(s.skip(1), a, e);
        }
    }
}

/// THE DOMAIN OF THE PROPERTY ("the end anchor occurs at or behind the start anchor", pos(start) <= pos(end)) lies inside `dom`;
/// so does the input class of the repaired FINDING Q1 (same anchor), where the expected sequence is empty
pub proof fn lemma_dom_of_order(s: Seq<ItemPtr>, start: StickyIndex, end: StickyIndex)
    requires
        items_ok(s),
    ensures
        prop_dom(s, start, end) ==> dom(s, start, end),
        finding_q1_same_anchor_exclusive_start(start, end) ==> dom(s, start, end) && expected(s, start, end).len() == 0,
{
    if start.id_spec() is Some && end.id_spec() is Some {
        let a = start.id_spec().unwrap();
        let e = end.id_spec().unwrap();
        if occurs(s, a) && occurs(s, e) && find(s, e) < find(s, a) {
            lemma_find_mono(s, a, e);
        }
        lemma_pos_bounds(s, a);
    }
    lemma_flat_len(s);
    if finding_q1_same_anchor_exclusive_start(start, end) {
        assert(expected(s, start, end) =~= Seq::<ID>::empty());
    }
}

/// SATISFIABILITY of the backward contract (no code on the pinned tree meets it, see FINDING QB): for a single pending block `p`,
/// an inclusive start at offset i and an inclusive end at offset j >= i, the call that returns the slice (p, i, j), hands out the
/// block and closes the iterator is a correct `next_back`
pub proof fn example_next_back_single_block(p: ItemPtr, i: u32, j: u32, start: StickyIndex, end: StickyIndex)
    requires
        item_ok(p),
        i <= j < p.len,
        start.id_spec() == Some(ID { client: p.id.client, clock: (p.id.clock + i) as u32 }) && start.assoc == Assoc::Before,
        end.id_spec() == Some(ID { client: p.id.client, clock: (p.id.clock + j) as u32 }) && end.assoc == Assoc::After,
    ensures
        ({
            let v = View { s: seq![p], state: RangeIterState::Opened, start: start, end: end };
            let w = View { s: Seq::empty(), state: RangeIterState::Closed, start: start, end: end };
            dom_back(v) && next_back_ok(v, w, Some(ItemSlice { ptr: p, start: i, end: j }))
        }),
{
    let s = seq![p];
    let a = start.id_spec().unwrap();
    let e = end.id_spec().unwrap();
    assert(s[0] == p);
    assert(items_ok(s));
    assert(covers_id(s[0], a) && covers_id(s[0], e));
    lemma_pos_bounds(s, a);
    lemma_pos_bounds(s, e);
    assert(total(s.skip(1)) == 0);
    lemma_flat_split(s, i as int, j + 1);
    assert(Seq::<ID>::empty() + ids_of(p, i as int, j as int) =~= ids_of(p, i as int, j as int));
    assert(Seq::<ItemPtr>::empty().is_prefix_of(s));
}

// ---------------------------------------------------------------------------------------------
// the real code
// ---------------------------------------------------------------------------------------------
impl Item {
    /*@extract yrs/src/block.rs | impl Item | fn id | label=item_id
    @ret r
    @sig
        ensures *r == self.id,
    @*/

    /*@extract yrs/src/block.rs | impl Item | fn len | label=item_len
    @ret r
    @sig
        ensures r == self.len,
    @*/

    /*@extract yrs/src/block.rs | impl Item | fn contains | label=item_contains
    @ret r
    @sig
        requires
            self.id.clock + self.len <= u32::MAX,
        ensures
            r == covers_id(self, *id),
    @*/
}

impl ItemSlice {
    /*@extract yrs/src/slice.rs | impl ItemSlice | fn new | label=slice_new
    @ret r
    @sig
        requires start <= end,
        ensures r.ptr == ptr, r.start == start, r.end == end,
    @*/
}

impl StickyIndex {
    /*@extract yrs/src/sticky_index.rs | impl StickyIndex | fn id | label=sticky_id
    @ret r
    @sig
        ensures
            r is Some <==> self.id_spec() is Some,
            r is Some ==> *r.unwrap() == self.id_spec().unwrap(),
    @*/
}

/// REWRITE of a construct Verus mishandles (same meaning, logged SUBs on `next` and -- with `self.start` / `start` -- `next_back`):
///     match self.end.id() { Some(end) if ptr.contains(end) => A, _ => B }
/// is spelled
///     match vx_only_in(self.end.id(), ptr) { VxHit::Hit(end) => A, _ => B }
/// i.e. the guard moved into the scrutinee (VERIFIED helper below, not trusted).  Reason (measured): Verus loses `final(self)` of
/// the fields not mentioned afterwards (`final(self).iter` / `final(self).start`) on the path where a match guard containing a
/// call evaluates to false and the other arm assigns a field of `*self`.  (`begin`, whose guarded arms all `break` or reassign
/// `curr` from `self.iter`, is not affected and is verified as written.)  The two SUBs are tied by the type `VxHit`: if only one of them applies to an edited
/// function the result does not type-check (tool error), it is never a different program that verifies.
pub enum VxHit<'a> {
    Hit(&'a ID),
    Miss,
}

pub fn vx_only_in<'a>(o: Option<&'a ID>, ptr: ItemPtr) -> (r: VxHit<'a>)
    requires
        ptr.id.clock + ptr.len <= u32::MAX,
    ensures
        r == (if o is Some && covers_id(ptr, *o.unwrap()) { VxHit::Hit(o.unwrap()) } else { VxHit::Miss }),
{
    match o {
        Some(id) => if ptr.contains(id) { VxHit::Hit(id) } else { VxHit::Miss },
        None => VxHit::Miss,
    }
}

/// STAND-IN for the inner iterator `I: Iterator<Item = ItemPtr>`: a ghost sequence of the blocks not handed out yet
pub trait BlockSeqIter {
    spec fn pending(&self) -> Seq<ItemPtr>;

    fn next(&mut self) -> (r: Option<ItemPtr>)
        ensures
            old(self).pending().len() == 0 ==> r is None && final(self).pending() == old(self).pending(),
            old(self).pending().len() > 0 ==> r == Some(old(self).pending()[0]) && final(self).pending() == old(self).pending().skip(1),
    ;
}

pub open spec fn begin_inv(s0: Seq<ItemPtr>, pend: Seq<ItemPtr>, curr: Option<ItemPtr>, start: StickyIndex) -> bool {
    let n = s0.len() as int;
    let m = pend.len() as int;
    &&& m <= n
    &&& pend =~= s0.skip(n - m)
    &&& match curr {
        Some(p) => m < n && p == s0[n - m - 1] && (n - m - 1 > 0 ==> start.id_spec() is Some) && (start.id_spec() is Some ==> n - m - 1 <= find(s0, start.id_spec().unwrap())),
        None => m == 0 && (n > 0 ==> start.id_spec() is Some) && (start.id_spec() is Some ==> n <= find(s0, start.id_spec().unwrap())),
    }
}

pub open spec fn begin_post(s0: Seq<ItemPtr>, state0: RangeIterState, start: StickyIndex, end: StickyIndex, state: RangeIterState, pend: Seq<ItemPtr>, curr: Option<ItemPtr>, offset: u32) -> bool {
    let l = start_landing(s0, start, end);
    &&& state == (if !l.found { state0 } else if l.ended { RangeIterState::Closed } else { RangeIterState::InRange })
    &&& offset == l.off
    &&& curr == (if l.found && !l.ended && l.idx < s0.len() { Some(s0[l.idx]) } else { None })
    &&& pend =~= (if l.ended { s0.skip(l.idx) } else if l.idx < s0.len() { s0.skip(l.idx + 1) } else { Seq::empty() })
}

impl<I: BlockSeqIter> RangeIter<I> {
    pub open spec fn view(&self) -> View {
        View { s: self.iter.pending(), state: self.state, start: self.start, end: self.end }
    }

    /*@extract yrs/src/iter.rs | impl<I> RangeIter<I> where I: Iterator<Item = ItemPtr>, | fn new | label=range_new
    @ret r
    @sig
        ensures
            r.view() == (View { s: iter.pending(), state: RangeIterState::Opened, start: start, end: end }),
    @*/

    /*@extract yrs/src/iter.rs | impl<I> RangeIter<I> where I: Iterator<Item = ItemPtr>, | fn begin | label=range_begin
    @ret r
    @sig
        requires
            items_ok(old(self).iter.pending()),
        ensures
            final(self).start == old(self).start,
            final(self).end == old(self).end,
            begin_post(old(self).iter.pending(), old(self).state, old(self).start, old(self).end, final(self).state, final(self).iter.pending(), r, *final(start_offset)),
    @start
        let ghost s0 = self.iter.pending();
        proof {
            if self.start.id_spec() is Some {
                lemma_find_bounds(s0, self.start.id_spec().unwrap());
            }
        }
    @loop 1
        invariant_except_break
            self.state == old(self).state,
            offset == 0,
            begin_inv(s0, self.iter.pending(), curr, self.start),
        invariant
            s0 == old(self).iter.pending(),
            items_ok(s0),
            self.start == old(self).start,
            self.end == old(self).end,
            self.start.id_spec() is Some ==> {
                let a = self.start.id_spec().unwrap();
                &&& 0 <= find(s0, a) <= s0.len()
                &&& forall|i: int| 0 <= i < find(s0, a) ==> !covers_id(#[trigger] s0[i], a)
                &&& find(s0, a) < s0.len() ==> covers_id(s0[find(s0, a)], a)
            },
        ensures
            begin_post(s0, old(self).state, self.start, self.end, self.state, self.iter.pending(), curr, offset),
        decreases
            self.iter.pending().len() + (if curr is Some { 1int } else { 0int }),
    @*/
    // real: `impl<I> Iterator for RangeIter<I>`, emitted as an inherent method (a trait-method impl cannot carry `requires`)
    /*@extract yrs/src/iter.rs | impl<I> Iterator for RangeIter<I> where I: Iterator<Item = ItemPtr>, | fn next | label=range_next | rules=SUB(from=Option<Self::Item>;;to=Option<ItemSlice>) SUB(from=match self.end.id() {;;to=match vx_only_in(self.end.id(), ptr) {) SUB(from=Some(end) if ptr.contains(end) => {;;to=VxHit::Hit(end) => {)
    @ret r
    @sig
        requires
            items_ok(old(self).iter.pending()),
        ensures
            next_post(old(self).view(), final(self).view(), r),
            // FINDING Q1 (REPAIRED): an exclusive start and an end anchored at the same element -- the range is empty: nothing is
            // yielded, now or later.  (Before the repair: `ItemSlice::new(ptr, off + 1, off)` / `offset -= 1` underflow when the
            // anchor was not the last unit of its block; everything up to the end of the sequence when it was.)
            old(self).state == RangeIterState::Opened && finding_q1_same_anchor_exclusive_start(old(self).start, old(self).end) ==> r is None && rem(final(self).view()).len() == 0,
    @start
        proof {
            let v0 = self.view();
            if v0.state == RangeIterState::Opened && finding_q1_same_anchor_exclusive_start(v0.start, v0.end) {
                lemma_dom_of_order(v0.s, v0.start, v0.end);
                theorem_step(v0);
            }
        }
    @before 1 `stmt:let end_offset`
        proof {
            // the block handed out is one of the pending blocks
            let s0 = old(self).iter.pending();
            if old(self).start.id_spec() is Some {
                lemma_find_bounds(s0, old(self).start.id_spec().unwrap());
            }
            if old(self).state == RangeIterState::Opened {
                assert(ptr == s0[start_landing(s0, old(self).start, old(self).end).idx]);
            } else {
                assert(ptr == s0[0]);
            }
            assert(item_ok(ptr));
        }
    @*/
}

/// STAND-IN for `I: DoubleEndedIterator<Item = ItemPtr>`: the other end of the same ghost sequence
pub trait BlockSeqDeIter: BlockSeqIter {
    fn next_back(&mut self) -> (r: Option<ItemPtr>)
        ensures
            old(self).pending().len() == 0 ==> r is None && final(self).pending() == old(self).pending(),
            old(self).pending().len() > 0 ==> r == Some(old(self).pending().last()) && final(self).pending() == old(self).pending().drop_last(),
    ;
}

pub open spec fn back_inv(s0: Seq<ItemPtr>, pend: Seq<ItemPtr>, curr: Option<ItemPtr>, end: StickyIndex) -> bool {
    let n = s0.len() as int;
    let m = pend.len() as int;
    &&& m <= n
    &&& pend =~= s0.take(m)
    &&& match curr {
        Some(p) => m < n && p == s0[m] && (m < n - 1 ==> end.id_spec() is Some) && (end.id_spec() is Some ==> rfind(s0, end.id_spec().unwrap()) <= m),
        None => m == 0 && (n > 0 ==> end.id_spec() is Some) && (end.id_spec() is Some ==> rfind(s0, end.id_spec().unwrap()) < 0),
    }
}

pub open spec fn back_post(s0: Seq<ItemPtr>, state0: RangeIterState, end: StickyIndex, state: RangeIterState, pend: Seq<ItemPtr>, curr: Option<ItemPtr>, end_offset: u32) -> bool {
    let j = back_entry(s0, end);
    &&& state == (if j >= 0 { RangeIterState::InRange } else { state0 })
    &&& curr == (if j >= 0 { Some(s0[j]) } else { None })
    &&& pend =~= (if j >= 0 { s0.take(j) } else { Seq::empty() })
    &&& j >= 0 ==> end_offset == back_entry_offset(s0[j], end)
}

impl<I: BlockSeqDeIter> RangeIter<I> {
    // OBSERVATION QB (dead code).  The contract is what the code DOES (`next_back_code`), with the weakest precondition of its
    // `ItemSlice::new`; `observation_qb_*` prove that this behaviour is not a correct backward traversal.
    // real: `impl<I> DoubleEndedIterator for RangeIter<I>`, emitted as an inherent method
    /*@extract yrs/src/iter.rs | impl<I> DoubleEndedIterator for RangeIter<I> where I: DoubleEndedIterator<Item = ItemPtr>, | fn next_back | label=range_next_back | rules=SUB(from=Option<Self::Item>;;to=Option<ItemSlice>) SUB(from=match self.start.id() {;;to=match vx_only_in(self.start.id(), ptr) {) SUB(from=Some(start) if ptr.contains(start) => {;;to=VxHit::Hit(start) => {)
    @ret r
    @sig
        requires
            items_ok(old(self).iter.pending()),
            next_back_code_total(old(self).view()),
        ensures
            next_back_code_post(old(self).view(), final(self).view(), r),
    @start
        let ghost s0 = self.iter.pending();
        proof {
            if self.end.id_spec() is Some {
                lemma_rfind_bounds(s0, self.end.id_spec().unwrap());
            }
        }
    @loop 1
        invariant_except_break
            self.state == old(self).state,
            back_inv(s0, self.iter.pending(), curr, self.end),
        invariant
            s0 == old(self).iter.pending(),
            items_ok(s0),
            self.start == old(self).start,
            self.end == old(self).end,
            self.end.id_spec() is Some ==> {
                let e = self.end.id_spec().unwrap();
                &&& -1 <= rfind(s0, e) < s0.len()
                &&& forall|i: int| rfind(s0, e) < i < s0.len() ==> !covers_id(#[trigger] s0[i], e)
                &&& rfind(s0, e) >= 0 ==> covers_id(s0[rfind(s0, e)], e)
            },
        ensures
            back_post(s0, old(self).state, self.end, self.state, self.iter.pending(), curr, end_offset),
        decreases
            self.iter.pending().len() + (if curr is Some { 1int } else { 0int }),
    @before 1 `stmt:let start_offset`
        proof {
            // the block handed out is one of the pending blocks
            if old(self).state == RangeIterState::Opened {
                assert(ptr == s0[back_entry(s0, old(self).end)]);
            } else {
                assert(ptr == s0[s0.len() - 1]);
            }
            assert(item_ok(ptr));
        }
    @*/
}

// ---------------------------------------------------------------------------------------------
// the two boundary-offset computations once more, each lifted on its own (R18 statement regions; same source text), so that an
// edit of one of them fails a contract clause of its own
// ---------------------------------------------------------------------------------------------
// begin: the statements of the arm `Some(start) if ptr.contains(start) => { .. }` in front of its `break;`
/*@extract yrs/src/iter.rs | impl<I> RangeIter<I> where I: Iterator<Item = ItemPtr>, | region begin | stmt=stmt:assign state | stmtnth=2 | upto=stmt:if ~ self.start.assoc | tail=(offset, curr) | label=range_start_offset | rules=SUB(from=self.start.assoc;;to=assoc) SUB(from=self.iter.next();;to=iter.next()) SUB(from=self.state = ;;to=*state = ) SUB(from=self.end.id();;to=end_ix.id())
@header
    fn range_start_offset<I: BlockSeqIter>(iter: &mut I, state: &mut RangeIterState, start: &ID, assoc: Assoc, end_ix: &StickyIndex, ptr: ItemPtr, mut offset: u32, mut curr: Option<ItemPtr>) -> (r: (u32, Option<ItemPtr>))
@sig
    requires
        item_ok(ptr),
        covers_id(ptr, *start),
        curr == Some(ptr),
    ensures
        // the start block opens the range -- or, if the exclusive start is its last unit and it also holds the end anchor, closes it
        *final(state) == (if assoc == Assoc::After && start.clock - ptr.id.clock + 1 == ptr.len && end_ix.id_spec() is Some && covers_id(ptr, end_ix.id_spec().unwrap()) { RangeIterState::Closed } else { RangeIterState::InRange }),
        // inclusive start (Assoc::Before): AT the anchor unit
        assoc == Assoc::Before ==> r.0 == start.clock - ptr.id.clock && r.1 == curr && final(iter).pending() == old(iter).pending(),
        // exclusive start (Assoc::After), anchor not the last unit of its block: directly behind it, in the same block
        assoc == Assoc::After && start.clock - ptr.id.clock + 1 < ptr.len ==> r.0 == start.clock - ptr.id.clock + 1 && r.1 == curr && final(iter).pending() == old(iter).pending(),
        // exclusive start on the LAST unit of its block: offset 0 of the next block -- if there is one, and unless the range ends here
        assoc == Assoc::After && start.clock - ptr.id.clock + 1 == ptr.len ==> r.0 == 0,
        assoc == Assoc::After && start.clock - ptr.id.clock + 1 == ptr.len && end_ix.id_spec() is Some && covers_id(ptr, end_ix.id_spec().unwrap()) ==> r.1 is None && final(iter).pending() == old(iter).pending(),
        assoc == Assoc::After && start.clock - ptr.id.clock + 1 == ptr.len && !(end_ix.id_spec() is Some && covers_id(ptr, end_ix.id_spec().unwrap())) && old(iter).pending().len() > 0 ==> r.1 == Some(old(iter).pending()[0]) && final(iter).pending() == old(iter).pending().skip(1),
        assoc == Assoc::After && start.clock - ptr.id.clock + 1 == ptr.len && !(end_ix.id_spec() is Some && covers_id(ptr, end_ix.id_spec().unwrap())) && old(iter).pending().len() == 0 ==> r.1 is None && final(iter).pending() == old(iter).pending(),
@*/

// next: everything from `let end_offset = ..` on
/*@extract yrs/src/iter.rs | impl<I> Iterator for RangeIter<I> where I: Iterator<Item = ItemPtr>, | region next | stmt=stmt:let end_offset | stmtnth=1 | toend=1 | label=range_end_cut | rules=SUB(from=match self.end.id() {;;to=match vx_only_in(end_ix.id(), ptr) {) SUB(from=Some(end) if ptr.contains(end) => {;;to=VxHit::Hit(end) => {) SUB(from=self.end.assoc;;to=end_ix.assoc) SUB(from=self.state = ;;to=*state = )
@header
    fn range_end_cut(end_ix: &StickyIndex, state: &mut RangeIterState, ptr: ItemPtr, start_offset: u32) -> (r: Option<ItemSlice>)
@sig
    requires
        item_ok(ptr),
        start_offset < ptr.len,
    ensures
        r == cut_slice(ptr, end_cut(ptr, start_offset as int, *end_ix)),
        *final(state) == (if end_cut(ptr, start_offset as int, *end_ix).closes { RangeIterState::Closed } else { *old(state) }),
@*/

// ---------------------------------------------------------------------------------------------
// FINDING Q2 (REPAIRED).  Which boundaries can `Quotable::quote` produce?  It walks to the start index, then on to the end index
// with `remaining = end_index - start_index + remaining;` -- a u32 subtraction.  `quote` takes ANY `RangeBounds<u32>`; before the
// repair an inverted (= empty) range such as `3..=2` or `3..1` panicked here in a debug build, and a release build wrapped
// around and RETURNED a quotation whose end anchor lies IN FRONT of its start anchor (outside `dom`), whose insertion panicked in
// Store::materialize.  Now an end index below the start index is refused with QuoteError::OutOfBounds.  The guard and the
// statement are lifted together (R18 statement region); the only precondition is the one the context establishes (`remaining` is
// what is left of `start_index` after whole blocks have been subtracted).  `Ok(r)` = the statement was reached, r = the new
// `remaining`.
// ---------------------------------------------------------------------------------------------
/// STAND-IN for `weak::QuoteError` (same single variant; the real enum carries thiserror's `#[error(..)]` helper attribute,
/// which does not resolve without the derive)
pub enum QuoteError {
    OutOfBounds,
}

/*@extract yrs/src/types/weak.rs | trait Quotable: AsRef<Branch> + Sized | region quote | stmt=stmt:if ~ OutOfBounds | stmtnth=1 | upto=stmt:assign remaining ~ end_index | tail=Ok(remaining) | label=quote_end_remaining
@header
    fn quote_end_remaining(start_index: u32, end_index: u32, mut remaining: u32) -> (r: Result<u32, QuoteError>)
@sig
    requires
        remaining <= start_index,
    ensures
        // TOTAL on every pair of indexes: an inverted range is an error, never an underflow
        end_index < start_index ==> r is Err && r->Err_0 is OutOfBounds,
        end_index >= start_index ==> r is Ok && r->Ok_0 == end_index - start_index + remaining,
@*/

} // verus!
fn main() {}
