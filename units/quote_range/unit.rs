// unit `quote_range` -- boundary-delimited iteration behind quotations (yrs/src/iter.rs: `RangeIter::{new, begin}`,
// `<RangeIter as Iterator>::next`, `<RangeIter as DoubleEndedIterator>::next_back`; yrs/src/block.rs: `Item::{contains, id, len}`
// (what `ItemPtr::contains(id)` derefs to), `Item::{is_deleted, is_countable, content_len}`; yrs/src/slice.rs: `ItemSlice::new`;
// yrs/src/sticky_index.rs: `StickyIndex::id`; yrs/src/iter.rs `BlockIter::next`; yrs/src/types/weak.rs: the index-to-anchor walk
// of `Quotable::quote` (both loops, PART Q).
// Serves C20 (KERNEL ONLY): "A quotation of a range of a text, array or XML child list ... dereferences at any later time and on
// any replica to exactly the elements currently visible between its two boundary elements (boundaries included or excluded as
// the range was given), including elements inserted inside the range after it was quoted and excluding deleted ones";
// mechanism named by the property: "boundary-delimited iteration -- LinkSource::unquote, iter.rs RangeIter / within_range".
// `LinkSource::unquote` is `BlockIter::new(parent.start).within_range(quote_start, quote_end).values()`: THIS unit is the
// `within_range` stage (which unit ids lie between the two boundary elements, for EVERY block layout -- blocks get split and
// squashed, items are inserted inside the range: the iterator only sees the current sequence of blocks) plus, PART Q, how `quote`
// turns the two indexes into the two boundary elements.  NOT here: `Values`
// (skips deleted items, reads the content of a slice), `LinkSource::{materialize, to_string, to_xml_string}`, that the ids of a collection keep their relative order on every replica (integration).
//
// THE CONVENTION (quoted from /repo):
//   sticky_index.rs, `enum Assoc`:  "After:  The corresponding [StickyIndex] points to space **after** the referenced [ID]."
//                                   "Before: The corresponding [StickyIndex] points to space **before** the referenced [ID]."
//   weak.rs, `Quotable::quote`:     `range.start_bound()`: `Bound::Included(&i) => Some((i, Assoc::Before))`, `Bound::Excluded(&i) =>
//                                   Some((i, Assoc::After))`, `Bound::Unbounded => None` (-> `IndexScope::from_branch(this)`, Assoc::Before);
//                                   `range.end_bound()`: `Included(&i) => (i, Assoc::After)`, `Excluded(&i) => (i, Assoc::Before)`,
//                                   `Unbounded` -> type-scoped, Assoc::After.  Doc: "Inclusive range (eg. `1..=2`) means, that any
//                                   concurrent inserts that happen between indexes 2 and 3 will **not** be part of the quoted range.
//                                   Exclusive range (eg. `1..3`) ... these inserts will be counted as a part of quoted range."
//   sticky_index.rs, `StickyIndex::id`: "Returns `None` if current [StickyIndex] has been created on an empty shared collection (in
//                                   that case there's no block that we can refer to)" -- i.e. Some(id) exactly for `IndexScope::Relative`.
//   Hence, with S = the unit ids of the blocks in document order (block by block, clock by clock):
//     start, Assoc::Before = the gap BEFORE the anchor unit: the range begins AT it (inclusive); Assoc::After = the gap behind it:
//            the range begins with the NEXT unit (exclusive); no anchor id: from the first unit;
//     end,   Assoc::After  = the gap behind the anchor unit: the range ends AT it (inclusive); Assoc::Before: it ends in FRONT of it
//            (exclusive); no anchor id: to the last unit.
//   (`StickyIndex::get_offset`, unit `sticky`, resolves Assoc the other way round -- After = the gap before the anchored unit.
//   `RangeIter` and `quote` follow the doc comments of `Assoc`; noted, not a subject of this unit.)
//
// THE PROPERTY.  `lo(s, start)` / `hi(s, end)`: the positions in S = flat(s) of the first unit of the range / directly behind its
//   last unit (`pos` = position of the anchor, `lemma_pos_index`: S[pos] == anchor; with pairwise disjoint blocks it is the only
//   one, `lemma_pos_unique`);  expected(s, start, end) = S[lo .. hi)  (empty if hi < lo).
//   theorem_quote_range: a RangeIter over the blocks `s` iterated with `next` until it returns None yields slices that are each a
//     NON-EMPTY offset range start ..= end of ONE block of `s` (`slices_ok`), whose concatenation is EXACTLY expected(s, start, end)
//     -- nothing before, nothing behind, in order, no id twice (`lemma_flat_nodup`); hi <= lo gives the EMPTY sequence -- on the
//     WHOLE domain of the property (`prop_dom`): whenever both anchors occur, the end anchor is not in front of the start anchor.
//     (The block-level domain `dom` of the code is larger: the BLOCK of the end anchor is not in front of the block of the
//     start anchor; `lemma_dom_of_order`: prop_dom ==> dom.  OUTSIDE every contract: an end anchor in a block in front of the
//     start block -- `begin` passes that block without looking for the end, the iteration runs to the end of S.  `quote` cannot
//     produce it any more (Q2), only a hand-made link can.)
//   DERIVED, not assumed: a start anchor that does not occur in S  -> nothing is yielded (lo = |S|);
//                         an end anchor that does not occur in S   -> the iteration runs to the END of S (hi = |S|), the same as
//                         for an end without anchor.  (So a quotation whose end element has left the list -- its parent was
//                         deleted and collected -- would dereference to everything behind the start.  Not reachable while the
//                         start element is still there: both live in the same list.)
//
// CONTRACTS (whole functions unless noted; `IterView` = (pending blocks of the inner iterator, state, start, end))
//   Item::contains(id)        == covers_id(self, id): same client, clock in [id.clock, id.clock + len).  requires clock + len <= u32::MAX
//                                (`self.id.clock + self.len()` is an unchecked u32 addition; holds for integrated blocks: A-CLK).
//   Item::{id, len}, ItemSlice::new (requires start <= end: its debug_assert!, R9), StickyIndex::id (== id_spec()), RangeIter::new.
//   RangeIter::begin          total on every sequence of `item_ok` blocks.  With l = start_landing(pending, start, end): not found ->
//                                None, all blocks consumed, state unchanged; found -> state InRange, *start_offset = l.off, returns
//                                block l.idx (None if the exclusive start was the last unit of the last block), pending = the blocks
//                                behind it; `l.ended` (exclusive start on the last unit of a block that also holds the end anchor) ->
//                                state Closed, None, the next block is NOT consumed.
//   RangeIter::next           TOTAL: no precondition besides `item_ok` of the pending blocks (all u32 arithmetic and the
//                                `ItemSlice::new` debug_assert are discharged for every input).
//                                ensures (final view, r) == next_spec(old view): Closed -> None; InRange -> next pending block from
//                                offset 0, cut by `end_cut`; Opened -> landing block from the landing offset, cut by `end_cut`;
//                                end_cut: end anchor in this block -> state Closed and (After) offsets ..= eo, (Before) ..= eo - 1, or None
//                                if that is in front of the slice start; otherwise the whole rest of the block, state InRange.
//                                + the Q1 class (exclusive start, end at the same element) yields nothing, now or later.
//     theorem_step (pure)     on `dom`: r is None <==> nothing is left; r = Some(sl): sl is a non-empty range of one pending block
//                                and  rem(old) == slice_ids(sl) + rem(new)  (rem = the units still to be yielded).
//     lemma_drain / theorem_quote_range: iterating to the end yields exactly expected(s, start, end).
//   range_start_offset / range_end_cut (STEP level, R18 regions): the two boundary-offset computations on their own.
//   quote_end_remaining (R18 region of `Quotable::quote`): the guard + `remaining = end_index - start_index + remaining;`: TOTAL on
//                                every pair of indexes: Err(OutOfBounds) for end_index < start_index, else the new `remaining`.
//   PART Q -- the index-to-anchor walk of `Quotable::quote` (both loops; R18 regions with the variables of `quote` as parameters):
//     BlockIter::next         the real body: returns the cursor, moves it to `.right`; in chain terms: first item / the rest; fused.
//                                `impl BlockSeqIter for BlockIter`: the REAL iterator meets the stand-in contract RangeIter is verified
//                                under.
//     Item::{is_deleted, is_countable, content_len}, ItemFlags::{check, is_deleted, is_countable}: real bodies.
//     quote_start_walk        (`start_index = start_i; .. let start_id = ..;`) total on every chain of `walk_item_ok` items.  PROPERTY,
//                                for EVERY layout: the anchor is THE ELEMENT AT INDEX start_i (`anchors_unit`: the id c[k].id +
//                                clock_off(c[k], r) for (k, r) = end_walk(chain, start_i)), Err(OutOfBounds) iff start_i >= |V| -- as
//                                the doc comment says ("that index still needs to point to existing value").
//     quote_end_walk          (guard, `remaining = ..`, second loop, `let end_id = ..;`) on the chain beginning with `curr`: the anchor
//                                is the element at index end_index - start_index + remaining of that chain, Err(OutOfBounds) iff
//                                there is none or end_index < start_index.
//     quote_start_step / quote_end_step (STEP level): the two loop bodies on their own.
//     theorem_quote_anchors   (pure; the data flow of `quote`) on EVERY layout the start anchor is the element at index s and the END
//                                anchor the element at index e of the whole chain, Err iff s >= |V| resp. e >= |V|.
//                                "The element at index n" = `end_walk`: characterized by `lemma_walk_bounds` (a VISIBLE item k, offset
//                                o < content_len, exactly n visible index units in front: vsum(k) + o == n; None iff n >= |V|).
//     theorem_quote_then_drain (pure; COMPOSITION with theorem_quote_range) quote(s, e) followed by a drained RangeIter over the same
//                                unchanged chain yields exactly ALL clock units of the chain -- visible or not: RangeIter does not
//                                look at tombstones, its consumer `Values` skips them -- from the element at index s to the element at
//                                index e (exclusive bounds: behind / in front of it); the VISIBLE ones among them are exactly
//                                V[s ..= e] (`vpart`, `lemma_vpart`).  For index units that are clock units (`unit_is_clock`: every
//                                UTF-16 document, non-string content in any document); for EVERY layout of the chain.
//     NOT ingested (described, not verified): the mapping of `RangeBounds` to (index, Assoc) (std `Bound`), the unbounded arms
//                                (`curr = i.next()` + the branch-scoped StickyIndex: id() == None, so from the first / to the last
//                                item), `LinkSource::new`, `WeakPrelim::with_source`.
//   RangeIter::next_back      OBSERVATION QB, dead code.  Under contract against what the code DOES (`next_back_code`, requires the
//                                weakest precondition of its `ItemSlice::new`).  What it SHOULD do: `next_back_ok(old view, new view,
//                                r)` -- None iff nothing is left, else a non-empty slice of one pending block holding the LAST units
//                                still to be yielded (rem_back(old) == rem_back(new) + slice_ids(sl)); `lemma_drain_back`: all calls
//                                together yield exactly expected(..); `example_next_back_single_block`: satisfiable.
//                                `observation_qb_*` PROVE that `next_back_code` violates `next_back_ok`.
//   MIXED USE of next / next_back is OUTSIDE every contract: the iterator has ONE `state` for both ends.  After a `next` has
//     entered the range (InRange) a `next_back` no longer looks for the end boundary (it takes the last pending block whole), and
//     once either end reaches the other boundary's block, Closed stops BOTH ends although units between them may not have been
//     yielded.  Only traversals that use one of the two methods exclusively are specified.
//
// FINDINGS (reproducer through the public API, feature `weak`: units/quote_range/repro/main.rs; observed on debug AND release
//   builds of the tree before the repairs; the repairs are units/quote_range/repair.diff (Q1, Q2) and repair_q3.diff (Q3); this
//   unit verifies the REPAIRED code and has no open obligation)
//   Q1  REPAIRED (was: next reached `ItemSlice::new` with start > end / `offset -= 1` at 0 / ran to the end of the list).  An
//       EXCLUSIVE start and an end anchored at the SAME element: `array.quote(&txn, (Bound::Excluded(i), Bound::Included(i)))` or
//       `(Excluded(i), Excluded(i))` (empty ranges; `quote` returns Ok: start = (id_i, After), end = (id_i, After | Before)).
//       Expected: dereferences to nothing.  Observed before the repair:
//         layout [0,1,2,3,4,5] = ONE block, i = 1 (not the last unit of its block): `begin` -> start_offset 2; end offset 1 ->
//           `ItemSlice::new(ptr, 2, 1)`: debug `assertion failed: start <= end` (slice.rs:108); release: the inverted slice reaches
//           Store::materialize when the link is inserted -> panic `Option::unwrap() on None` (store.rs:365) / `mid > len`;
//           with end Before and i = 0: `offset -= 1` underflows (iter.rs:183);
//         layout [0,1] [2,3] [4,5] = THREE blocks, i = 1 (the LAST unit of its block): `begin` moves to the next block, the end block
//           is never seen again: unquote yields 2,3,4,5 -- everything up to the end of the array.
//       Repair: `begin` closes the iterator when the block it leaves holds the end anchor; `next` returns None for an end cut at or
//       in front of the slice start (`offset <= start_offset` for Before, `offset < start_offset` for After).  Obligations: the Q1
//       clause of range_next::post, range_next / range_end_cut ::{overflow, pre}, range_start_offset::post.
//   Q2  REPAIRED (in `Quotable::quote`, the producer of the boundaries; obligation quote_end_remaining::{overflow, post}).
//       `remaining = end_index - start_index + remaining;` on an inverted (= empty) range: `array.quote(&txn, 3..=2)` / `3..1`.
//       Before the repair: debug: panic `attempt to subtract with overflow` (weak.rs:748); release: wraps and RETURNS a quotation whose
//       end anchor is IN FRONT of its start anchor (outside `dom`: `next` ran to the end of the list or built an inverted slice),
//       inserting it panicked in Store::materialize.  Repair: `if end_index < start_index { return Err(QuoteError::OutOfBounds); }`.
//   Q3  REPAIRED (in `Quotable::quote`, first walk; obligations quote_start_walk::post, quote_start_step::post).  The first loop
//       used to leave with `if remaining == 0 { break; }` BEFORE it looked at the item (the second loop has no such test): when the
//       start index was used up exactly at an item boundary (or was 0), the start anchor was the NEXT item whatever it was -- a
//       tombstone or non-countable item standing in front of the element at the index (or behind the last element).  Reproduced
//       before the repair (kept in the reproducer as a record):
//         [a, (X), b, c] (X removed), `quote((Excluded(1), Included(2)))`: unquote = b, c -- expected c (the exclusive start sat
//           behind the TOMBSTONE, i.e. AT b);  [(X), a, b, c], `(Excluded(0), Included(2))`: a, b, c -- expected b, c;
//         inclusive start: [a, X, b, c]; replica 2 inserts Y behind X; replica 1 removes X and quotes 1..=2 (= b, c); after the
//           exchange the array is a, Y, b, c and the quotation dereferenced to Y, b, c (same edits without the tombstone: b, c);
//         `[a, b, (X)].quote(2..)` was Ok(empty), `[a, b].quote(2..)` Err(OutOfBounds).
//       Repair: the early exit is gone, the first loop is the second one.
//   Q4  OBSERVATION / DOCUMENTED ASSUMPTION (outside the walk: `SplittableString::block_offset`, abstract here; the counterpart of
//       known finding K3 for sticky indexes).  In a document with OffsetKind::Bytes an
//       index INSIDE a multi-byte character underflows `remaining -= c.len_utf8() as u32` (block.rs:1629: debug panic; release:
//       wraps, the loop runs to the end of the string and returns its whole UTF-16 length -- an anchor behind the block, so
//       assumption A-BO below does NOT hold for such an index).  text "a\u{e9}b" (len 4): `quote(1..=2)` panics.
//   QB  OBSERVATION, DEAD CODE (no caller in the crate; `RangeIter` is pub(crate); and `BlockIter::next_back` walks LEFT from the
//       same cursor, it is no double-ended iterator).  `next_back` is not the mirror image of `next`: (1) Opened, end without
//       anchor: `end_offset = ptr.len()` -- one past the last unit (inclusive `end`) [observation_qb_end_one_past_the_block: one
//       block of 2 units, no anchors: yields (ptr, 0, 2), i.e. the unit id clock + 2 that is not in the block]; (2) InRange:
//       `end_offset` keeps its initial 0 -- every further block contributes its FIRST unit only [observation_qb_inner_blocks_lose_
//       units], and in the start block `ItemSlice::new(ptr, start_offset, 0)` is inverted; (3) `end.assoc` is ignored (an exclusive
//       end is yielded); (4) `start.assoc` is ignored (an exclusive start is yielded).  Not reachable through the public API.
//   OBSERVATIONS outside this unit (not claimed; O3 is in the reproducer and NOT touched by repair.diff):
//     O3  `LinkSource::materialize` starts its RangeIter at `quote_start.get_item()`, which for an exclusive start on the LAST unit
//         of a block is the NEXT block: the sequence handed to `within_range` does not contain the start anchor, so -- by the
//         derived rule above -- NOTHING is yielded and no item is marked as linked.  `unquote` (which iterates from `parent.start`)
//         is right, but the link never fires an event: blocks [0,1] [2,3] [4,5], `quote((Excluded(1), Included(4)))`, two edits
//         inside the range: 0 events (2 events for the same range spelled `2..=4`).
//     O4  `WeakPrelim<TextRef>::get_string` on a quotation that has not been inserted yet returns whole blocks ("abcdef" for
//         `text.quote(&txn, 1..=3)`): `LinkSource::to_string` does not use RangeIter, it compares the boundaries with block ends
//         only, which coincide once `materialize` has split the blocks.
//
// ------------------------------------------------------------------------------------------------------------------
// LOWERING AND STAND-IN TYPES (everything not listed is extracted verbatim from /repo on every run)
//   I: Iterator<Item = ItemPtr>   STAND-IN trait `BlockSeqIter`: ghost `pending()` = the blocks not handed out yet, in document order;
//                `next` returns pending[0] and leaves pending.skip(1); on an empty sequence None, nothing changes (a FUSED iterator;
//                `BlockIter`, the only instantiation in the crate, is: it holds `Option<ItemPtr>`).  `BlockSeqDeIter::next_back`: the
//                other end of the same sequence.  The impl headers `impl<I> .. where I: Iterator<Item = ItemPtr>` are template text
//                (`impl<I: BlockSeqIter> RangeIter<I>`); the `Iterator::next` / `DoubleEndedIterator::next_back` impls are emitted as
//                inherent methods (a trait-method impl cannot carry `requires`); `Self::Item` is spelled `ItemSlice` (SUB, logged).
//   ItemPtr      real: `struct ItemPtr(NonNull<Item>)` with Deref.  here: `&'static Item` (read-only lowering R15).  ASSUMPTION A5: the
//                pointees are alive and not mutated during the life of the iterator.
//   Item         sliced to `id`, `len`, `right`, `info`, `content`.  DROPPED: left, origin, right_origin, parent, redone, parent_sub.
//                The chain `this.start.to_iter()` is the finite list reachable through `.right` (view `chain`; A5: finite and not
//                mutated during the walk -- an immutable value of this type IS a finite chain).  `curr.as_deref()` is the identity
//                on the lowered pointer (SUB, logged).  `BlockIter` (struct + `Iterator::next`) is REAL.
//   ItemContent  ABSTRACTION `enum ItemContent { String(SplittableString), Other(u32) }`: `len(kind)` (stand-in body) is the string's
//                length in `kind` units resp. the element count (the real `ItemContent::len`: the same for both kinds unless the
//                content is a string).  `SplittableString` is represented by its two lengths and the TABLE of
//                `block_offset(_, Bytes)`: `block_offset(offset, kind)` (stand-in body) is `offset` for Utf16 (the REAL first arm),
//                0 for 0 and otherwise the table entry -- an ARBITRARY function of the offset -- for Bytes.
//   ASSUMPTIONS of PART Q (`walk_item_ok`): A-CLK; `len` is the UTF-16 length of the content (`Item::new`); a visible item has at
//                least one index unit; A-BO: for an index offset r inside the item, 0 <= clock_off(r) < len -- DERIVED for UTF-16
//                documents and non-string content (`lemma_walk_item_ok`), ASSUMED of `block_offset` for strings in Bytes
//                documents (it fails for an index inside a multi-byte character: OBSERVATION Q4).  The anchor of an element in a
//                Bytes document is stated as `clock + block_offset(r)`, whatever that function is.
//   ClientID     opaque, equality only.   Str: opaque, stands for `Arc<str>` in `IndexScope::Root` (never inspected).
//   ASSUMPTION A-CLK (`item_ok`): every block has len >= 1 (`Item::new` refuses empty content) and id.clock + len <= u32::MAX (the
//                client's next clock is a u32).  `disjoint`: no unit id in two blocks (block store invariant); used only by the
//                "exactly once" statements, NOT by the contracts of begin / next / next_back.
//   Field visibility (`pub` added to the fields of RangeIter / StickyIndex, `pub enum RangeIterState`): SUB, logged.
//   REWRITE of a construct Verus mishandles (same meaning, logged, `next` and `next_back`): see `vx_only_in` below.
//   OffsetKind, ItemFlags, ITEM_FLAG_DELETED / _COUNTABLE: real declarations.
//   QuoteError   STAND-IN enum with the real single variant `OutOfBounds` (the real one carries a thiserror helper attribute).
// TRUSTED: nothing of its own.  `vx_unreachable` (vx/prelude.rs) is included but unused.  No assume / admit / external_body.
// ------------------------------------------------------------------------------------------------------------------
#![allow(unused_imports, unused_variables, unused_mut, dead_code, unused_parens, unused_braces, unused_assignments)]
use vstd::prelude::*;

verus! {

/*@rules R9 R10
   SUB(from=Arc<str>;;to=Str)
@*/

pub mod vx_base {
    use vstd::prelude::*;
    use core::ops::Range;
/*@include vx/prelude.rs @*/
}
use vx_base::vx_unreachable;

// ---------------------------------------------------------------------------------------------
// stand-ins and real declarations
// ---------------------------------------------------------------------------------------------
#[derive(PartialEq, Eq, Structural, Clone, Copy)]
pub struct Str(pub u64);

#[derive(PartialEq, Eq, Structural, Clone, Copy)]
pub struct ClientID(pub u64);

#[derive(Copy, Clone, PartialEq, Eq, Structural)]
/*@extract yrs/src/block.rs | - | struct ID @*/

#[derive(Copy, Clone, PartialEq, Eq, Structural)]
/*@extract yrs/src/sticky_index.rs | - | enum Assoc @*/

/*@extract yrs/src/sticky_index.rs | - | enum IndexScope @*/

/*@extract yrs/src/sticky_index.rs | - | struct StickyIndex | rules=SUB(from=scope: IndexScope;;to=pub scope: IndexScope) @*/

/*@extract yrs/src/block.rs | - | const ITEM_FLAG_DELETED @*/
/*@extract yrs/src/block.rs | - | const ITEM_FLAG_COUNTABLE @*/

#[derive(Copy, Clone, PartialEq, Eq, Structural)]
/*@extract yrs/src/block.rs | - | struct ItemFlags | rules=SUB(from=ItemFlags(u16);;to=ItemFlags(pub u16)) @*/

#[derive(Copy, Clone, PartialEq, Eq, Structural)]
/*@extract yrs/src/doc.rs | - | enum OffsetKind @*/

/// ABSTRACTION of `SplittableString` (see the table at the top): its two lengths and the TABLE of `block_offset(_, Bytes)`
pub struct SplittableString {
    pub vx_utf16_len: u32,
    pub vx_bytes_len: u32,
    pub vx_offsets: Vec<u32>,
}

impl SplittableString {
    pub open spec fn len_spec(&self, kind: OffsetKind) -> u32 {
        match kind {
            OffsetKind::Bytes => self.vx_bytes_len,
            OffsetKind::Utf16 => self.vx_utf16_len,
        }
    }

    /// `SplittableString::block_offset`: "given an `offset` provided in given `encoding` we want the output as a UTF-16
    /// compatible offset".  Utf16: the offset itself (the REAL first arm); Bytes: 0 for 0 (the real loop leaves at once), else
    /// the table entry -- an ARBITRARY function of the offset
    pub open spec fn block_offset_spec(&self, offset: u32, kind: OffsetKind) -> u32 {
        match kind {
            OffsetKind::Utf16 => offset,
            OffsetKind::Bytes => if offset == 0 { 0 } else if (offset as int) < self.vx_offsets@.len() { self.vx_offsets@[offset as int] } else { self.vx_utf16_len },
        }
    }

    /// STAND-IN body (the real one walks the characters of the string)
    pub fn block_offset(&self, offset: u32, kind: OffsetKind) -> (r: u32)
        ensures r == self.block_offset_spec(offset, kind),
    {
        match kind {
            OffsetKind::Utf16 => offset,
            OffsetKind::Bytes => if offset == 0 { 0 } else if (offset as usize) < self.vx_offsets.len() { self.vx_offsets[offset as usize] } else { self.vx_utf16_len },
        }
    }

    /// STAND-IN body of `SplittableString::len`
    pub fn len(&self, kind: OffsetKind) -> (r: u32)
        ensures r == self.len_spec(kind),
    {
        match kind {
            OffsetKind::Bytes => self.vx_bytes_len,
            OffsetKind::Utf16 => self.vx_utf16_len,
        }
    }
}

/// ABSTRACTION of `ItemContent`: a string, or any other content with its element count (`ItemContent::len`: the same number
/// for both offset kinds unless the content is a string)
pub enum ItemContent {
    String(SplittableString),
    Other(u32),
}

impl ItemContent {
    pub open spec fn len_spec(&self, kind: OffsetKind) -> u32 {
        match self {
            ItemContent::String(s) => s.len_spec(kind),
            ItemContent::Other(n) => *n,
        }
    }

    /// STAND-IN body of `ItemContent::len`
    pub fn len(&self, kind: OffsetKind) -> (r: u32)
        ensures r == self.len_spec(kind),
    {
        match self {
            ItemContent::String(s) => s.len(kind),
            ItemContent::Other(n) => *n,
        }
    }
}

/// sliced + lowered, see the table at the top
pub struct Item {
    pub id: ID,
    pub len: u32,
    pub right: Option<&'static Item>,
    pub info: ItemFlags,
    pub content: ItemContent,
}

pub type ItemPtr = &'static Item;

/*@extract yrs/src/iter.rs | - | struct BlockIter | rules=SUB(from=BlockIter(Option<ItemPtr>);;to=BlockIter(pub Option<ItemPtr>)) @*/

/*@extract yrs/src/slice.rs | - | struct ItemSlice @*/

#[derive(Copy, Clone, PartialEq, Eq, Structural)]
/*@extract yrs/src/iter.rs | - | enum RangeIterState | rules=SUB(from=enum RangeIterState;;to=pub enum RangeIterState) @*/

/*@extract yrs/src/iter.rs | - | struct RangeIter | rules=SUB(from=iter: I,;;to=pub iter: I,) SUB(from=start: StickyIndex,;;to=pub start: StickyIndex,) SUB(from=end: StickyIndex,;;to=pub end: StickyIndex,) SUB(from=state: RangeIterState,;;to=pub state: RangeIterState,) @*/

// ---------------------------------------------------------------------------------------------
// specification, part 1: blocks, unit ids, boundaries
// ---------------------------------------------------------------------------------------------
/// the block `p` holds the unit `id`: same client, clock in [p.id.clock, p.id.clock + p.len)
pub open spec fn covers_id(p: &Item, id: ID) -> bool {
    p.id.client == id.client && p.id.clock <= id.clock < p.id.clock + p.len
}

/// an integrated block: at least one unit, and its clock range fits u32 (the client's next clock `id.clock + len` is a u32)
pub open spec fn item_ok(p: &Item) -> bool {
    1 <= p.len && p.id.clock + p.len <= u32::MAX
}

pub open spec fn items_ok(s: Seq<ItemPtr>) -> bool {
    forall|i: int| 0 <= i < s.len() ==> item_ok(#[trigger] s[i])
}

/// no unit id lies in two blocks of the sequence
pub open spec fn disjoint(s: Seq<ItemPtr>) -> bool {
    forall|i: int, j: int, id: ID| 0 <= i < j < s.len() && #[trigger] covers_id(s[i], id) ==> !#[trigger] covers_id(s[j], id)
}

/// the unit ids at offsets a ..= b of block `p`
pub open spec fn ids_of(p: &Item, a: int, b: int) -> Seq<ID> {
    Seq::new((if b + 1 >= a { b + 1 - a } else { 0 }) as nat, |k: int| ID { client: p.id.client, clock: (p.id.clock + a + k) as u32 })
}

/// all unit ids of a block
pub open spec fn block_ids(p: &Item) -> Seq<ID> {
    ids_of(p, 0, p.len - 1)
}

/// the unit ids a slice stands for: offsets start ..= end of ONE item
pub open spec fn slice_ids(sl: ItemSlice) -> Seq<ID> {
    ids_of(sl.ptr, sl.start as int, sl.end as int)
}

/// S: the unit ids of a sequence of blocks, block by block, clock by clock
pub open spec fn flat(s: Seq<ItemPtr>) -> Seq<ID>
    decreases s.len(),
{
    if s.len() == 0 {
        Seq::empty()
    } else {
        block_ids(s[0]) + flat(s.skip(1))
    }
}

/// |S|
pub open spec fn total(s: Seq<ItemPtr>) -> int
    decreases s.len(),
{
    if s.len() == 0 {
        0
    } else {
        s[0].len + total(s.skip(1))
    }
}

/// index of the first block that holds `id`; `s.len()` if there is none
pub open spec fn find(s: Seq<ItemPtr>, id: ID) -> int
    decreases s.len(),
{
    if s.len() == 0 {
        0
    } else if covers_id(s[0], id) {
        0
    } else {
        1 + find(s.skip(1), id)
    }
}

/// `id` occurs in S
pub open spec fn occurs(s: Seq<ItemPtr>, id: ID) -> bool {
    find(s, id) < s.len()
}

/// position of (the first occurrence of) `id` in S; |S| if it does not occur
pub open spec fn pos(s: Seq<ItemPtr>, id: ID) -> int
    decreases s.len(),
{
    if s.len() == 0 {
        0
    } else if covers_id(s[0], id) {
        id.clock - s[0].id.clock
    } else {
        s[0].len + pos(s.skip(1), id)
    }
}

impl StickyIndex {
    /// `StickyIndex::id()`: the anchor element of a block-relative sticky index, None for a type-scoped one
    pub open spec fn id_spec(&self) -> Option<ID> {
        match self.scope {
            IndexScope::Relative(id) => Some(id),
            _ => None,
        }
    }
}

/// THE CONVENTION (see the header): position in S of the first unit of the range.
/// no anchor = from the first unit; Assoc::Before = AT the anchor unit (inclusive); Assoc::After = directly after it (exclusive);
/// an anchor that does not occur: |S| (nothing is in the range)
pub open spec fn lo(s: Seq<ItemPtr>, start: StickyIndex) -> int {
    match start.id_spec() {
        None => 0,
        Some(a) => if !occurs(s, a) { total(s) } else if start.assoc == Assoc::After { pos(s, a) + 1 } else { pos(s, a) },
    }
}

/// position in S directly behind the last unit of the range.
/// no anchor = behind the last unit; Assoc::After = behind the anchor unit (inclusive); Assoc::Before = AT the anchor unit
/// (exclusive); an anchor that does not occur: |S| (DERIVED from the code: the iteration runs to the end)
pub open spec fn hi(s: Seq<ItemPtr>, end: StickyIndex) -> int {
    match end.id_spec() {
        None => total(s),
        Some(e) => if !occurs(s, e) { total(s) } else if end.assoc == Assoc::After { pos(s, e) + 1 } else { pos(s, e) },
    }
}

/// THE PROPERTY: the units between the two boundaries
pub open spec fn expected(s: Seq<ItemPtr>, start: StickyIndex, end: StickyIndex) -> Seq<ID> {
    if lo(s, start) <= hi(s, end) {
        flat(s).subrange(lo(s, start), hi(s, end))
    } else {
        Seq::empty()
    }
}

/// DOMAIN of the forward traversal (block level): if both anchors occur, the block of the end anchor is not in front of the block
/// of the start anchor.  It contains the WHOLE domain of the property -- the end anchor occurs at or behind the start anchor,
/// pos(start) <= pos(end): `lemma_dom_of_order` -- and every layout with both anchors in the same block, in any order.
pub open spec fn dom(s: Seq<ItemPtr>, start: StickyIndex, end: StickyIndex) -> bool {
    start.id_spec() is Some && end.id_spec() is Some && occurs(s, start.id_spec().unwrap()) && occurs(s, end.id_spec().unwrap())
        ==> find(s, start.id_spec().unwrap()) <= find(s, end.id_spec().unwrap())
}

/// THE DOMAIN OF THE PROPERTY: if both anchors occur in S, the end anchor is not in front of the start anchor
pub open spec fn prop_dom(s: Seq<ItemPtr>, start: StickyIndex, end: StickyIndex) -> bool {
    start.id_spec() is Some && end.id_spec() is Some && occurs(s, start.id_spec().unwrap()) && occurs(s, end.id_spec().unwrap())
        ==> pos(s, start.id_spec().unwrap()) <= pos(s, end.id_spec().unwrap())
}

/// FINDING Q1 (REPAIRED), input class: an exclusive start and an end anchored at the SAME element (the empty ranges
/// `(Excluded(i), Included(i))` and `(Excluded(i), Excluded(i))` of `Quotable::quote`)
pub open spec fn finding_q1_same_anchor_exclusive_start(start: StickyIndex, end: StickyIndex) -> bool {
    start.id_spec() is Some && end.id_spec() == start.id_spec() && start.assoc == Assoc::After
}

// ---------------------------------------------------------------------------------------------
// specification, part 2: the iterator, block level
// ---------------------------------------------------------------------------------------------
/// ghost view of a `RangeIter`: the blocks the inner iterator has not handed out yet (document order) + the three fields
pub struct IterView {
    pub s: Seq<ItemPtr>,
    pub state: RangeIterState,
    pub start: StickyIndex,
    pub end: StickyIndex,
}

/// where the range begins: block index into the pending sequence (`s.len()` = behind the last block) and offset inside it
/// `ended`: the exclusive start was the last unit of its block AND that block also holds the end anchor -- the range is empty
pub struct Landing {
    pub found: bool,
    pub ended: bool,
    pub idx: int,
    pub off: int,
}

pub open spec fn start_landing(s: Seq<ItemPtr>, start: StickyIndex, end: StickyIndex) -> Landing {
    match start.id_spec() {
        None => Landing { found: s.len() > 0, ended: false, idx: 0, off: 0 },
        Some(a) => {
            let i = find(s, a);
            if i >= s.len() {
                Landing { found: false, ended: false, idx: s.len() as int, off: 0 }
            } else {
                let off = a.clock - s[i].id.clock;
                if start.assoc == Assoc::After {
                    if off + 1 == s[i].len {
                        // the range begins with the next block -- unless it ends in the block that is left
                        Landing { found: true, ended: end.id_spec() is Some && covers_id(s[i], end.id_spec().unwrap()), idx: i + 1, off: 0 }
                    } else {
                        Landing { found: true, ended: false, idx: i, off: off + 1 }
                    }
                } else {
                    Landing { found: true, ended: false, idx: i, off: off }
                }
            }
        },
    }
}

/// what the end boundary leaves of block `p` from offset `so` on: `closes` = p is the end block; `out` = offsets (first, last)
/// of the slice, None = nothing of this block is in the range
pub struct Cut {
    pub closes: bool,
    pub out: Option<(int, int)>,
}

pub open spec fn end_cut(p: &Item, so: int, end: StickyIndex) -> Cut {
    if end.id_spec() is Some && covers_id(p, end.id_spec().unwrap()) {
        let eo = end.id_spec().unwrap().clock - p.id.clock;
        if end.assoc == Assoc::Before {
            if eo <= so {
                Cut { closes: true, out: None }
            } else {
                Cut { closes: true, out: Some((so, eo - 1)) }
            }
        } else {
            if eo < so {
                Cut { closes: true, out: None }
            } else {
                Cut { closes: true, out: Some((so, eo)) }
            }
        }
    } else {
        Cut { closes: false, out: Some((so, p.len - 1)) }
    }
}

pub open spec fn cut_slice(p: ItemPtr, c: Cut) -> Option<ItemSlice> {
    match c.out {
        Some((a, b)) => Some(ItemSlice { ptr: p, start: a as u32, end: b as u32 }),
        None => None,
    }
}

pub open spec fn cut_ids(p: &Item, c: Cut) -> Seq<ID> {
    match c.out {
        Some((a, b)) => ids_of(p, a, b),
        None => Seq::empty(),
    }
}

pub open spec fn step(v: IterView, p: ItemPtr, so: int, rest: Seq<ItemPtr>) -> (IterView, Option<ItemSlice>) {
    let c = end_cut(p, so, v.end);
    (IterView { s: rest, state: if c.closes { RangeIterState::Closed } else { RangeIterState::InRange }, start: v.start, end: v.end }, cut_slice(p, c))
}

/// PER-CALL CONTRACT of `<RangeIter as Iterator>::next`: the new state / remaining inner sequence and the slice returned
pub open spec fn next_spec(v: IterView) -> (IterView, Option<ItemSlice>) {
    match v.state {
        RangeIterState::Closed => (v, None),
        RangeIterState::InRange => if v.s.len() == 0 { (v, None) } else { step(v, v.s[0], 0, v.s.skip(1)) },
        RangeIterState::Opened => {
            let l = start_landing(v.s, v.start, v.end);
            if !l.found {
                (IterView { s: Seq::empty(), state: v.state, start: v.start, end: v.end }, None)
            } else if l.ended {
                (IterView { s: v.s.skip(l.idx), state: RangeIterState::Closed, start: v.start, end: v.end }, None)
            } else if l.idx >= v.s.len() {
                (IterView { s: Seq::empty(), state: RangeIterState::InRange, start: v.start, end: v.end }, None)
            } else {
                step(v, v.s[l.idx], l.off, v.s.skip(l.idx + 1))
            }
        },
    }
}

// TOTALITY: `next` has NO precondition besides `item_ok` of the pending blocks.  `start.clock - ptr.id().clock` and
// `end.clock - ptr.id().clock` are guarded by `contains`; `offset += 1` is bounded by the block length; `ptr.len() - 1` needs
// len >= 1; `offset -= 1` is guarded by `offset > start_offset >= 0`; `ItemSlice::new(ptr, start_offset, end_offset)` is reached
// with start_offset <= end_offset only (an end cut in front of the slice start returns None).

/// the units still to be yielded
pub open spec fn rem(v: IterView) -> Seq<ID> {
    match v.state {
        RangeIterState::Closed => Seq::empty(),
        RangeIterState::InRange => flat(v.s).subrange(0, hi(v.s, v.end)),
        RangeIterState::Opened => expected(v.s, v.start, v.end),
    }
}

/// `(w, r) == next_spec(v)`, with the sequence component compared extensionally
pub open spec fn next_post(v: IterView, w: IterView, r: Option<ItemSlice>) -> bool {
    &&& w.s =~= next_spec(v).0.s
    &&& w.state == next_spec(v).0.state
    &&& w.start == next_spec(v).0.start
    &&& w.end == next_spec(v).0.end
    &&& r == next_spec(v).1
}

pub open spec fn view_dom(v: IterView) -> bool {
    v.state == RangeIterState::Opened ==> dom(v.s, v.start, v.end)
}

// ---------------------------------------------------------------------------------------------
// specification, part 3: the iterator from the other end (`next_back`).  No block-level mirror of the code is given (the code
// on the pinned tree is not a mirror image of `next`, see FINDING QB); the per-call contract is stated directly over the units
// still to be yielded, so that every correct implementation satisfies it.
// ---------------------------------------------------------------------------------------------
/// the units still to be yielded by a traversal that uses `next_back` only: `s` = the blocks the inner iterator has not handed
/// out yet (its BACK end is consumed)
pub open spec fn rem_back(v: IterView) -> Seq<ID> {
    match v.state {
        RangeIterState::Closed => Seq::empty(),
        RangeIterState::InRange => if lo(v.s, v.start) <= total(v.s) { flat(v.s).subrange(lo(v.s, v.start), total(v.s)) } else { Seq::empty() },
        RangeIterState::Opened => expected(v.s, v.start, v.end),
    }
}

/// DOMAIN of the backward traversal: both anchors are absent or occur (a traversal from the back cannot know that an anchor will
/// never show up before it has handed out blocks), and the end anchor is not in front of the start anchor
pub open spec fn dom_back(v: IterView) -> bool {
    v.state == RangeIterState::Opened ==> {
        &&& v.start.id_spec() is Some ==> occurs(v.s, v.start.id_spec().unwrap())
        &&& v.end.id_spec() is Some ==> occurs(v.s, v.end.id_spec().unwrap())
        &&& v.start.id_spec() is Some && v.end.id_spec() is Some ==> pos(v.s, v.start.id_spec().unwrap()) <= pos(v.s, v.end.id_spec().unwrap())
    }
}

/// PER-CALL CONTRACT of `<RangeIter as DoubleEndedIterator>::next_back`: None exactly when nothing is left; otherwise a
/// NON-EMPTY slice of ONE pending block holding the LAST units still to be yielded; what is pending afterwards is a prefix of
/// what was pending
pub open spec fn next_back_ok(v: IterView, w: IterView, r: Option<ItemSlice>) -> bool {
    &&& w.start == v.start && w.end == v.end
    &&& w.s.is_prefix_of(v.s)
    &&& match r {
        None => rem_back(v).len() == 0 && rem_back(w).len() == 0,
        Some(sl) => v.s.contains(sl.ptr) && sl.start <= sl.end < sl.ptr.len && rem_back(v) == rem_back(w) + slice_ids(sl),
    }
}

/// the units of a run of slices yielded from the back, in DOCUMENT order (the slice yielded first comes last)
pub open spec fn concat_back(outs: Seq<ItemSlice>) -> Seq<ID>
    decreases outs.len(),
{
    if outs.len() == 0 {
        Seq::empty()
    } else {
        concat_back(outs.skip(1)) + slice_ids(outs[0])
    }
}

/// `vs[i]` is the iterator before the i-th call of `next_back`, `outs[i]` the slice that call returns; `vs.last()` is the
/// iterator after the call that returned None
pub open spec fn is_trace_back(vs: Seq<IterView>, outs: Seq<ItemSlice>) -> bool {
    &&& vs.len() == outs.len() + 2
    &&& forall|i: int| 0 <= i < outs.len() ==> next_back_ok(#[trigger] vs[i], vs[i + 1], Some(outs[i]))
    &&& next_back_ok(vs[outs.len() as int], vs[outs.len() as int + 1], None)
}

/// DRAIN LEMMA, from the back: all the calls together yield exactly the units still to be yielded at the beginning
pub proof fn lemma_drain_back(vs: Seq<IterView>, outs: Seq<ItemSlice>)
    requires
        is_trace_back(vs, outs),
    ensures
        concat_back(outs) == rem_back(vs[0]),
    decreases outs.len(),
{
    if outs.len() == 0 {
        assert(rem_back(vs[0]) =~= Seq::<ID>::empty());
    } else {
        let vt = vs.skip(1);
        let ot = outs.skip(1);
        assert(next_back_ok(vs[0], vs[1], Some(outs[0])));
        assert(vt[0] == vs[1]);
        assert forall|i: int| 0 <= i < ot.len() implies next_back_ok(#[trigger] vt[i], vt[i + 1], Some(ot[i])) by {
            assert(vt[i] == vs[i + 1]);
            assert(vt[i + 1] == vs[i + 2]);
            assert(ot[i] == outs[i + 1]);
            assert(next_back_ok(vs[i + 1], vs[i + 2], Some(outs[i + 1])));
        }
        assert(vt[ot.len() as int] == vs[outs.len() as int]);
        assert(vt[ot.len() as int + 1] == vs[outs.len() as int + 1]);
        lemma_drain_back(vt, ot);
    }
}

// ---- OBSERVATION QB: what `next_back` on the pinned tree DOES compute (dead code: no caller in the crate).  It is under contract
// against THIS description (so the disagreement below is about real code), and `observation_qb_*` prove that the description
// violates the per-call contract `next_back_ok` above: `next_back` is not the mirror image of `next`.
/// index of the last block that holds `id`; -1 if there is none
pub open spec fn rfind(s: Seq<ItemPtr>, id: ID) -> int
    decreases s.len(),
{
    if s.len() == 0 {
        -1
    } else if covers_id(s.last(), id) {
        s.len() - 1
    } else {
        rfind(s.drop_last(), id)
    }
}

/// the block at which the code enters the range from the back: the last block if the end has no anchor, else the last block
/// holding the end anchor; -1: none
pub open spec fn back_entry(s: Seq<ItemPtr>, end: StickyIndex) -> int {
    match end.id_spec() {
        None => s.len() - 1,
        Some(e) => rfind(s, e),
    }
}

/// the `end_offset` the code computes for the entry block `p`: the block LENGTH if the end has no anchor (one past the last unit),
/// the offset of the end anchor otherwise -- `end.assoc` is not consulted
pub open spec fn back_entry_offset(p: &Item, end: StickyIndex) -> int {
    match end.id_spec() {
        None => p.len as int,
        Some(e) => e.clock - p.id.clock,
    }
}

/// the slice the code builds from block `p` with the given `end_offset`: from the start anchor (if `p` holds it; `start.assoc`
/// is not consulted) or from offset 0
pub open spec fn step_back_code(v: IterView, p: ItemPtr, eo: int, rest: Seq<ItemPtr>) -> (IterView, Option<ItemSlice>) {
    if v.start.id_spec() is Some && covers_id(p, v.start.id_spec().unwrap()) {
        (IterView { s: rest, state: RangeIterState::Closed, start: v.start, end: v.end },
            Some(ItemSlice { ptr: p, start: (v.start.id_spec().unwrap().clock - p.id.clock) as u32, end: eo as u32 }))
    } else {
        (IterView { s: rest, state: RangeIterState::InRange, start: v.start, end: v.end }, Some(ItemSlice { ptr: p, start: 0, end: eo as u32 }))
    }
}

pub open spec fn next_back_code(v: IterView) -> (IterView, Option<ItemSlice>) {
    match v.state {
        RangeIterState::Closed => (v, None),
        // `end_offset` keeps its initial value 0
        RangeIterState::InRange => if v.s.len() == 0 { (v, None) } else { step_back_code(v, v.s.last(), 0, v.s.drop_last()) },
        RangeIterState::Opened => {
            let j = back_entry(v.s, v.end);
            if j < 0 {
                (IterView { s: Seq::empty(), state: v.state, start: v.start, end: v.end }, None)
            } else {
                step_back_code(v, v.s[j], back_entry_offset(v.s[j], v.end), v.s.take(j))
            }
        },
    }
}

/// weakest precondition of `ItemSlice::new(ptr, start_offset, end_offset)` in `next_back` (its debug_assert!(start <= end))
pub open spec fn next_back_code_total(v: IterView) -> bool {
    let a = v.start.id_spec();
    match v.state {
        RangeIterState::Closed => true,
        RangeIterState::InRange => v.s.len() > 0 && a is Some && covers_id(v.s.last(), a.unwrap()) ==> a.unwrap().clock == v.s.last().id.clock,
        RangeIterState::Opened => {
            let j = back_entry(v.s, v.end);
            j >= 0 && a is Some && covers_id(v.s[j], a.unwrap()) ==> a.unwrap().clock - v.s[j].id.clock <= back_entry_offset(v.s[j], v.end)
        },
    }
}

pub open spec fn next_back_code_post(v: IterView, w: IterView, r: Option<ItemSlice>) -> bool {
    &&& w.s =~= next_back_code(v).0.s
    &&& w.state == next_back_code(v).0.state
    &&& w.start == next_back_code(v).0.start
    &&& w.end == next_back_code(v).0.end
    &&& r == next_back_code(v).1
}

pub proof fn lemma_rfind_bounds(s: Seq<ItemPtr>, id: ID)
    ensures
        -1 <= rfind(s, id) < s.len(),
        forall|i: int| rfind(s, id) < i < s.len() ==> !covers_id(#[trigger] s[i], id),
        rfind(s, id) >= 0 ==> covers_id(s[rfind(s, id)], id),
    decreases s.len(),
{
    if s.len() > 0 && !covers_id(s.last(), id) {
        let t = s.drop_last();
        lemma_rfind_bounds(t, id);
        assert forall|i: int| rfind(s, id) < i < s.len() implies !covers_id(#[trigger] s[i], id) by {
            if i < s.len() - 1 {
                assert(s[i] == t[i]);
            }
        }
        if rfind(s, id) >= 0 {
            assert(s[rfind(s, id)] == t[rfind(t, id)]);
        }
    }
}

/// OBSERVATION QB, 1: ONE pending block of 2 units, no anchors (the whole block is the range).  The code is total here and
/// yields the slice (p, 0, 2): its last offset is one PAST the block -- the unit id clock + 2 is not in the block, and the call
/// violates the per-call contract
pub proof fn observation_qb_end_one_past_the_block(p: ItemPtr, start: StickyIndex, end: StickyIndex)
    requires
        item_ok(p),
        p.len == 2,
        start.id_spec() is None,
        end.id_spec() is None,
    ensures
        ({
            let v = IterView { s: seq![p], state: RangeIterState::Opened, start: start, end: end };
            let (w, r) = next_back_code(v);
            &&& next_back_code_total(v) && dom_back(v) && items_ok(v.s) && disjoint(v.s)
            &&& r == Some(ItemSlice { ptr: p, start: 0, end: 2 })
            &&& !covers_id(p, slice_ids(r.unwrap())[2])
            &&& !next_back_ok(v, w, r)
        }),
{
    let s = seq![p];
    assert(s[0] == p);
    assert(s.take(0) =~= Seq::<ItemPtr>::empty());
    let sl = ItemSlice { ptr: p, start: 0, end: 2 };
    assert(slice_ids(sl)[2] == ID { client: p.id.client, clock: (p.id.clock + 2) as u32 });
}

/// OBSERVATION QB, 2: TWO pending blocks of 2 units each, inclusive end anchor = the last unit of the second block, no start
/// anchor.  The first call yields (p1, 0, 1) -- right --, the second call (state InRange) yields (p0, 0, 0): the FIRST unit of
/// the block only; its second unit is never yielded, the call violates the per-call contract
pub proof fn observation_qb_inner_blocks_lose_units(p0: ItemPtr, p1: ItemPtr, start: StickyIndex, end: StickyIndex)
    requires
        item_ok(p0) && item_ok(p1),
        p0.len == 2 && p1.len == 2,
        forall|id: ID| covers_id(p0, id) ==> !covers_id(p1, id),
        start.id_spec() is None,
        end.id_spec() == Some(ID { client: p1.id.client, clock: (p1.id.clock + 1) as u32 }) && end.assoc == Assoc::After,
    ensures
        ({
            let v0 = IterView { s: seq![p0, p1], state: RangeIterState::Opened, start: start, end: end };
            let (v1, r1) = next_back_code(v0);
            let (v2, r2) = next_back_code(v1);
            &&& next_back_code_total(v0) && next_back_code_total(v1)
            &&& r1 == Some(ItemSlice { ptr: p1, start: 0, end: 1 }) && v1.s == seq![p0] && v1.state == RangeIterState::InRange
            &&& r2 == Some(ItemSlice { ptr: p0, start: 0, end: 0 })
            &&& rem_back(v1) == block_ids(p0)
            &&& !next_back_ok(v1, v2, r2)
        }),
{
    let s = seq![p0, p1];
    let e = end.id_spec().unwrap();
    assert(s[0] == p0 && s[1] == p1 && s.last() == p1);
    assert(covers_id(p1, e));
    assert(rfind(s, e) == 1);
    assert(s.take(1) =~= seq![p0]);
    let v1 = next_back_code(IterView { s: s, state: RangeIterState::Opened, start: start, end: end }).0;
    let s1 = seq![p0];
    assert(v1.s == s1);
    assert(s1[0] == p0 && s1.last() == p0);
    assert(s1.drop_last() =~= Seq::<ItemPtr>::empty());
    // what is left after the first call: the whole block p0
    assert(items_ok(s1));
    lemma_flat_len(s1);
    assert(total(s1.skip(1)) == 0);
    assert(flat(s1.skip(1)) =~= Seq::<ID>::empty());
    assert(flat(s1) =~= block_ids(p0));
    assert(rem_back(v1) =~= block_ids(p0));
    // the second call accounts for one unit only
    let v2 = next_back_code(v1).0;
    assert(rem_back(v2).len() == 0) by {
        assert(v2.s =~= Seq::<ItemPtr>::empty());
        assert(total(v2.s) == 0);
        assert(flat(v2.s) =~= Seq::<ID>::empty());
    }
    assert(slice_ids(ItemSlice { ptr: p0, start: 0, end: 0 }).len() == 1);
    assert(block_ids(p0).len() == 2);
}

// ---------------------------------------------------------------------------------------------
// lemmas
// ---------------------------------------------------------------------------------------------
pub proof fn lemma_find_bounds(s: Seq<ItemPtr>, id: ID)
    ensures
        0 <= find(s, id) <= s.len(),
        forall|i: int| 0 <= i < find(s, id) ==> !covers_id(#[trigger] s[i], id),
        find(s, id) < s.len() ==> covers_id(s[find(s, id)], id),
    decreases s.len(),
{
    if s.len() > 0 && !covers_id(s[0], id) {
        let t = s.skip(1);
        lemma_find_bounds(t, id);
        assert forall|i: int| 0 <= i < find(s, id) implies !covers_id(#[trigger] s[i], id) by {
            if i > 0 {
                assert(s[i] == t[i - 1]);
            }
        }
        if find(s, id) < s.len() {
            assert(s[find(s, id)] == t[find(t, id)]);
        }
    }
}

pub proof fn lemma_flat_len(s: Seq<ItemPtr>)
    requires
        items_ok(s),
    ensures
        flat(s).len() == total(s),
        total(s) >= 0,
    decreases s.len(),
{
    if s.len() > 0 {
        let t = s.skip(1);
        assert forall|i: int| 0 <= i < t.len() implies item_ok(#[trigger] t[i]) by {
            assert(t[i] == s[i + 1]);
        }
        assert(item_ok(s[0]));
        lemma_flat_len(t);
    }
}

pub proof fn lemma_items_ok_skip(s: Seq<ItemPtr>, n: int)
    requires
        items_ok(s),
        0 <= n <= s.len(),
    ensures
        items_ok(s.skip(n)),
{
    let t = s.skip(n);
    assert forall|i: int| 0 <= i < t.len() implies item_ok(#[trigger] t[i]) by {
        assert(t[i] == s[i + n]);
    }
}

/// position and occurrence, one block further
pub proof fn lemma_pos_bounds(s: Seq<ItemPtr>, id: ID)
    requires
        items_ok(s),
    ensures
        occurs(s, id) ==> 0 <= pos(s, id) < total(s),
        !occurs(s, id) ==> pos(s, id) == total(s),
        s.len() > 0 && !covers_id(s[0], id) ==> occurs(s, id) == occurs(s.skip(1), id) && pos(s, id) == s[0].len + pos(s.skip(1), id),
        s.len() > 0 && covers_id(s[0], id) ==> occurs(s, id) && pos(s, id) == id.clock - s[0].id.clock && pos(s, id) < s[0].len,
        total(s) >= 0,
    decreases s.len(),
{
    if s.len() > 0 {
        lemma_items_ok_skip(s, 1);
        assert(item_ok(s[0]));
        lemma_pos_bounds(s.skip(1), id);
    }
}

/// the subrange of S that starts inside the first block
pub proof fn lemma_flat_split(s: Seq<ItemPtr>, a: int, b: int)
    requires
        items_ok(s),
        s.len() > 0,
        0 <= a <= s[0].len,
        a <= b <= total(s),
    ensures
        b <= s[0].len ==> flat(s).subrange(a, b) == ids_of(s[0], a, b - 1),
        b >= s[0].len ==> flat(s).subrange(a, b) == ids_of(s[0], a, s[0].len - 1) + flat(s.skip(1)).subrange(0, b - s[0].len),
{
    let p = s[0];
    let t = s.skip(1);
    lemma_items_ok_skip(s, 1);
    lemma_flat_len(s);
    lemma_flat_len(t);
    assert(item_ok(p));
    assert(block_ids(p).len() == p.len);
    if b <= p.len {
        assert(flat(s).subrange(a, b) =~= ids_of(p, a, b - 1));
    }
    if b >= p.len {
        assert(flat(s).subrange(a, b) =~= ids_of(p, a, p.len - 1) + flat(t).subrange(0, b - p.len));
    }
}

/// hi, one block further
pub proof fn lemma_hi_shift(s: Seq<ItemPtr>, end: StickyIndex)
    requires
        items_ok(s),
        s.len() > 0,
        !(end.id_spec() is Some && covers_id(s[0], end.id_spec().unwrap())),
    ensures
        hi(s, end) == s[0].len + hi(s.skip(1), end),
        0 <= hi(s.skip(1), end) <= total(s.skip(1)),
{
    lemma_items_ok_skip(s, 1);
    lemma_flat_len(s.skip(1));
    if end.id_spec() is Some {
        lemma_pos_bounds(s, end.id_spec().unwrap());
        lemma_pos_bounds(s.skip(1), end.id_spec().unwrap());
    }
}

pub proof fn lemma_hi_bounds(s: Seq<ItemPtr>, end: StickyIndex)
    requires
        items_ok(s),
    ensures
        0 <= hi(s, end) <= total(s),
{
    lemma_flat_len(s);
    if end.id_spec() is Some {
        lemma_pos_bounds(s, end.id_spec().unwrap());
    }
}

/// S[a .. b), empty if b < a
pub open spec fn seg(s: Seq<ItemPtr>, a: int, b: int) -> Seq<ID> {
    if a <= b {
        flat(s).subrange(a, b)
    } else {
        Seq::empty()
    }
}

/// LEMMA A (one block against the end boundary): what is left of S from offset `so` of the first block up to the end boundary
/// is the cut of the first block followed -- unless that block is the end block -- by what is left of the other blocks.
/// (`so` may lie BEHIND the end boundary: then nothing is left and the cut is None.)
pub proof fn lemma_cut(s: Seq<ItemPtr>, so: int, end: StickyIndex)
    requires
        items_ok(s),
        s.len() > 0,
        0 <= so < s[0].len,
    ensures
        ({
            let c = end_cut(s[0], so, end);
            &&& seg(s, so, hi(s, end)) == cut_ids(s[0], c) + (if c.closes { Seq::<ID>::empty() } else { flat(s.skip(1)).subrange(0, hi(s.skip(1), end)) })
            &&& match c.out {
                Some((a, b)) => a == so && a <= b < s[0].len && cut_ids(s[0], c).len() == b - a + 1,
                None => c.closes && hi(s, end) <= so,
            }
        }),
{
    let p = s[0];
    let t = s.skip(1);
    let c = end_cut(p, so, end);
    assert(item_ok(p));
    lemma_hi_bounds(s, end);
    lemma_flat_len(s);
    if end.id_spec() is Some && covers_id(p, end.id_spec().unwrap()) {
        let e = end.id_spec().unwrap();
        lemma_pos_bounds(s, e);
        let h = hi(s, end);
        assert(0 <= h <= p.len);
        if so <= h {
            lemma_flat_split(s, so, h);
        }
        assert(seg(s, so, h) =~= cut_ids(p, c) + Seq::<ID>::empty());
    } else {
        lemma_hi_shift(s, end);
        let h = hi(s, end);
        lemma_flat_split(s, so, h);
    }
}

/// LEMMA B (the start boundary): on the domain, the expected units are what is left of the pending blocks from the landing
/// block / offset on, up to the end boundary; nothing if the range already ended in the block the exclusive start left
pub proof fn lemma_landing(s: Seq<ItemPtr>, start: StickyIndex, end: StickyIndex)
    requires
        items_ok(s),
        dom(s, start, end),
    ensures
        ({
            let l = start_landing(s, start, end);
            &&& !l.found ==> expected(s, start, end) == Seq::<ID>::empty()
            &&& l.found ==> 0 <= l.idx <= s.len()
            &&& l.found && l.ended ==> expected(s, start, end) == Seq::<ID>::empty()
            &&& l.found && l.idx == s.len() ==> expected(s, start, end) == Seq::<ID>::empty()
            &&& l.found && !l.ended && l.idx < s.len() ==> {
                let t = s.skip(l.idx);
                &&& 0 <= l.off < s[l.idx].len
                &&& expected(s, start, end) == seg(t, l.off, hi(t, end))
            }
        }),
    decreases s.len(),
{
    let l = start_landing(s, start, end);
    lemma_hi_bounds(s, end);
    lemma_flat_len(s);
    match start.id_spec() {
        None => {
            if s.len() > 0 {
                assert(s.skip(0) =~= s);
                assert(item_ok(s[0]));
            } else {
                assert(flat(s).subrange(0, hi(s, end)) =~= Seq::<ID>::empty());
            }
        },
        Some(a) => {
            lemma_find_bounds(s, a);
            lemma_pos_bounds(s, a);
            if s.len() == 0 {
            } else if covers_id(s[0], a) {
                let p = s[0];
                let t = s.skip(1);
                assert(item_ok(p));
                lemma_items_ok_skip(s, 1);
                if end.id_spec() is Some {
                    lemma_pos_bounds(s, end.id_spec().unwrap());
                }
                if l.idx == 0 {
                    assert(s.skip(0) =~= s);
                } else {
                    // Assoc::After on the last unit of the first block: the range begins with the next block
                    assert(l.idx == 1 && lo(s, start) == p.len);
                    if l.ended {
                        // ... but it also ends in the first block
                        assert(hi(s, end) <= p.len);
                        assert(expected(s, start, end) =~= Seq::<ID>::empty());
                    } else {
                        lemma_hi_shift(s, end);
                        lemma_flat_len(t);
                        if t.len() > 0 {
                            lemma_flat_split(s, p.len as int, hi(s, end));
                            assert(ids_of(p, p.len as int, p.len - 1) =~= Seq::<ID>::empty());
                            assert(expected(s, start, end) =~= flat(t).subrange(0, hi(t, end)));
                            assert(item_ok(t[0]));
                            assert(t[0] == s[1]);
                        } else {
                            assert(expected(s, start, end) =~= Seq::<ID>::empty());
                        }
                    }
                }
            } else {
                let p = s[0];
                let t = s.skip(1);
                assert(item_ok(p));
                lemma_items_ok_skip(s, 1);
                lemma_pos_bounds(t, a);
                lemma_find_bounds(t, a);
                lemma_flat_len(t);
                let lt = start_landing(t, start, end);
                if occurs(s, a) {
                    // the landing of s is the landing of t, one block further
                    assert(find(s, a) == 1 + find(t, a));
                    assert(s[find(s, a)] == t[find(t, a)]);
                    assert(l.found && lt.found && l.idx == lt.idx + 1 && l.off == lt.off && l.ended == lt.ended);
                    assert(lo(s, start) == p.len + lo(t, start));
                    if end.id_spec() is Some {
                        let e = end.id_spec().unwrap();
                        lemma_pos_bounds(s, e);
                        lemma_pos_bounds(t, e);
                        lemma_find_bounds(s, e);
                        lemma_find_bounds(t, e);
                        // the end anchor is not in the first block (domain: its block is not in front of the start block)
                        if occurs(s, e) {
                            assert(find(s, e) >= 1);
                        }
                        assert(!covers_id(p, e));
                    }
                    lemma_hi_shift(s, end);
                    assert(dom(t, start, end));
                    lemma_landing(t, start, end);
                    lemma_hi_bounds(t, end);
                    if lo(t, start) <= hi(t, end) {
                        assert(flat(s).subrange(lo(s, start), hi(s, end)) =~= flat(t).subrange(lo(t, start), hi(t, end)));
                    }
                    assert(expected(s, start, end) == expected(t, start, end));
                    if lt.idx < t.len() {
                        assert(t.skip(lt.idx) =~= s.skip(l.idx));
                        assert(s[l.idx] == t[lt.idx]);
                    }
                } else {
                    assert(lo(s, start) == total(s));
                    assert(expected(s, start, end) =~= Seq::<ID>::empty());
                }
            }
        },
    }
}

/// STEP THEOREM: on the domain one call of `next` (as specified by `next_spec`) returns None exactly when nothing is left, and
/// otherwise returns a NON-EMPTY slice of ONE pending block, in order: the next units still to be yielded
pub proof fn theorem_step(v: IterView)
    requires
        items_ok(v.s),
        view_dom(v),
    ensures
        ({
            let (w, r) = next_spec(v);
            &&& items_ok(w.s) && view_dom(w) && w.start == v.start && w.end == v.end
            &&& forall|p: ItemPtr| w.s.contains(p) ==> v.s.contains(p)
            &&& r is None <==> rem(v).len() == 0
            &&& r is None ==> rem(w).len() == 0
            &&& r is Some ==> {
                let sl = r.unwrap();
                &&& v.s.contains(sl.ptr)
                &&& sl.start <= sl.end < sl.ptr.len
                &&& slice_ids(sl).len() == sl.end - sl.start + 1
                &&& rem(v) == slice_ids(sl) + rem(w)
            }
        }),
{
    let (w, r) = next_spec(v);
    match v.state {
        RangeIterState::Closed => {},
        RangeIterState::InRange => {
            lemma_hi_bounds(v.s, v.end);
            if v.s.len() > 0 {
                assert(item_ok(v.s[0]));
                lemma_cut(v.s, 0, v.end);
                lemma_items_ok_skip(v.s, 1);
                lemma_hi_bounds(v.s.skip(1), v.end);
                lemma_skip_contains(v.s, 1);
            } else {
                assert(total(v.s) == 0);
            }
        },
        RangeIterState::Opened => {
            lemma_landing(v.s, v.start, v.end);
            let l = start_landing(v.s, v.start, v.end);
            if l.found && l.ended {
                lemma_items_ok_skip(v.s, l.idx);
                lemma_skip_contains(v.s, l.idx);
            } else if l.found && l.idx < v.s.len() {
                let t = v.s.skip(l.idx);
                lemma_items_ok_skip(v.s, l.idx);
                assert(t[0] == v.s[l.idx]);
                assert(t.skip(1) =~= v.s.skip(l.idx + 1));
                lemma_cut(t, l.off, v.end);
                lemma_items_ok_skip(t, 1);
                lemma_hi_bounds(t.skip(1), v.end);
                lemma_skip_contains(v.s, l.idx + 1);
            } else {
                assert(flat(Seq::<ItemPtr>::empty()) =~= Seq::<ID>::empty());
                assert(total(Seq::<ItemPtr>::empty()) == 0);
                lemma_hi_bounds(Seq::<ItemPtr>::empty(), v.end);
                lemma_flat_len(Seq::<ItemPtr>::empty());
                assert(expected(Seq::<ItemPtr>::empty(), v.start, v.end) =~= Seq::<ID>::empty());
            }
        },
    }
}

/// what is left is a suffix of what was pending
pub proof fn lemma_skip_contains(s: Seq<ItemPtr>, n: int)
    requires
        0 <= n <= s.len(),
    ensures
        forall|p: ItemPtr| s.skip(n).contains(p) ==> s.contains(p),
{
    assert forall|p: ItemPtr| s.skip(n).contains(p) implies s.contains(p) by {
        let i = choose|i: int| 0 <= i < s.skip(n).len() && s.skip(n)[i] == p;
        assert(s[i + n] == p);
    }
}

// ---------------------------------------------------------------------------------------------
// LIFETIME READING: iterating to the end
// ---------------------------------------------------------------------------------------------
/// the units of a run of slices, in the order in which they were yielded
pub open spec fn concat_ids(outs: Seq<ItemSlice>) -> Seq<ID>
    decreases outs.len(),
{
    if outs.len() == 0 {
        Seq::empty()
    } else {
        slice_ids(outs[0]) + concat_ids(outs.skip(1))
    }
}

/// `vs[i]` is the iterator before the i-th call of `next`, `outs[i]` the slice that call returns, and the call after the last
/// of them returns None
pub open spec fn is_trace(vs: Seq<IterView>, outs: Seq<ItemSlice>) -> bool {
    &&& vs.len() == outs.len() + 1
    &&& forall|i: int| 0 <= i < outs.len() ==> next_spec(#[trigger] vs[i]) == (vs[i + 1], Some(outs[i]))
    &&& next_spec(vs.last()).1 is None
}

/// every slice is a non-empty range of ONE block of the sequence
pub open spec fn slices_ok(s: Seq<ItemPtr>, outs: Seq<ItemSlice>) -> bool {
    forall|i: int| 0 <= i < outs.len() ==> s.contains((#[trigger] outs[i]).ptr) && outs[i].start <= outs[i].end < outs[i].ptr.len
}

/// DRAIN LEMMA: all the calls together yield exactly the units still to be yielded at the beginning -- nothing else, in order
pub proof fn lemma_drain(vs: Seq<IterView>, outs: Seq<ItemSlice>)
    requires
        is_trace(vs, outs),
        items_ok(vs[0].s),
        view_dom(vs[0]),
    ensures
        concat_ids(outs) == rem(vs[0]),
        slices_ok(vs[0].s, outs),
    decreases outs.len(),
{
    hide(next_spec);
    hide(rem);
    theorem_step(vs[0]);
    if outs.len() == 0 {
        assert(vs[0] == vs.last());
        assert(rem(vs[0]) =~= Seq::<ID>::empty());
    } else {
        let vt = vs.skip(1);
        let ot = outs.skip(1);
        assert(next_spec(vs[0]) == (vs[1], Some(outs[0])));
        assert(vt[0] == vs[1]);
        assert forall|i: int| 0 <= i < ot.len() implies next_spec(#[trigger] vt[i]) == (vt[i + 1], Some(ot[i])) by {
            assert(vt[i] == vs[i + 1]);
            assert(vt[i + 1] == vs[i + 2]);
            assert(ot[i] == outs[i + 1]);
        }
        assert(vt.last() == vs.last());
        lemma_drain(vt, ot);
        assert forall|i: int| 0 <= i < outs.len() implies vs[0].s.contains((#[trigger] outs[i]).ptr) && outs[i].start <= outs[i].end < outs[i].ptr.len by {
            if i > 0 {
                assert(ot[i - 1] == outs[i]);
                assert(vs[1].s.contains(ot[i - 1].ptr));
            }
        }
    }
}

// ---- what "position in S" means -----------------------------------------------------------------
/// every unit of S lies in one of the blocks
pub proof fn lemma_flat_covered(s: Seq<ItemPtr>, k: int)
    requires
        items_ok(s),
        0 <= k < total(s),
    ensures
        exists|j: int| 0 <= j < s.len() && covers_id(#[trigger] s[j], flat(s)[k]),
    decreases s.len(),
{
    lemma_flat_len(s);
    if s.len() > 0 {
        let p = s[0];
        let t = s.skip(1);
        assert(item_ok(p));
        lemma_items_ok_skip(s, 1);
        lemma_flat_len(t);
        assert(block_ids(p).len() == p.len);
        if k < p.len {
            assert(flat(s)[k] == block_ids(p)[k]);
            assert(covers_id(s[0], flat(s)[k]));
        } else {
            assert(flat(s)[k] == flat(t)[k - p.len]);
            lemma_flat_covered(t, k - p.len);
            let j = choose|j: int| 0 <= j < t.len() && covers_id(#[trigger] t[j], flat(t)[k - p.len]);
            assert(t[j] == s[j + 1]);
        }
    }
}

/// an anchor that occurs sits at `pos`: S[pos(s, id)] == id
pub proof fn lemma_pos_index(s: Seq<ItemPtr>, id: ID)
    requires
        items_ok(s),
        occurs(s, id),
    ensures
        0 <= pos(s, id) < total(s),
        flat(s)[pos(s, id)] == id,
    decreases s.len(),
{
    lemma_pos_bounds(s, id);
    lemma_flat_len(s);
    if s.len() > 0 {
        let p = s[0];
        let t = s.skip(1);
        assert(item_ok(p));
        lemma_items_ok_skip(s, 1);
        lemma_flat_len(t);
        assert(block_ids(p).len() == p.len);
        if covers_id(p, id) {
            assert(flat(s)[pos(s, id)] == block_ids(p)[pos(s, id)]);
        } else {
            lemma_pos_index(t, id);
            assert(flat(s)[pos(s, id)] == flat(t)[pos(s, id) - p.len]);
        }
    }
}

pub proof fn lemma_disjoint_skip(s: Seq<ItemPtr>)
    requires
        disjoint(s),
        s.len() > 0,
    ensures
        disjoint(s.skip(1)),
{
    let t = s.skip(1);
    assert forall|i: int, j: int, id: ID| 0 <= i < j < t.len() && #[trigger] covers_id(t[i], id) implies !#[trigger] covers_id(t[j], id) by {
        assert(t[i] == s[i + 1] && t[j] == s[j + 1]);
        assert(covers_id(s[i + 1], id));
    }
}

/// with pairwise disjoint blocks a unit id occurs in S exactly once: at `pos`
pub proof fn lemma_pos_unique(s: Seq<ItemPtr>, k: int)
    requires
        items_ok(s),
        disjoint(s),
        0 <= k < total(s),
    ensures
        occurs(s, flat(s)[k]),
        pos(s, flat(s)[k]) == k,
    decreases s.len(),
{
    lemma_flat_len(s);
    if s.len() > 0 {
        let p = s[0];
        let t = s.skip(1);
        let id = flat(s)[k];
        assert(item_ok(p));
        lemma_items_ok_skip(s, 1);
        lemma_flat_len(t);
        lemma_pos_bounds(s, id);
        assert(block_ids(p).len() == p.len);
        if k < p.len {
            assert(id == block_ids(p)[k]);
            assert(covers_id(p, id));
        } else {
            assert(id == flat(t)[k - p.len]);
            lemma_flat_covered(t, k - p.len);
            let j = choose|j: int| 0 <= j < t.len() && covers_id(#[trigger] t[j], flat(t)[k - p.len]);
            assert(t[j] == s[j + 1]);
            assert(covers_id(s[j + 1], id));
            if covers_id(s[0], id) {
                assert(!covers_id(s[j + 1], id));
            }
            lemma_disjoint_skip(s);
            lemma_pos_unique(t, k - p.len);
        }
    }
}

/// no unit id twice in S (hence in no sub-sequence of it)
pub proof fn lemma_flat_nodup(s: Seq<ItemPtr>)
    requires
        items_ok(s),
        disjoint(s),
    ensures
        flat(s).no_duplicates(),
{
    lemma_flat_len(s);
    assert forall|i: int, j: int| 0 <= i < flat(s).len() && 0 <= j < flat(s).len() && i != j implies flat(s)[i] != flat(s)[j] by {
        lemma_pos_unique(s, i);
        lemma_pos_unique(s, j);
    }
}

/// an anchor that does not occur is not a unit of S
pub proof fn lemma_not_occurs(s: Seq<ItemPtr>, id: ID)
    requires
        items_ok(s),
        !occurs(s, id),
    ensures
        !flat(s).contains(id),
{
    lemma_flat_len(s);
    lemma_find_bounds(s, id);
    if flat(s).contains(id) {
        let k = choose|k: int| 0 <= k < flat(s).len() && flat(s)[k] == id;
        lemma_flat_covered(s, k);
        let j = choose|j: int| 0 <= j < s.len() && covers_id(#[trigger] s[j], flat(s)[k]);
        assert(!covers_id(s[j], id));
    }
}

/// C20 KERNEL, forward traversal: a `RangeIter` created over the blocks `s` (S = flat(s)) with the boundaries `start` / `end`
/// and iterated to the end yields -- as non-empty slices of single blocks, in order -- exactly the units of S from position
/// lo to position hi (exclusive), where
///     lo = 0                 if `start` has no anchor,     = p      if the anchor is S[p] and start.assoc == Before (inclusive),
///                                                          = p + 1  if start.assoc == After (exclusive)
///     hi = |S|               if `end` has no anchor or its anchor does not occur in S (DERIVED: the iteration runs to the end),
///        = q + 1             if the anchor is S[q] and end.assoc == After (inclusive),   = q  if end.assoc == Before (exclusive)
/// and hi <= lo gives the EMPTY sequence (e.g. an exclusive start and an end at the same element) -- on the WHOLE domain of the
/// property: whenever both anchors occur, the end anchor is not in front of the start anchor (`prop_dom`, q >= p).  Nothing is
/// yielded when the start anchor does not occur.  No id is yielded twice.
pub proof fn theorem_quote_range(s: Seq<ItemPtr>, start: StickyIndex, end: StickyIndex, vs: Seq<IterView>, outs: Seq<ItemSlice>)
    requires
        items_ok(s),
        disjoint(s),
        prop_dom(s, start, end),
        vs.len() > 0 && vs[0] == (IterView { s: s, state: RangeIterState::Opened, start: start, end: end }),
        is_trace(vs, outs),
    ensures
        slices_ok(s, outs),
        concat_ids(outs) == expected(s, start, end),
        concat_ids(outs).no_duplicates(),
        // the boundaries are positions of S
        0 <= lo(s, start) <= total(s) && 0 <= hi(s, end) <= total(s) && total(s) == flat(s).len(),
        start.id_spec() is Some && occurs(s, start.id_spec().unwrap()) ==> flat(s)[pos(s, start.id_spec().unwrap())] == start.id_spec().unwrap(),
        end.id_spec() is Some && occurs(s, end.id_spec().unwrap()) ==> flat(s)[pos(s, end.id_spec().unwrap())] == end.id_spec().unwrap(),
        start.id_spec() is Some && !occurs(s, start.id_spec().unwrap()) ==> !flat(s).contains(start.id_spec().unwrap()) && outs.len() == 0,
        end.id_spec() is Some && !occurs(s, end.id_spec().unwrap()) ==> !flat(s).contains(end.id_spec().unwrap()) && hi(s, end) == flat(s).len(),
{
    lemma_dom_of_order(s, start, end);
    lemma_drain(vs, outs);
    lemma_flat_nodup(s);
    lemma_flat_len(s);
    lemma_hi_bounds(s, end);
    let ex = expected(s, start, end);
    if start.id_spec() is Some {
        let a = start.id_spec().unwrap();
        lemma_pos_bounds(s, a);
        if occurs(s, a) {
            lemma_pos_index(s, a);
        } else {
            lemma_not_occurs(s, a);
            assert(ex.len() == 0);
            if outs.len() > 0 {
                theorem_step(vs[0]);
                assert(next_spec(vs[0]) == (vs[1], Some(outs[0])));
            }
        }
    }
    if end.id_spec() is Some {
        let e = end.id_spec().unwrap();
        if occurs(s, e) {
            lemma_pos_index(s, e);
        } else {
            lemma_not_occurs(s, e);
        }
    }
    assert forall|i: int, j: int| 0 <= i < ex.len() && 0 <= j < ex.len() && i != j implies ex[i] != ex[j] by {
        assert(ex[i] == flat(s)[lo(s, start) + i]);
        assert(ex[j] == flat(s)[lo(s, start) + j]);
    }
}

/// positions and blocks are ordered alike: an anchor in an earlier block sits at an earlier position
pub proof fn lemma_find_mono(s: Seq<ItemPtr>, a: ID, e: ID)
    requires
        items_ok(s),
        occurs(s, a),
        occurs(s, e),
        find(s, e) < find(s, a),
    ensures
        pos(s, e) < pos(s, a),
    decreases s.len(),
{
    lemma_pos_bounds(s, a);
    lemma_pos_bounds(s, e);
    lemma_find_bounds(s, a);
    lemma_find_bounds(s, e);
    if s.len() > 0 {
        assert(item_ok(s[0]));
        if covers_id(s[0], e) {
            // e in the first block, a behind it
            assert(!covers_id(s[0], a));
            lemma_items_ok_skip(s, 1);
            lemma_pos_bounds(s.skip(1), a);
        } else {
            assert(!covers_id(s[0], a));
            lemma_items_ok_skip(s, 1);
            lemma_find_mono(s.skip(1), a, e);
        }
    }
}

/// THE DOMAIN OF THE PROPERTY ("the end anchor occurs at or behind the start anchor", pos(start) <= pos(end)) lies inside `dom`;
/// so does the input class of the repaired FINDING Q1 (same anchor), where the expected sequence is empty
pub proof fn lemma_dom_of_order(s: Seq<ItemPtr>, start: StickyIndex, end: StickyIndex)
    requires
        items_ok(s),
    ensures
        prop_dom(s, start, end) ==> dom(s, start, end),
        finding_q1_same_anchor_exclusive_start(start, end) ==> dom(s, start, end) && expected(s, start, end).len() == 0,
{
    if start.id_spec() is Some && end.id_spec() is Some {
        let a = start.id_spec().unwrap();
        let e = end.id_spec().unwrap();
        if occurs(s, a) && occurs(s, e) && find(s, e) < find(s, a) {
            lemma_find_mono(s, a, e);
        }
        lemma_pos_bounds(s, a);
    }
    lemma_flat_len(s);
    if finding_q1_same_anchor_exclusive_start(start, end) {
        assert(expected(s, start, end) =~= Seq::<ID>::empty());
    }
}

/// SATISFIABILITY of the backward contract (no code on the pinned tree meets it, see FINDING QB): for a single pending block `p`,
/// an inclusive start at offset i and an inclusive end at offset j >= i, the call that returns the slice (p, i, j), hands out the
/// block and closes the iterator is a correct `next_back`
pub proof fn example_next_back_single_block(p: ItemPtr, i: u32, j: u32, start: StickyIndex, end: StickyIndex)
    requires
        item_ok(p),
        i <= j < p.len,
        start.id_spec() == Some(ID { client: p.id.client, clock: (p.id.clock + i) as u32 }) && start.assoc == Assoc::Before,
        end.id_spec() == Some(ID { client: p.id.client, clock: (p.id.clock + j) as u32 }) && end.assoc == Assoc::After,
    ensures
        ({
            let v = IterView { s: seq![p], state: RangeIterState::Opened, start: start, end: end };
            let w = IterView { s: Seq::empty(), state: RangeIterState::Closed, start: start, end: end };
            dom_back(v) && next_back_ok(v, w, Some(ItemSlice { ptr: p, start: i, end: j }))
        }),
{
    let s = seq![p];
    let a = start.id_spec().unwrap();
    let e = end.id_spec().unwrap();
    assert(s[0] == p);
    assert(items_ok(s));
    assert(covers_id(s[0], a) && covers_id(s[0], e));
    lemma_pos_bounds(s, a);
    lemma_pos_bounds(s, e);
    assert(total(s.skip(1)) == 0);
    lemma_flat_split(s, i as int, j + 1);
    assert(Seq::<ID>::empty() + ids_of(p, i as int, j as int) =~= ids_of(p, i as int, j as int));
    assert(Seq::<ItemPtr>::empty().is_prefix_of(s));
}

// ---------------------------------------------------------------------------------------------
// the real code
// ---------------------------------------------------------------------------------------------
impl Item {
    /*@extract yrs/src/block.rs | impl Item | fn id | label=item_id
    @ret r
    @sig
        ensures *r == self.id,
    @*/

    /*@extract yrs/src/block.rs | impl Item | fn len | label=item_len
    @ret r
    @sig
        ensures r == self.len,
    @*/

    /*@extract yrs/src/block.rs | impl Item | fn contains | label=item_contains
    @ret r
    @sig
        requires
            self.id.clock + self.len <= u32::MAX,
        ensures
            r == covers_id(self, *id),
    @*/
}

impl ItemSlice {
    /*@extract yrs/src/slice.rs | impl ItemSlice | fn new | label=slice_new
    @ret r
    @sig
        requires start <= end,
        ensures r.ptr == ptr, r.start == start, r.end == end,
    @*/
}

impl StickyIndex {
    /*@extract yrs/src/sticky_index.rs | impl StickyIndex | fn id | label=sticky_id
    @ret r
    @sig
        ensures
            r is Some <==> self.id_spec() is Some,
            r is Some ==> *r.unwrap() == self.id_spec().unwrap(),
    @*/
}

/// REWRITE of a construct Verus mishandles (same meaning, logged SUBs on `next` and -- with `self.start` / `start` -- `next_back`):
///     match self.end.id() { Some(end) if ptr.contains(end) => A, _ => B }
/// is spelled
///     match vx_only_in(self.end.id(), ptr) { VxHit::Hit(end) => A, _ => B }
/// i.e. the guard moved into the scrutinee (VERIFIED helper below, not trusted).  Reason (measured): Verus loses `final(self)` of
/// the fields not mentioned afterwards (`final(self).iter` / `final(self).start`) on the path where a match guard containing a
/// call evaluates to false and the other arm assigns a field of `*self`.  (`begin`, whose guarded arms all `break` or reassign
/// `curr` from `self.iter`, is not affected and is verified as written.)  The two SUBs are tied by the type `VxHit`: if only one of them applies to an edited
/// function the result does not type-check (tool error), it is never a different program that verifies.
pub enum VxHit<'a> {
    Hit(&'a ID),
    Miss,
}

pub fn vx_only_in<'a>(o: Option<&'a ID>, ptr: ItemPtr) -> (r: VxHit<'a>)
    requires
        ptr.id.clock + ptr.len <= u32::MAX,
    ensures
        r == (if o is Some && covers_id(ptr, *o.unwrap()) { VxHit::Hit(o.unwrap()) } else { VxHit::Miss }),
{
    match o {
        Some(id) => if ptr.contains(id) { VxHit::Hit(id) } else { VxHit::Miss },
        None => VxHit::Miss,
    }
}

/// STAND-IN for the inner iterator `I: Iterator<Item = ItemPtr>`: a ghost sequence of the blocks not handed out yet
pub trait BlockSeqIter {
    spec fn pending(&self) -> Seq<ItemPtr>;

    fn next(&mut self) -> (r: Option<ItemPtr>)
        ensures
            old(self).pending().len() == 0 ==> r is None && final(self).pending() == old(self).pending(),
            old(self).pending().len() > 0 ==> r == Some(old(self).pending()[0]) && final(self).pending() == old(self).pending().skip(1),
    ;
}

pub open spec fn begin_inv(s0: Seq<ItemPtr>, pend: Seq<ItemPtr>, curr: Option<ItemPtr>, start: StickyIndex) -> bool {
    let n = s0.len() as int;
    let m = pend.len() as int;
    &&& m <= n
    &&& pend =~= s0.skip(n - m)
    &&& match curr {
        Some(p) => m < n && p == s0[n - m - 1] && (n - m - 1 > 0 ==> start.id_spec() is Some) && (start.id_spec() is Some ==> n - m - 1 <= find(s0, start.id_spec().unwrap())),
        None => m == 0 && (n > 0 ==> start.id_spec() is Some) && (start.id_spec() is Some ==> n <= find(s0, start.id_spec().unwrap())),
    }
}

pub open spec fn begin_post(s0: Seq<ItemPtr>, state0: RangeIterState, start: StickyIndex, end: StickyIndex, state: RangeIterState, pend: Seq<ItemPtr>, curr: Option<ItemPtr>, offset: u32) -> bool {
    let l = start_landing(s0, start, end);
    &&& state == (if !l.found { state0 } else if l.ended { RangeIterState::Closed } else { RangeIterState::InRange })
    &&& offset == l.off
    &&& curr == (if l.found && !l.ended && l.idx < s0.len() { Some(s0[l.idx]) } else { None })
    &&& pend =~= (if l.ended { s0.skip(l.idx) } else if l.idx < s0.len() { s0.skip(l.idx + 1) } else { Seq::empty() })
}

impl<I: BlockSeqIter> RangeIter<I> {
    pub open spec fn view(&self) -> IterView {
        IterView { s: self.iter.pending(), state: self.state, start: self.start, end: self.end }
    }

    /*@extract yrs/src/iter.rs | impl<I> RangeIter<I> where I: Iterator<Item = ItemPtr>, | fn new | label=range_new
    @ret r
    @sig
        ensures
            r.view() == (IterView { s: iter.pending(), state: RangeIterState::Opened, start: start, end: end }),
    @*/

    /*@extract yrs/src/iter.rs | impl<I> RangeIter<I> where I: Iterator<Item = ItemPtr>, | fn begin | label=range_begin
    @ret r
    @sig
        requires
            items_ok(old(self).iter.pending()),
        ensures
            final(self).start == old(self).start,
            final(self).end == old(self).end,
            begin_post(old(self).iter.pending(), old(self).state, old(self).start, old(self).end, final(self).state, final(self).iter.pending(), r, *final(start_offset)),
    @start
        let ghost s0 = self.iter.pending();
        proof {
            if self.start.id_spec() is Some {
                lemma_find_bounds(s0, self.start.id_spec().unwrap());
            }
        }
    @loop 1
        invariant_except_break
            self.state == old(self).state,
            offset == 0,
            begin_inv(s0, self.iter.pending(), curr, self.start),
        invariant
            s0 == old(self).iter.pending(),
            items_ok(s0),
            self.start == old(self).start,
            self.end == old(self).end,
            self.start.id_spec() is Some ==> {
                let a = self.start.id_spec().unwrap();
                &&& 0 <= find(s0, a) <= s0.len()
                &&& forall|i: int| 0 <= i < find(s0, a) ==> !covers_id(#[trigger] s0[i], a)
                &&& find(s0, a) < s0.len() ==> covers_id(s0[find(s0, a)], a)
            },
        ensures
            begin_post(s0, old(self).state, self.start, self.end, self.state, self.iter.pending(), curr, offset),
        decreases
            self.iter.pending().len() + (if curr is Some { 1int } else { 0int }),
    @*/
    // real: `impl<I> Iterator for RangeIter<I>`, emitted as an inherent method (a trait-method impl cannot carry `requires`)
    /*@extract yrs/src/iter.rs | impl<I> Iterator for RangeIter<I> where I: Iterator<Item = ItemPtr>, | fn next | label=range_next | rules=SUB(from=Option<Self::Item>;;to=Option<ItemSlice>) SUB(from=match self.end.id() {;;to=match vx_only_in(self.end.id(), ptr) {) SUB(from=Some(end) if ptr.contains(end) => {;;to=VxHit::Hit(end) => {)
    @ret r
    @sig
        requires
            items_ok(old(self).iter.pending()),
        ensures
            next_post(old(self).view(), final(self).view(), r),
            // FINDING Q1 (REPAIRED): an exclusive start and an end anchored at the same element -- the range is empty: nothing is
            // yielded, now or later.  (Before the repair: `ItemSlice::new(ptr, off + 1, off)` / `offset -= 1` underflow when the
            // anchor was not the last unit of its block; everything up to the end of the sequence when it was.)
            old(self).state == RangeIterState::Opened && finding_q1_same_anchor_exclusive_start(old(self).start, old(self).end) ==> r is None && rem(final(self).view()).len() == 0,
    @start
        proof {
            let v0 = self.view();
            if v0.state == RangeIterState::Opened && finding_q1_same_anchor_exclusive_start(v0.start, v0.end) {
                lemma_dom_of_order(v0.s, v0.start, v0.end);
                theorem_step(v0);
            }
        }
    @before 1 `stmt:let end_offset`
        proof {
            // the block handed out is one of the pending blocks
            let s0 = old(self).iter.pending();
            if old(self).start.id_spec() is Some {
                lemma_find_bounds(s0, old(self).start.id_spec().unwrap());
            }
            if old(self).state == RangeIterState::Opened {
                assert(ptr == s0[start_landing(s0, old(self).start, old(self).end).idx]);
            } else {
                assert(ptr == s0[0]);
            }
            assert(item_ok(ptr));
        }
    @*/
}

/// STAND-IN for `I: DoubleEndedIterator<Item = ItemPtr>`: the other end of the same ghost sequence
pub trait BlockSeqDeIter: BlockSeqIter {
    fn next_back(&mut self) -> (r: Option<ItemPtr>)
        ensures
            old(self).pending().len() == 0 ==> r is None && final(self).pending() == old(self).pending(),
            old(self).pending().len() > 0 ==> r == Some(old(self).pending().last()) && final(self).pending() == old(self).pending().drop_last(),
    ;
}

pub open spec fn back_inv(s0: Seq<ItemPtr>, pend: Seq<ItemPtr>, curr: Option<ItemPtr>, end: StickyIndex) -> bool {
    let n = s0.len() as int;
    let m = pend.len() as int;
    &&& m <= n
    &&& pend =~= s0.take(m)
    &&& match curr {
        Some(p) => m < n && p == s0[m] && (m < n - 1 ==> end.id_spec() is Some) && (end.id_spec() is Some ==> rfind(s0, end.id_spec().unwrap()) <= m),
        None => m == 0 && (n > 0 ==> end.id_spec() is Some) && (end.id_spec() is Some ==> rfind(s0, end.id_spec().unwrap()) < 0),
    }
}

pub open spec fn back_post(s0: Seq<ItemPtr>, state0: RangeIterState, end: StickyIndex, state: RangeIterState, pend: Seq<ItemPtr>, curr: Option<ItemPtr>, end_offset: u32) -> bool {
    let j = back_entry(s0, end);
    &&& state == (if j >= 0 { RangeIterState::InRange } else { state0 })
    &&& curr == (if j >= 0 { Some(s0[j]) } else { None })
    &&& pend =~= (if j >= 0 { s0.take(j) } else { Seq::empty() })
    &&& j >= 0 ==> end_offset == back_entry_offset(s0[j], end)
}

impl<I: BlockSeqDeIter> RangeIter<I> {
    // OBSERVATION QB (dead code).  The contract is what the code DOES (`next_back_code`), with the weakest precondition of its
    // `ItemSlice::new`; `observation_qb_*` prove that this behaviour is not a correct backward traversal.
    // real: `impl<I> DoubleEndedIterator for RangeIter<I>`, emitted as an inherent method
    /*@extract yrs/src/iter.rs | impl<I> DoubleEndedIterator for RangeIter<I> where I: DoubleEndedIterator<Item = ItemPtr>, | fn next_back | label=range_next_back | rules=SUB(from=Option<Self::Item>;;to=Option<ItemSlice>) SUB(from=match self.start.id() {;;to=match vx_only_in(self.start.id(), ptr) {) SUB(from=Some(start) if ptr.contains(start) => {;;to=VxHit::Hit(start) => {)
    @ret r
    @sig
        requires
            items_ok(old(self).iter.pending()),
            next_back_code_total(old(self).view()),
        ensures
            next_back_code_post(old(self).view(), final(self).view(), r),
    @start
        let ghost s0 = self.iter.pending();
        proof {
            if self.end.id_spec() is Some {
                lemma_rfind_bounds(s0, self.end.id_spec().unwrap());
            }
        }
    @loop 1
        invariant_except_break
            self.state == old(self).state,
            back_inv(s0, self.iter.pending(), curr, self.end),
        invariant
            s0 == old(self).iter.pending(),
            items_ok(s0),
            self.start == old(self).start,
            self.end == old(self).end,
            self.end.id_spec() is Some ==> {
                let e = self.end.id_spec().unwrap();
                &&& -1 <= rfind(s0, e) < s0.len()
                &&& forall|i: int| rfind(s0, e) < i < s0.len() ==> !covers_id(#[trigger] s0[i], e)
                &&& rfind(s0, e) >= 0 ==> covers_id(s0[rfind(s0, e)], e)
            },
        ensures
            back_post(s0, old(self).state, self.end, self.state, self.iter.pending(), curr, end_offset),
        decreases
            self.iter.pending().len() + (if curr is Some { 1int } else { 0int }),
    @before 1 `stmt:let start_offset`
        proof {
            // the block handed out is one of the pending blocks
            if old(self).state == RangeIterState::Opened {
                assert(ptr == s0[back_entry(s0, old(self).end)]);
            } else {
                assert(ptr == s0[s0.len() - 1]);
            }
            assert(item_ok(ptr));
        }
    @*/
}

// ---------------------------------------------------------------------------------------------
// the two boundary-offset computations once more, each lifted on its own (R18 statement regions; same source text), so that an
// edit of one of them fails a contract clause of its own
// ---------------------------------------------------------------------------------------------
// begin: the statements of the arm `Some(start) if ptr.contains(start) => { .. }` in front of its `break;`
/*@extract yrs/src/iter.rs | impl<I> RangeIter<I> where I: Iterator<Item = ItemPtr>, | region begin | stmt=stmt:assign state | stmtnth=2 | upto=stmt:if ~ self.start.assoc | tail=(offset, curr) | label=range_start_offset | rules=SUB(from=self.start.assoc;;to=assoc) SUB(from=self.iter.next();;to=iter.next()) SUB(from=self.state = ;;to=*state = ) SUB(from=self.end.id();;to=end_ix.id())
@header
    fn range_start_offset<I: BlockSeqIter>(iter: &mut I, state: &mut RangeIterState, start: &ID, assoc: Assoc, end_ix: &StickyIndex, ptr: ItemPtr, mut offset: u32, mut curr: Option<ItemPtr>) -> (r: (u32, Option<ItemPtr>))
@sig
    requires
        item_ok(ptr),
        covers_id(ptr, *start),
        curr == Some(ptr),
    ensures
        // the start block opens the range -- or, if the exclusive start is its last unit and it also holds the end anchor, closes it
        *final(state) == (if assoc == Assoc::After && start.clock - ptr.id.clock + 1 == ptr.len && end_ix.id_spec() is Some && covers_id(ptr, end_ix.id_spec().unwrap()) { RangeIterState::Closed } else { RangeIterState::InRange }),
        // inclusive start (Assoc::Before): AT the anchor unit
        assoc == Assoc::Before ==> r.0 == start.clock - ptr.id.clock && r.1 == curr && final(iter).pending() == old(iter).pending(),
        // exclusive start (Assoc::After), anchor not the last unit of its block: directly behind it, in the same block
        assoc == Assoc::After && start.clock - ptr.id.clock + 1 < ptr.len ==> r.0 == start.clock - ptr.id.clock + 1 && r.1 == curr && final(iter).pending() == old(iter).pending(),
        // exclusive start on the LAST unit of its block: offset 0 of the next block -- if there is one, and unless the range ends here
        assoc == Assoc::After && start.clock - ptr.id.clock + 1 == ptr.len ==> r.0 == 0,
        assoc == Assoc::After && start.clock - ptr.id.clock + 1 == ptr.len && end_ix.id_spec() is Some && covers_id(ptr, end_ix.id_spec().unwrap()) ==> r.1 is None && final(iter).pending() == old(iter).pending(),
        assoc == Assoc::After && start.clock - ptr.id.clock + 1 == ptr.len && !(end_ix.id_spec() is Some && covers_id(ptr, end_ix.id_spec().unwrap())) && old(iter).pending().len() > 0 ==> r.1 == Some(old(iter).pending()[0]) && final(iter).pending() == old(iter).pending().skip(1),
        assoc == Assoc::After && start.clock - ptr.id.clock + 1 == ptr.len && !(end_ix.id_spec() is Some && covers_id(ptr, end_ix.id_spec().unwrap())) && old(iter).pending().len() == 0 ==> r.1 is None && final(iter).pending() == old(iter).pending(),
@*/

// next: everything from `let end_offset = ..` on
/*@extract yrs/src/iter.rs | impl<I> Iterator for RangeIter<I> where I: Iterator<Item = ItemPtr>, | region next | stmt=stmt:let end_offset | stmtnth=1 | toend=1 | label=range_end_cut | rules=SUB(from=match self.end.id() {;;to=match vx_only_in(end_ix.id(), ptr) {) SUB(from=Some(end) if ptr.contains(end) => {;;to=VxHit::Hit(end) => {) SUB(from=self.end.assoc;;to=end_ix.assoc) SUB(from=self.state = ;;to=*state = )
@header
    fn range_end_cut(end_ix: &StickyIndex, state: &mut RangeIterState, ptr: ItemPtr, start_offset: u32) -> (r: Option<ItemSlice>)
@sig
    requires
        item_ok(ptr),
        start_offset < ptr.len,
    ensures
        r == cut_slice(ptr, end_cut(ptr, start_offset as int, *end_ix)),
        *final(state) == (if end_cut(ptr, start_offset as int, *end_ix).closes { RangeIterState::Closed } else { *old(state) }),
@*/

// ---------------------------------------------------------------------------------------------
// FINDING Q2 (REPAIRED).  Which boundaries can `Quotable::quote` produce?  It walks to the start index, then on to the end index
// with `remaining = end_index - start_index + remaining;` -- a u32 subtraction.  `quote` takes ANY `RangeBounds<u32>`; before the
// repair an inverted (= empty) range such as `3..=2` or `3..1` panicked here in a debug build, and a release build wrapped
// around and RETURNED a quotation whose end anchor lies IN FRONT of its start anchor (outside `dom`), whose insertion panicked in
// Store::materialize.  Now an end index below the start index is refused with QuoteError::OutOfBounds.  The guard and the
// statement are lifted together (R18 statement region); the only precondition is the one the context establishes (`remaining` is
// what is left of `start_index` after whole blocks have been subtracted).  `Ok(r)` = the statement was reached, r = the new
// `remaining`.
// ---------------------------------------------------------------------------------------------
/// STAND-IN for `weak::QuoteError` (same single variant; the real enum carries thiserror's `#[error(..)]` helper attribute,
/// which does not resolve without the derive)
pub enum QuoteError {
    OutOfBounds,
}

/*@extract yrs/src/types/weak.rs | trait Quotable: AsRef<Branch> + Sized | region quote | stmt=stmt:if ~ OutOfBounds | stmtnth=1 | upto=stmt:assign remaining ~ end_index | tail=Ok(remaining) | label=quote_end_remaining
@header
    fn quote_end_remaining(start_index: u32, end_index: u32, mut remaining: u32) -> (r: Result<u32, QuoteError>)
@sig
    requires
        remaining <= start_index,
    ensures
        // TOTAL on every pair of indexes: an inverted range is an error, never an underflow
        end_index < start_index ==> r is Err && r->Err_0 is OutOfBounds,
        end_index >= start_index ==> r is Ok && r->Ok_0 == end_index - start_index + remaining,
@*/

// =============================================================================================
// PART Q -- the index-to-anchor walk of `Quotable::quote` (yrs/src/types/weak.rs) over the item chain `this.start.to_iter()`
// =============================================================================================
impl ItemFlags {
    pub open spec fn deleted_spec(&self) -> bool {
        self.0 & 0b0000_0100 == 0b0000_0100
    }

    pub open spec fn countable_spec(&self) -> bool {
        self.0 & 0b0000_0010 == 0b0000_0010
    }

    /*@extract yrs/src/block.rs | impl ItemFlags | fn check | label=flags_check
    @ret r
    @sig
        ensures r == (self.0 & value == value),
    @*/

    /*@extract yrs/src/block.rs | impl ItemFlags | fn is_deleted | label=flags_is_deleted
    @ret r
    @sig
        ensures r == self.deleted_spec(),
    @*/

    /*@extract yrs/src/block.rs | impl ItemFlags | fn is_countable | label=flags_is_countable
    @ret r
    @sig
        ensures r == self.countable_spec(),
    @*/
}

/// a VISIBLE element: not a tombstone and of a countable content kind (what indexes count)
pub open spec fn vis(p: &Item) -> bool {
    !p.info.deleted_spec() && p.info.countable_spec()
}

/// `content_len(kind)`: the number of INDEX units of the item
pub open spec fn clen(p: &Item, kind: OffsetKind) -> int {
    p.content.len_spec(kind) as int
}

pub open spec fn units(p: &Item, kind: OffsetKind) -> int {
    if vis(p) { clen(p, kind) } else { 0 }
}

impl Item {
    /*@extract yrs/src/block.rs | impl Item | fn is_deleted | label=item_is_deleted
    @ret r
    @sig
        ensures r == self.info.deleted_spec(),
    @*/

    /*@extract yrs/src/block.rs | impl Item | fn is_countable | label=item_is_countable
    @ret r
    @sig
        ensures r == self.info.countable_spec(),
    @*/

    /*@extract yrs/src/block.rs | impl Item | fn content_len | label=item_content_len
    @ret r
    @sig
        ensures r == clen(self, kind),
    @*/
}

/// the items reachable through `.right`, nearest first (A5: the chain is finite -- an immutable value of this type IS one)
pub open spec fn chain(n: Option<ItemPtr>) -> Seq<ItemPtr>
    decreases n,
{
    match n {
        None => Seq::empty(),
        Some(p) => seq![p] + chain(p.right),
    }
}

impl BlockIter {
    // real: `impl Iterator for BlockIter` (`curr.as_deref()` on the lowered pointer is the identity: SUB, logged)
    /*@extract yrs/src/iter.rs | impl Iterator for BlockIter | fn next | label=block_iter_next | rules=SUB(from=Option<Self::Item>;;to=Option<ItemPtr>) SUB(from=.as_deref();;to=)
    @ret r
    @sig
        ensures
            r == old(self).0,
            chain(old(self).0).len() == 0 ==> r is None && chain(final(self).0) == chain(old(self).0),
            chain(old(self).0).len() > 0 ==> r == Some(chain(old(self).0)[0]) && chain(final(self).0) == chain(old(self).0).skip(1),
    @start
        proof {
            match self.0 {
                Some(p) => {
                    assert(chain(self.0).skip(1) =~= chain(p.right));
                },
                None => {},
            }
        }
    @*/
}

/// the REAL `BlockIter` meets the contract of the stand-in `BlockSeqIter` under which `RangeIter` is verified (in particular it
/// is fused)
impl BlockSeqIter for BlockIter {
    open spec fn pending(&self) -> Seq<ItemPtr> {
        chain(self.0)
    }

    fn next(&mut self) -> (r: Option<ItemPtr>) {
        BlockIter::next(self)
    }
}

/// shift a walk result by `k` items
pub open spec fn lift(k: int, w: Option<(int, int)>) -> Option<(int, int)> {
    match w {
        Some((j, r)) => Some((k + j, r)),
        None => None,
    }
}

/// what BOTH loops of `quote` compute for the index `r` on the chain `c`: (index of the item the loop stops at, what is left of
/// `r`); None = the chain is exhausted.  This IS "the element at index r": invisible items are passed, the first visible item with
/// r < content_len holds it at (index-unit) offset r
pub open spec fn end_walk(c: Seq<ItemPtr>, r: int, kind: OffsetKind) -> Option<(int, int)>
    decreases c.len(),
{
    if c.len() == 0 {
        None
    } else if vis(c[0]) && r < clen(c[0], kind) {
        Some((0, r))
    } else {
        lift(1, end_walk(c.skip(1), r - units(c[0], kind), kind))
    }
}

/// |V|: the number of visible index units of the chain (`len()` of the collection)
pub open spec fn vlen(c: Seq<ItemPtr>, kind: OffsetKind) -> int
    decreases c.len(),
{
    if c.len() == 0 { 0 } else { units(c[0], kind) + vlen(c.skip(1), kind) }
}

/// visible index units in front of item `k`
pub open spec fn vsum(c: Seq<ItemPtr>, k: int, kind: OffsetKind) -> int
    decreases k,
{
    if k <= 0 { 0 } else { vsum(c, k - 1, kind) + units(c[k - 1], kind) }
}

/// the CLOCK offset `quote` adds to the item's id for the index-unit offset `r`
pub open spec fn clock_off(p: &Item, r: int, kind: OffsetKind) -> int {
    match p.content {
        ItemContent::String(s) => s.block_offset_spec(r as u32, kind) as int,
        ItemContent::Other(_) => r,
    }
}

pub open spec fn anchor_id(p: &Item, r: int, kind: OffsetKind) -> ID {
    ID { client: p.id.client, clock: (p.id.clock + clock_off(p, r, kind)) as u32 }
}

/// ASSUMPTIONS about an item of the chain (see the table at the top): A-CLK; `len` is the UTF-16 length of the content
/// (`Item::new`); a visible item has at least one index unit; A-BO: the clock offset of an index offset inside the item lies
/// inside the item (DERIVED for UTF-16 documents and for non-string content: `lemma_walk_item_ok`; an assumption about
/// `block_offset` for strings in Bytes documents)
pub open spec fn walk_item_ok(p: &Item, kind: OffsetKind) -> bool {
    &&& item_ok(p)
    &&& p.len == p.content.len_spec(OffsetKind::Utf16)
    &&& vis(p) ==> clen(p, kind) >= 1
    &&& forall|r: int| 0 <= r < clen(p, kind) ==> 0 <= #[trigger] clock_off(p, r, kind) < p.len
}

pub open spec fn walk_ok(c: Seq<ItemPtr>, kind: OffsetKind) -> bool {
    forall|i: int| 0 <= i < c.len() ==> walk_item_ok(#[trigger] c[i], kind)
}

pub proof fn lemma_walk_item_ok(p: &Item, kind: OffsetKind)
    requires
        item_ok(p),
        p.len == p.content.len_spec(OffsetKind::Utf16),
        vis(p) ==> clen(p, kind) >= 1,
        kind == OffsetKind::Utf16 || p.content is Other,
    ensures
        walk_item_ok(p, kind),
        forall|r: int| 0 <= r < clen(p, kind) ==> #[trigger] clock_off(p, r, kind) == r,
{
}

/// THE PROPERTY for one bound ("the quotation's boundary elements are the elements at the given indices"): the result is the
/// anchor of V[n] -- the id of the clock unit `clock_off` assigns to it inside the item holding it --, an error iff n >= |V|
pub open spec fn anchors_unit(c: Seq<ItemPtr>, n: int, kind: OffsetKind, r: Result<ID, QuoteError>) -> bool {
    match end_walk(c, n, kind) {
        Some((k, o)) => r is Ok && r->Ok_0 == anchor_id(c[k], o, kind),
        None => r is Err,
    }
}

pub proof fn lemma_walk_bounds(c: Seq<ItemPtr>, n: int, kind: OffsetKind)
    requires
        walk_ok(c, kind),
        0 <= n,
    ensures
        // "the element at index n": a VISIBLE item, the offset inside it, and exactly n visible units in front of it
        match end_walk(c, n, kind) {
            Some((k, r)) => 0 <= k < c.len() && vis(c[k]) && 0 <= r < clen(c[k], kind) && vsum(c, k, kind) + r == n,
            None => true,
        },
        // an error exactly for n >= |V| ("that index still needs to point to existing value")
        end_walk(c, n, kind) is None <==> n >= vlen(c, kind),
        vlen(c, kind) >= 0,
    decreases c.len(),
{
    if c.len() > 0 {
        let t = c.skip(1);
        assert forall|i: int| 0 <= i < t.len() implies walk_item_ok(#[trigger] t[i], kind) by {
            assert(t[i] == c[i + 1]);
        }
        assert(walk_item_ok(c[0], kind));
        let m = n - units(c[0], kind);
        if m >= 0 {
            lemma_walk_bounds(t, m, kind);
            lemma_vsum_shift(c, kind);
            match end_walk(t, m, kind) {
                Some((k, r)) => { assert(t[k] == c[k + 1]); },
                None => {},
            }
        } else {
            lemma_walk_bounds(t, 0, kind);
        }
    }
}

pub proof fn lemma_vsum_shift(c: Seq<ItemPtr>, kind: OffsetKind)
    requires
        c.len() > 0,
    ensures
        forall|k: int| 0 <= k < c.len() ==> #[trigger] vsum(c, k + 1, kind) == units(c[0], kind) + vsum(c.skip(1), k, kind),
{
    assert forall|k: int| 0 <= k < c.len() implies #[trigger] vsum(c, k + 1, kind) == units(c[0], kind) + vsum(c.skip(1), k, kind) by {
        lemma_vsum_shift_k(c, k, kind);
    }
}

pub proof fn lemma_vsum_shift_k(c: Seq<ItemPtr>, k: int, kind: OffsetKind)
    requires
        c.len() > 0,
        0 <= k < c.len(),
    ensures
        vsum(c, k + 1, kind) == units(c[0], kind) + vsum(c.skip(1), k, kind),
    decreases k,
{
    if k > 0 {
        lemma_vsum_shift_k(c, k - 1, kind);
        assert(c.skip(1)[k - 1] == c[k]);
    } else {
        assert(vsum(c, 0, kind) == 0);
    }
}

/// the second loop starts where the first one stopped (item `k`, `r` units into it) and looks for the index e >= s RELATIVE to
/// the beginning of that item: it finds the element at index e of the whole chain
pub proof fn lemma_end_walk_from(c: Seq<ItemPtr>, k: int, e: int, kind: OffsetKind)
    requires
        walk_ok(c, kind),
        0 <= k <= c.len(),
        vsum(c, k, kind) <= e,
    ensures
        end_walk(c, e, kind) == lift(k, end_walk(c.skip(k), e - vsum(c, k, kind), kind)),
    decreases k,
{
    if k == 0 {
        assert(c.skip(0) =~= c);
        match end_walk(c, e, kind) { Some((j, r)) => {}, None => {} }
    } else {
        let t = c.skip(1);
        assert(walk_item_ok(c[0], kind));
        assert forall|i: int| 0 <= i < t.len() implies walk_item_ok(#[trigger] t[i], kind) by {
            assert(t[i] == c[i + 1]);
        }
        lemma_vsum_shift(c, kind);
        assert(vsum(c, k, kind) == units(c[0], kind) + vsum(t, k - 1, kind));
        lemma_vsum_nonneg(t, k - 1, kind);
        // the first item lies completely in front of index e
        assert(!(vis(c[0]) && e < clen(c[0], kind)));
        lemma_end_walk_from(t, k - 1, e - units(c[0], kind), kind);
        assert(t.skip(k - 1) =~= c.skip(k));
        match end_walk(t.skip(k - 1), e - vsum(c, k, kind), kind) { Some((j, r)) => {}, None => {} }
    }
}

pub proof fn lemma_vsum_nonneg(c: Seq<ItemPtr>, k: int, kind: OffsetKind)
    requires
        walk_ok(c, kind),
        0 <= k <= c.len(),
    ensures
        vsum(c, k, kind) >= 0,
    decreases k,
{
    if k > 0 {
        lemma_vsum_nonneg(c, k - 1, kind);
        assert(walk_item_ok(c[k - 1], kind));
    }
}

// ---- composing the two walks the way `quote` does, and `quote` with `RangeIter` ------------------------------------------
pub proof fn lemma_vsum_mono(c: Seq<ItemPtr>, i: int, j: int, kind: OffsetKind)
    requires
        walk_ok(c, kind),
        0 <= i <= j <= c.len(),
    ensures
        0 <= vsum(c, i, kind) <= vsum(c, j, kind),
    decreases j - i,
{
    lemma_vsum_nonneg(c, i, kind);
    if i < j {
        lemma_vsum_mono(c, i, j - 1, kind);
        assert(walk_item_ok(c[j - 1], kind));
    }
}

/// the elements at two indexes n1 <= n2 stand in that order: an earlier item, or the same item at a smaller-or-equal offset
pub proof fn lemma_unit_order(c: Seq<ItemPtr>, n1: int, n2: int, kind: OffsetKind)
    requires
        walk_ok(c, kind),
        0 <= n1 <= n2,
        end_walk(c, n1, kind) is Some,
        end_walk(c, n2, kind) is Some,
    ensures
        ({
            let (k1, o1) = end_walk(c, n1, kind).unwrap();
            let (k2, o2) = end_walk(c, n2, kind).unwrap();
            k1 < k2 || (k1 == k2 && o1 <= o2)
        }),
{
    lemma_walk_bounds(c, n1, kind);
    lemma_walk_bounds(c, n2, kind);
    let (k1, o1) = end_walk(c, n1, kind).unwrap();
    let (k2, o2) = end_walk(c, n2, kind).unwrap();
    if k1 > k2 {
        lemma_vsum_mono(c, k2 + 1, k1, kind);
        assert(vsum(c, k2 + 1, kind) == vsum(c, k2, kind) + units(c[k2], kind));
    }
}

/// THE TWO WALKS TOGETHER (the data flow of `quote`: the second walk gets `curr` / `remaining` / the iterator of the first).
/// For a start index s and an end index e >= s, on EVERY layout of the chain: the start anchor is the element at index s, the
/// END anchor is the element at index e of the whole chain; OutOfBounds iff there is no such element (s >= |V| resp. e >= |V|)
pub proof fn theorem_quote_anchors(c: Seq<ItemPtr>, s: int, e: int, kind: OffsetKind)
    requires
        walk_ok(c, kind),
        0 <= s <= e,
    ensures
        end_walk(c, s, kind) is None <==> s >= vlen(c, kind),
        end_walk(c, e, kind) is None <==> e >= vlen(c, kind),
        match end_walk(c, s, kind) {
            // (the first walk ran off the chain: s >= |V|, so e >= |V| as well)
            None => end_walk(c, e, kind) is None,
            Some((k, r)) => {
                // what the second walk returns, on the chain `walk_chain(Some(c[k]), c.skip(k + 1))`, for the target e - s + r ...
                &&& walk_chain(Some(c[k]), c.skip(k + 1)) == c.skip(k)
                &&& 0 <= r <= s
                // ... is the element at index e of the WHOLE chain
                &&& lift(k, end_walk(c.skip(k), e - s + r, kind)) == end_walk(c, e, kind)
            },
        },
{
    lemma_walk_bounds(c, s, kind);
    lemma_walk_bounds(c, e, kind);
    match end_walk(c, s, kind) {
        None => {},
        Some((k, r)) => {
            assert(seq![c[k]] + c.skip(k + 1) =~= c.skip(k));
            lemma_vsum_nonneg(c, k, kind);
            lemma_end_walk_from(c, k, e, kind);
        },
    }
}

/// in documents / for contents whose index units ARE clock units (every UTF-16 document; non-string content in any document:
/// `lemma_walk_item_ok`)
pub open spec fn unit_is_clock(c: Seq<ItemPtr>, kind: OffsetKind) -> bool {
    &&& forall|i: int, r: int| 0 <= i < c.len() && 0 <= r < clen(c[i], kind) ==> #[trigger] clock_off(c[i], r, kind) == r
    &&& forall|i: int| 0 <= i < c.len() && vis(#[trigger] c[i]) ==> clen(c[i], kind) == c[i].len
}

pub proof fn lemma_anchor_find(c: Seq<ItemPtr>, k: int, id: ID)
    requires
        disjoint(c),
        0 <= k < c.len(),
        covers_id(c[k], id),
    ensures
        occurs(c, id),
        find(c, id) == k,
{
    lemma_find_bounds(c, id);
    let f = find(c, id);
    if f < k {
        assert(covers_id(c[f], id));
        assert(!covers_id(c[k], id));
    }
}

pub proof fn lemma_pos_same_block(c: Seq<ItemPtr>, a: ID, e: ID)
    requires
        items_ok(c),
        occurs(c, a),
        occurs(c, e),
        find(c, a) == find(c, e),
    ensures
        pos(c, a) - pos(c, e) == a.clock - e.clock,
    decreases c.len(),
{
    lemma_find_bounds(c, a);
    lemma_find_bounds(c, e);
    lemma_pos_bounds(c, a);
    lemma_pos_bounds(c, e);
    if c.len() > 0 && !covers_id(c[0], a) {
        assert(!covers_id(c[0], e));
        lemma_items_ok_skip(c, 1);
        lemma_pos_same_block(c.skip(1), a, e);
    }
}

// ---- "the caller filters": the VISIBLE units of a segment of S ------------------------------------------------------------
pub open spec fn clamp(x: int, lo: int, hi: int) -> int {
    if x < lo { lo } else if x > hi { hi } else { x }
}

/// V in clock units: the unit ids of the visible items, in order
pub open spec fn vflat(c: Seq<ItemPtr>) -> Seq<ID>
    decreases c.len(),
{
    if c.len() == 0 {
        Seq::empty()
    } else {
        (if vis(c[0]) { block_ids(c[0]) } else { Seq::empty() }) + vflat(c.skip(1))
    }
}

/// number of visible units among the first `a` units of S
pub open spec fn vcount(c: Seq<ItemPtr>, a: int) -> int
    decreases c.len(),
{
    if c.len() == 0 {
        0
    } else {
        (if vis(c[0]) { clamp(a, 0, c[0].len as int) } else { 0 }) + vcount(c.skip(1), a - c[0].len)
    }
}

/// the visible units of S[a .. b): what a consumer that skips tombstones / non-countable items (`Values`) keeps of the segment
pub open spec fn vpart(c: Seq<ItemPtr>, a: int, b: int) -> Seq<ID>
    decreases c.len(),
{
    if c.len() == 0 {
        Seq::empty()
    } else {
        (if vis(c[0]) { ids_of(c[0], clamp(a, 0, c[0].len as int), clamp(b, 0, c[0].len as int) - 1) } else { Seq::empty() })
            + vpart(c.skip(1), a - c[0].len, b - c[0].len)
    }
}

pub proof fn lemma_vcount_bounds(c: Seq<ItemPtr>, a: int, b: int)
    requires
        items_ok(c),
        a <= b,
    ensures
        0 <= vcount(c, a) <= vcount(c, b) <= vflat(c).len(),
        a <= 0 ==> vcount(c, a) == 0,
    decreases c.len(),
{
    if c.len() > 0 {
        assert(item_ok(c[0]));
        lemma_items_ok_skip(c, 1);
        lemma_vcount_bounds(c.skip(1), a - c[0].len, b - c[0].len);
        assert(block_ids(c[0]).len() == c[0].len);
    }
}

/// the visible units of S[a .. b) are V[vcount(a) .. vcount(b))
pub proof fn lemma_vpart(c: Seq<ItemPtr>, a: int, b: int)
    requires
        items_ok(c),
        a <= b,
    ensures
        vpart(c, a, b) == vflat(c).subrange(vcount(c, a), vcount(c, b)),
    decreases c.len(),
{
    lemma_vcount_bounds(c, a, b);
    if c.len() == 0 {
        assert(vpart(c, a, b) =~= vflat(c).subrange(0, 0));
    } else {
        let p = c[0];
        let t = c.skip(1);
        let l = p.len as int;
        assert(item_ok(p));
        lemma_items_ok_skip(c, 1);
        lemma_vpart(t, a - l, b - l);
        lemma_vcount_bounds(t, a - l, b - l);
        lemma_vcount_bounds(t, b - l, b - l);
        let h = if vis(p) { block_ids(p) } else { Seq::<ID>::empty() };
        assert(block_ids(p).len() == l);
        let ca = if vis(p) { clamp(a, 0, l) } else { 0 };
        let cb = if vis(p) { clamp(b, 0, l) } else { 0 };
        let x = vcount(t, a - l);
        let y = vcount(t, b - l);
        // a position inside the first block has nothing of the others in front of it; one behind it has all of the first block
        assert(a < l ==> x == 0);
        assert(b < l ==> y == 0);
        assert(a >= l ==> ca == h.len());
        assert(b >= l ==> cb == h.len());
        assert(vpart(c, a, b) =~= (h + vflat(t)).subrange(ca + x, cb + y));
    }
}

/// the unit at offset o (or, d = 1, the position directly behind it) of a visible item k has vsum(k) + o (+ d) visible units in
/// front of it
pub proof fn lemma_vcount_at(c: Seq<ItemPtr>, k: int, id: ID, d: int, kind: OffsetKind)
    requires
        walk_ok(c, kind),
        disjoint(c),
        forall|i: int| 0 <= i < c.len() && vis(#[trigger] c[i]) ==> clen(c[i], kind) == c[i].len,
        0 <= k < c.len(),
        vis(c[k]),
        covers_id(c[k], id),
        d == 0 || d == 1,
    ensures
        vcount(c, pos(c, id) + d) == vsum(c, k, kind) + (id.clock - c[k].id.clock) + d,
    decreases c.len(),
{
    let o = id.clock - c[k].id.clock;
    assert(walk_item_ok(c[0], kind));
    let t = c.skip(1);
    assert forall|i: int| 0 <= i < t.len() implies walk_item_ok(#[trigger] t[i], kind) by {
        assert(t[i] == c[i + 1]);
    }
    assert(items_ok(t)) by {
        assert forall|i: int| 0 <= i < t.len() implies item_ok(#[trigger] t[i]) by {
            assert(walk_item_ok(t[i], kind));
        }
    }
    if k == 0 {
        lemma_vcount_bounds(t, o + d - c[0].len, o + d - c[0].len);
        assert(vsum(c, 0, kind) == 0);
    } else {
        // the unit is not in the first item (disjoint)
        assert(!covers_id(c[0], id)) by {
            if covers_id(c[0], id) {
                assert(!covers_id(c[k], id));
            }
        }
        lemma_disjoint_skip(c);
        assert(t[k - 1] == c[k]);
        assert forall|i: int| 0 <= i < t.len() && vis(#[trigger] t[i]) implies clen(t[i], kind) == t[i].len by {
            assert(t[i] == c[i + 1]);
        }
        lemma_vcount_at(t, k - 1, id, d, kind);
        lemma_vsum_shift(c, kind);
        assert(vsum(c, k, kind) == units(c[0], kind) + vsum(t, k - 1, kind));
        // pos(c, id) + d >= len of the first item: all its units are in front
        lemma_anchor_find(t, k - 1, id);
        assert(items_ok(c)) by {
            assert forall|i: int| 0 <= i < c.len() implies item_ok(#[trigger] c[i]) by {
                assert(walk_item_ok(c[i], kind));
            }
        }
        lemma_pos_bounds(c, id);
        lemma_pos_bounds(t, id);
    }
}

/// C20 KERNEL, COMPOSED: `quote(range)` with a start index s and an end index e >= s on the chain `c`, followed -- on the same,
/// unchanged chain -- by a `RangeIter` over `c` with the two anchors, drained: the slices yielded are exactly ALL the clock
/// units of the chain (visible or not: `RangeIter` does not look at tombstones, its consumer `Values` skips them) from the
/// element at index s (behind it for an exclusive start) to the element at index e (in front of it for an exclusive end).
/// Stated for index units that are clock units (`unit_is_clock`); for EVERY layout of the chain.
pub proof fn theorem_quote_then_drain(c: Seq<ItemPtr>, s: int, e: int, kind: OffsetKind, start: StickyIndex, end: StickyIndex, vs: Seq<IterView>, outs: Seq<ItemSlice>)
    requires
        walk_ok(c, kind),
        disjoint(c),
        unit_is_clock(c, kind),
        0 <= s <= e < vlen(c, kind),
        // the anchors `quote` returns (quote_start_walk / quote_end_walk + theorem_quote_anchors)
        start.id_spec() == Some(anchor_id(c[end_walk(c, s, kind).unwrap().0], end_walk(c, s, kind).unwrap().1, kind)),
        end.id_spec() == Some(anchor_id(c[end_walk(c, e, kind).unwrap().0], end_walk(c, e, kind).unwrap().1, kind)),
        vs.len() > 0 && vs[0] == (IterView { s: c, state: RangeIterState::Opened, start: start, end: end }),
        is_trace(vs, outs),
    ensures
        ({
            let (ks, os) = end_walk(c, s, kind).unwrap();
            let (ke, oe) = end_walk(c, e, kind).unwrap();
            let a = start.id_spec().unwrap();
            let b = end.id_spec().unwrap();
            // both boundary elements are VISIBLE elements of the chain, the units at index-offset os / oe of their items ...
            &&& vis(c[ks]) && vis(c[ke]) && a == (ID { client: c[ks].id.client, clock: (c[ks].id.clock + os) as u32 }) && b == (ID { client: c[ke].id.client, clock: (c[ke].id.clock + oe) as u32 })
            &&& vsum(c, ks, kind) + os == s && vsum(c, ke, kind) + oe == e
            // ... they occur in S = flat(c), the start one not behind the end one ...
            &&& occurs(c, a) && occurs(c, b) && flat(c)[pos(c, a)] == a && flat(c)[pos(c, b)] == b && pos(c, a) <= pos(c, b)
            // ... and the drained slices are exactly S from the start element (behind it if exclusive) to the end element (in front
            // of it if exclusive): every slice a non-empty range of one item, in order, no unit twice
            &&& slices_ok(c, outs)
            &&& concat_ids(outs) == seg(c, pos(c, a) + (if start.assoc == Assoc::After { 1int } else { 0int }), pos(c, b) + (if end.assoc == Assoc::After { 1int } else { 0int }))
            &&& concat_ids(outs).no_duplicates()
            // THE CALLER FILTERS: the VISIBLE units among them are exactly V[s ..= e] (V[s + 1 .. / .. e) for exclusive bounds)
            &&& pos(c, a) + (if start.assoc == Assoc::After { 1int } else { 0int }) <= pos(c, b) + (if end.assoc == Assoc::After { 1int } else { 0int }) ==>
                vpart(c, pos(c, a) + (if start.assoc == Assoc::After { 1int } else { 0int }), pos(c, b) + (if end.assoc == Assoc::After { 1int } else { 0int }))
                    == vflat(c).subrange(s + (if start.assoc == Assoc::After { 1int } else { 0int }), e + (if end.assoc == Assoc::After { 1int } else { 0int }))
        }),
{
    lemma_walk_bounds(c, s, kind);
    lemma_walk_bounds(c, e, kind);
    let (ks, os) = end_walk(c, s, kind).unwrap();
    let (ke, oe) = end_walk(c, e, kind).unwrap();
    let a = start.id_spec().unwrap();
    let b = end.id_spec().unwrap();
    assert(walk_item_ok(c[ks], kind) && walk_item_ok(c[ke], kind));
    assert(clock_off(c[ks], os, kind) == os && clock_off(c[ke], oe, kind) == oe);
    assert(items_ok(c)) by {
        assert forall|i: int| 0 <= i < c.len() implies item_ok(#[trigger] c[i]) by {
            assert(walk_item_ok(c[i], kind));
        }
    }
    assert(covers_id(c[ks], a) && covers_id(c[ke], b));
    lemma_anchor_find(c, ks, a);
    lemma_anchor_find(c, ke, b);
    lemma_pos_index(c, a);
    lemma_pos_index(c, b);
    lemma_unit_order(c, s, e, kind);
    if ks < ke {
        lemma_find_mono(c, b, a);
    } else {
        lemma_pos_same_block(c, b, a);
    }
    theorem_quote_range(c, start, end, vs, outs);
    let ds = if start.assoc == Assoc::After { 1int } else { 0int };
    let de = if end.assoc == Assoc::After { 1int } else { 0int };
    lemma_vcount_at(c, ks, a, ds, kind);
    lemma_vcount_at(c, ke, b, de, kind);
    if pos(c, a) + ds <= pos(c, b) + de {
        lemma_vpart(c, pos(c, a) + ds, pos(c, b) + de);
    }
}

/// the chain the second walk runs on: the item the first walk stopped at, followed by what its iterator has not handed out yet
pub open spec fn walk_chain(curr: Option<ItemPtr>, rest: Seq<ItemPtr>) -> Seq<ItemPtr> {
    match curr {
        Some(p) => seq![p] + rest,
        None => Seq::empty(),
    }
}

pub open spec fn walk_inv(c0: Seq<ItemPtr>, rest: Seq<ItemPtr>, curr: Option<ItemPtr>) -> bool {
    let n = c0.len() as int;
    let m = rest.len() as int;
    &&& m <= n
    &&& rest =~= c0.skip(n - m)
    &&& match curr {
        Some(p) => m < n && p == c0[n - m - 1],
        None => m == 0,
    }
}

/// index of the item `curr` in the chain (`c0.len()` if the walk has run off its end)
pub open spec fn walk_at(c0: Seq<ItemPtr>, rest: Seq<ItemPtr>, curr: Option<ItemPtr>) -> int {
    if curr is Some { c0.len() - rest.len() - 1 } else { c0.len() as int }
}

// ---- the real code: the two walks of `Quotable::quote`, lifted (R18 statement regions).  Parameters = the variables of `quote`
// the statements read / write (`i`: the BlockIter over the chain; `curr`, `remaining`, `start_index`: live-in AND live-out);
// `curr.as_deref()` on the lowered pointer is the identity (SUB, logged).
// FIRST WALK (FINDING Q3, repaired): `start_index = start_i; remaining = start_index; curr = i.next(); while .. {..}; let start_id = ..;` (Ok = the
// statements ran through: (start_id, start_index, remaining, curr) as the rest of `quote` sees them)
/*@extract yrs/src/types/weak.rs | trait Quotable: AsRef<Branch> + Sized | region quote | stmt=stmt:assign start_index | stmtnth=1 | upto=stmt:let start_id | tail=Ok((start_id, start_index, remaining, curr)) | label=quote_start_walk | rules=SUB(from=.as_deref();;to=)
@header
    fn quote_start_walk(i: &mut BlockIter, start_i: u32, encoding: OffsetKind, mut start_index: u32, mut remaining: u32, mut curr: Option<ItemPtr>) -> (res: Result<(ID, u32, u32, Option<ItemPtr>), QuoteError>)
@sig
    requires
        walk_ok(chain(old(i).0), encoding),
    ensures
        // THE PROPERTY, for EVERY layout of the chain (FINDING Q3, repaired: the early exit `if remaining == 0 { break; }` made a
        // tombstone / non-countable item in front of the element the anchor): the start anchor is THE ELEMENT AT INDEX `start_i`,
        // OutOfBounds iff there is none ...
        anchors_unit(chain(old(i).0), start_i as int, encoding, match res { Ok(x) => Ok(x.0), Err(e) => Err(e) }),
        // ... i.e. ("that index still needs to point to existing value") iff start_i >= len()
        res is Err <==> start_i >= vlen(chain(old(i).0), encoding),
        res is Err ==> res->Err_0 is OutOfBounds,
        // and what the rest of `quote` sees: the item the walk stopped at, what is left of the index, the rest of the chain
        match end_walk(chain(old(i).0), start_i as int, encoding) {
            Some((k, r)) => res is Ok && res->Ok_0.1 == start_i && res->Ok_0.2 == r && res->Ok_0.3 == Some(chain(old(i).0)[k]) && chain(final(i).0) =~= chain(old(i).0).skip(k + 1),
            None => res is Err,
        },
@start
    let ghost c0 = chain(i.0);
    proof {
        lemma_walk_bounds(c0, start_i as int, encoding);
        assert(c0.skip(0) =~= c0);
    }
@loop 1
    invariant
        c0 == chain(old(i).0),
        walk_ok(c0, encoding),
        start_index == start_i,
        walk_inv(c0, chain(i.0), curr),
        end_walk(c0, start_i as int, encoding) == lift(walk_at(c0, chain(i.0), curr), end_walk(c0.skip(walk_at(c0, chain(i.0), curr)), remaining as int, encoding)),
    ensures
        match curr {
            Some(p) => end_walk(c0, start_i as int, encoding) == Some((walk_at(c0, chain(i.0), curr), remaining as int)),
            None => end_walk(c0, start_i as int, encoding) is None,
        },
    decreases
        chain(i.0).len() + (if curr is Some { 1int } else { 0int }),
@loopstart 1
    let ghost vx_k = walk_at(c0, chain(i.0), curr);
    proof {
        assert(c0.skip(vx_k)[0] == c0[vx_k]);
        assert(c0.skip(vx_k).skip(1) =~= c0.skip(vx_k + 1));
        assert(walk_item_ok(c0[vx_k], encoding));
    }
@before 1 `stmt:let start_id`
    proof {
        if curr is Some {
            let k = walk_at(c0, chain(i.0), curr);
            assert(walk_item_ok(c0[k], encoding));
            assert(0 <= clock_off(c0[k], remaining as int, encoding) < c0[k].len);
        }
    }
@*/

// SECOND WALK: the guard (FINDING Q2, repaired), `remaining = end_index - start_index + remaining; while .. {..}; let end_id = ..;`
// on the chain that begins with the item the first walk stopped at
/*@extract yrs/src/types/weak.rs | trait Quotable: AsRef<Branch> + Sized | region quote | stmt=stmt:if ~ OutOfBounds | stmtnth=1 | upto=stmt:let end_id | tail=Ok(end_id) | label=quote_end_walk | rules=SUB(from=.as_deref();;to=)
@header
    fn quote_end_walk(i: &mut BlockIter, start_index: u32, end_index: u32, encoding: OffsetKind, mut remaining: u32, mut curr: Option<ItemPtr>) -> (res: Result<ID, QuoteError>)
@sig
    requires
        remaining <= start_index,
        walk_ok(chain(old(i).0), encoding),
        curr is Some ==> walk_item_ok(curr.unwrap(), encoding),
        // (the iterator is fused: nothing follows a None)
        curr is None ==> chain(old(i).0).len() == 0,
    ensures
        // an inverted range is refused; otherwise the element at index (end_index - start_index + remaining) of the chain that
        // begins with `curr`, OutOfBounds iff there is none
        end_index < start_index ==> res is Err && res->Err_0 is OutOfBounds,
        end_index >= start_index ==> anchors_unit(walk_chain(curr, chain(old(i).0)), end_index - start_index + remaining, encoding, res),
        res is Err ==> res->Err_0 is OutOfBounds,
@start
    let ghost c0 = walk_chain(curr, chain(i.0));
    let ghost n0: int = end_index as int - start_index as int + remaining as int;
    proof {
        assert(c0.skip(0) =~= c0);
        if curr is Some {
            assert(c0.skip(1) =~= chain(i.0));
        }
        assert forall|j: int| 0 <= j < c0.len() implies walk_item_ok(#[trigger] c0[j], encoding) by {
            if curr is Some && j > 0 {
                assert(c0[j] == chain(i.0)[j - 1]);
            }
        }
    }
@loop 1
    invariant
        end_index >= start_index,
        walk_ok(c0, encoding),
        walk_inv(c0, chain(i.0), curr),
        end_walk(c0, n0, encoding) == lift(walk_at(c0, chain(i.0), curr), end_walk(c0.skip(walk_at(c0, chain(i.0), curr)), remaining as int, encoding)),
    ensures
        match curr {
            Some(p) => end_walk(c0, n0, encoding) == Some((walk_at(c0, chain(i.0), curr), remaining as int)),
            None => end_walk(c0, n0, encoding) is None,
        },
    decreases
        chain(i.0).len() + (if curr is Some { 1int } else { 0int }),
@loopstart 1
    let ghost vx_k = walk_at(c0, chain(i.0), curr);
    proof {
        assert(c0.skip(vx_k)[0] == c0[vx_k]);
        assert(c0.skip(vx_k).skip(1) =~= c0.skip(vx_k + 1));
        assert(walk_item_ok(c0[vx_k], encoding));
    }
@before 1 `stmt:let end_id`
    proof {
        lemma_walk_bounds(c0, n0, encoding);
        if curr is Some {
            let k = walk_at(c0, chain(i.0), curr);
            assert(walk_item_ok(c0[k], encoding));
            assert(0 <= clock_off(c0[k], remaining as int, encoding) < c0[k].len);
        }
    }
@*/

// ---- the bodies of the two loops once more, each lifted on its own (R18 statement regions; `break` is spelled `return (remaining,
// true)`: SUB, logged), so that an edit of a loop body fails a contract clause of real code and not only the loop invariant
// spliced into the walks above.  Result: (the new `remaining`, the loop is left).
/*@extract yrs/src/types/weak.rs | trait Quotable: AsRef<Branch> + Sized | region quote | stmt=stmt:while #1 >> stmt:if | stmtnth=1 | tail=(remaining, false) | label=quote_start_step | rules=SUB(from=break;;to=return (remaining, true))
@header
    fn quote_start_step(item: &Item, encoding: OffsetKind, mut remaining: u32) -> (r: (u32, bool))
@sig
    ensures
        // a visible item that holds the index: stop
        vis(item) && remaining < clen(item, encoding) ==> r == (remaining, true),
        // a visible item in front of the index: its units are consumed; an invisible item (tombstone / non-countable): passed --
        // ALSO when nothing is left of the index (FINDING Q3, repaired)
        !(vis(item) && remaining < clen(item, encoding)) ==> r.0 == remaining - units(item, encoding) && !r.1,
@*/

/*@extract yrs/src/types/weak.rs | trait Quotable: AsRef<Branch> + Sized | region quote | stmt=stmt:while #2 >> stmt:if | stmtnth=1 | tail=(remaining, false) | label=quote_end_step | rules=SUB(from=break;;to=return (remaining, true))
@header
    fn quote_end_step(item: &Item, encoding: OffsetKind, mut remaining: u32) -> (r: (u32, bool))
@sig
    ensures
        // a visible item that holds the index: stop
        vis(item) && remaining < clen(item, encoding) ==> r == (remaining, true),
        // a visible item in front of the index: its units are consumed; an invisible item (tombstone / non-countable): passed
        !(vis(item) && remaining < clen(item, encoding)) ==> r.0 == remaining - units(item, encoding) && !r.1,
@*/

} // verus!
fn main() {}
