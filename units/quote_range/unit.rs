// unit `quote_range` -- skeleton
#![allow(unused_imports, unused_variables, unused_mut, dead_code, unused_parens, unused_braces, unused_assignments)]
use vstd::prelude::*;

verus! {

/*@rules R9 R10
   SUB(from=Arc<str>;;to=Str)
@*/

pub mod vx_base {
    use vstd::prelude::*;
    use core::ops::Range;
/*@include vx/prelude.rs @*/
}
use vx_base::vx_unreachable;

#[derive(PartialEq, Eq, Structural, Clone, Copy)]
pub struct Str(pub u64);

#[derive(PartialEq, Eq, Structural, Clone, Copy)]
pub struct ClientID(pub u64);

#[derive(Copy, Clone, PartialEq, Eq, Structural)]
/*@extract yrs/src/block.rs | - | struct ID @*/

#[derive(Copy, Clone, PartialEq, Eq, Structural)]
/*@extract yrs/src/sticky_index.rs | - | enum Assoc @*/

/*@extract yrs/src/sticky_index.rs | - | enum IndexScope @*/

/*@extract yrs/src/sticky_index.rs | - | struct StickyIndex | rules=SUB(from=scope: IndexScope;;to=pub scope: IndexScope) @*/

pub struct Item {
    pub id: ID,
    pub len: u32,
}

pub type ItemPtr = &'static Item;

/*@extract yrs/src/slice.rs | - | struct ItemSlice @*/

#[derive(Copy, Clone, PartialEq, Eq, Structural)]
/*@extract yrs/src/iter.rs | - | enum RangeIterState @*/

/*@extract yrs/src/iter.rs | - | struct RangeIter @*/

impl Item {
    /*@extract yrs/src/block.rs | impl Item | fn id | label=item_id
    @ret r
    @sig
        ensures *r == self.id,
    @*/

    /*@extract yrs/src/block.rs | impl Item | fn len | label=item_len
    @ret r
    @sig
        ensures r == self.len,
    @*/

    /*@extract yrs/src/block.rs | impl Item | fn contains | label=item_contains
    @ret r
    @sig
        requires self.id.clock + self.len <= u32::MAX,
        ensures r == (self.id.client == id.client && self.id.clock <= id.clock < self.id.clock + self.len),
    @*/
}

impl ItemSlice {
    /*@extract yrs/src/slice.rs | impl ItemSlice | fn new | label=slice_new
    @ret r
    @sig
        requires start <= end,
        ensures r.ptr == ptr, r.start == start, r.end == end,
    @*/
}

impl StickyIndex {
    /*@extract yrs/src/sticky_index.rs | impl StickyIndex | fn id | label=sticky_id
    @ret r
    @sig
        ensures
            r == (match self.scope { IndexScope::Relative(id) => Some(&id), _ => None }),
    @*/
}

pub trait BlockSeqIter {
    spec fn pending(&self) -> Seq<ItemPtr>;

    fn next(&mut self) -> (r: Option<ItemPtr>)
        ensures
            old(self).pending().len() == 0 ==> r is None && final(self).pending() == old(self).pending(),
            old(self).pending().len() > 0 ==> r == Some(old(self).pending()[0]) && final(self).pending() == old(self).pending().skip(1),
    ;
}

impl<I: BlockSeqIter> RangeIter<I> {
    /*@extract yrs/src/iter.rs | impl<I> RangeIter<I> where I: Iterator<Item = ItemPtr>, | fn new | label=range_new
    @ret r
    @sig
        ensures r.iter == iter, r.start == start, r.end == end, r.state == RangeIterState::Opened,
    @*/

    /*@extract yrs/src/iter.rs | impl<I> RangeIter<I> where I: Iterator<Item = ItemPtr>, | fn begin | label=range_begin
    @ret r
    @sig
        requires
            forall|i: int| 0 <= i < old(self).iter.pending().len() ==> (#[trigger] old(self).iter.pending()[i]).id.clock + old(self).iter.pending()[i].len <= u32::MAX,
    @*/
}

} // verus!
fn main() {}
