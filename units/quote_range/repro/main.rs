// Reproducer for unit `quote_range` (C20 kernel: yrs/src/iter.rs RangeIter::{begin, next}), public API only, feature `weak`.
//
// FINDING Q1: a quotation with an EXCLUSIVE start bound and an end bound anchored at the SAME element -- the empty ranges
//   (Bound::Excluded(i), Bound::Included(i))  and  (Bound::Excluded(i), Bound::Excluded(i)) --
// is accepted by `Quotable::quote` (start = (id_i, Assoc::After), end = (id_i, Assoc::After | Assoc::Before)) but `RangeIter`
//   * panics (debug: `debug_assert!(start <= end)` in ItemSlice::new, or `offset -= 1` underflow) / yields an inverted or
//     wrapped slice (release) when element i is NOT the last unit of its block;
//   * yields EVERYTHING from element i + 1 to the end of the collection when element i IS the last unit of its block
//     (`begin` moves on to the next block, the end block is never seen again).
// Expected in all cases: the empty sequence.
//
// FINDING Q2 (`Quotable::quote`, obligation quote_end_remaining::overflow): `end_index - start_index` is an unchecked u32
//   subtraction; an inverted (= empty) range such as 3..=2 or 3..1 panics in debug builds; a release build wraps and returns a
//   quotation whose end lies in front of its start, inserting it panics in Store::materialize.
//
// OBSERVATION O3 (outside the unit, `LinkSource::materialize`): it starts its RangeIter at `quote_start.get_item()`, which for an
//   exclusive start on the LAST unit of a block is the NEXT block; `RangeIter::begin` then never meets the start anchor, nothing is
//   yielded and no item is marked as linked: the link dereferences correctly but never fires an event.
//
// FINDING Q3 (`Quotable::quote`, first walk; REPAIRED by repair_q3.diff -- after it Q3a: c, Q3b: b,c, Q3c: b,c, Q3d: Err; the cases
//   are kept as a record): the start anchor is taken from the item
//   at which the index is used up (`if remaining == 0 { break; }`), even if that item is a tombstone standing in front of the
//   element at the index: an exclusive start then INCLUDES the element it should exclude; an inclusive start lets a concurrent
//   insert between the tombstone and the first element into the quotation; `quote(len..)` is Ok when a tombstone trails.
// OBSERVATION Q4 (`SplittableString::block_offset`, OffsetKind::Bytes): an index inside a multi-byte character underflows
//   `remaining -= c.len_utf8()` (block.rs:1629).
//
// AFTER units/quote_range/repair.diff (checked on a patched copy): every Q1 case dereferences to the empty sequence, the Q2 cases
//   return Err(QuoteError::OutOfBounds), the controls and O3 are unchanged.
//
// Cargo.toml:  [dependencies] yrs = { path = "/repo/yrs", features = ["weak"] }
// run:         CARGO_NET_OFFLINE=true cargo run --offline [--release]
use std::ops::{Bound, RangeBounds};
use std::panic::{catch_unwind, AssertUnwindSafe};
use std::sync::atomic::{AtomicU32, Ordering};
use std::sync::Arc;
use yrs::updates::decoder::Decode;
use yrs::{Array, ArrayRef, Doc, Map, Observable, OffsetKind, Options, Quotable, ReadTxn, StateVector, Text, Transact, Update};

fn one_block(doc: &Doc) -> ArrayRef {
    // one block 1#0..6 holding [0, 1, 2, 3, 4, 5]
    let a = doc.get_or_insert_array("array");
    a.insert_range(&mut doc.transact_mut(), 0, [0, 1, 2, 3, 4, 5]);
    a
}

fn three_blocks(doc: &Doc) -> ArrayRef {
    // three blocks in document order: 1#2..4 = [0, 1], 1#0..2 = [2, 3], 1#4..6 = [4, 5]
    let a = doc.get_or_insert_array("array");
    a.insert_range(&mut doc.transact_mut(), 0, [2, 3]);
    a.insert_range(&mut doc.transact_mut(), 0, [0, 1]);
    a.insert_range(&mut doc.transact_mut(), 4, [4, 5]);
    a
}

fn case<R: RangeBounds<u32> + Clone + std::fmt::Debug>(label: &str, build: fn(&Doc) -> ArrayRef, range: R, expected: &str) {
    let r2 = range.clone();
    let res = catch_unwind(AssertUnwindSafe(|| {
        let doc = Doc::with_client_id(1);
        let array = build(&doc);
        let map = doc.get_or_insert_map("map");
        let mut txn = doc.transact_mut();
        match array.quote(&txn, r2) {
            Err(e) => format!("quote error: {}", e),
            Ok(prelim) => {
                // dereference the quotation before ...
                let before: Vec<String> = prelim.unquote(&txn).map(|v| v.to_string(&txn)).collect();
                // ... and after it has been inserted into the document (LinkSource::materialize runs the same RangeIter)
                let link = map.insert(&mut txn, "k", prelim);
                let after: Vec<String> = link.unquote(&txn).map(|v| v.to_string(&txn)).collect();
                format!("unquote = {:?} / {:?}", before, after)
            }
        }
    }));
    match res {
        Ok(s) => println!("{:<34} {:<32} {}   [expected {}]", label, format!("{:?}", range), s, expected),
        Err(_) => println!("{:<34} {:<32} PANIC   [expected {}]", label, format!("{:?}", range), expected),
    }
}

fn events<R: RangeBounds<u32> + std::fmt::Debug + Clone>(range: R) {
    let doc = Doc::with_client_id(1);
    let a = three_blocks(&doc);
    let map = doc.get_or_insert_map("map");
    let link = {
        let mut txn = doc.transact_mut();
        let p = a.quote(&txn, range.clone()).unwrap();
        map.insert(&mut txn, "k", p)
    };
    let n = Arc::new(AtomicU32::new(0));
    let n2 = n.clone();
    let _sub = link.observe(move |_txn, _e| {
        n2.fetch_add(1, Ordering::SeqCst);
    });
    a.insert(&mut doc.transact_mut(), 3, 99); // between the values 2 and 3: inside the range
    a.remove(&mut doc.transact_mut(), 2); // the value 2: inside the range
    let txn = doc.transact();
    let got: Vec<String> = link.unquote(&txn).map(|v| v.to_string(&txn)).collect();
    println!("{:<34} {:<32} unquote = {:?}, link events fired = {}   [expected 2]", "three blocks, 2 edits in range", format!("{:?}", range), got, n.load(Ordering::SeqCst));
}

fn unq<T: ReadTxn>(link: &yrs::WeakRef<ArrayRef>, txn: &T) -> Vec<String> {
    link.unquote(txn).map(|v| v.to_string(txn)).collect()
}

fn q3() {
    // an exclusive start whose element is directly preceded by a tombstone
    {
        let doc = Doc::with_client_id(1);
        let a = doc.get_or_insert_array("array");
        let map = doc.get_or_insert_map("map");
        a.insert_range(&mut doc.transact_mut(), 0, ["a", "X", "b", "c"]);
        a.remove(&mut doc.transact_mut(), 1); // a, b, c with the tombstone X between a and b
        let mut txn = doc.transact_mut();
        let p = a.quote(&txn, (Bound::Excluded(1u32), Bound::Included(2u32))).unwrap();
        let link = map.insert(&mut txn, "k", p);
        println!("Q3a [a,(X),b,c] (Excluded(1), Included(2))   unquote = {:?}   [expected c]", unq(&link, &txn));
    }
    {
        let doc = Doc::with_client_id(1);
        let a = doc.get_or_insert_array("array");
        let map = doc.get_or_insert_map("map");
        a.insert_range(&mut doc.transact_mut(), 0, ["X", "a", "b", "c"]);
        a.remove(&mut doc.transact_mut(), 0);
        let mut txn = doc.transact_mut();
        let p = a.quote(&txn, (Bound::Excluded(0u32), Bound::Included(2u32))).unwrap();
        let link = map.insert(&mut txn, "k", p);
        println!("Q3b [(X),a,b,c] (Excluded(0), Included(2))   unquote = {:?}   [expected b,c]", unq(&link, &txn));
    }
    // an inclusive start anchored on the tombstone: a concurrent insert between the tombstone and the first element gets inside
    for with_tombstone in [true, false] {
        let d1 = Doc::with_client_id(1);
        let a1 = d1.get_or_insert_array("array");
        let m1 = d1.get_or_insert_map("map");
        if with_tombstone {
            a1.insert_range(&mut d1.transact_mut(), 0, ["a", "X", "b", "c"]);
        } else {
            a1.insert_range(&mut d1.transact_mut(), 0, ["a", "b", "c"]);
        }
        let d2 = Doc::with_client_id(2);
        let a2 = d2.get_or_insert_array("array");
        let u = d1.transact().encode_state_as_update_v1(&StateVector::default());
        d2.transact_mut().apply_update(Update::decode_v1(&u).unwrap()).unwrap();
        // replica 2 inserts Y directly in front of b (behind X)
        a2.insert(&mut d2.transact_mut(), if with_tombstone { 2 } else { 1 }, "Y");
        // replica 1 removes X and quotes b, c
        if with_tombstone {
            a1.remove(&mut d1.transact_mut(), 1);
        }
        let link = {
            let mut txn = d1.transact_mut();
            let p = a1.quote(&txn, 1..=2).unwrap();
            m1.insert(&mut txn, "k", p)
        };
        let u2 = d2.transact().encode_state_as_update_v1(&d1.transact().state_vector());
        d1.transact_mut().apply_update(Update::decode_v1(&u2).unwrap()).unwrap();
        let t = d1.transact();
        println!("Q3c {} array = {:?}, quote 1..=2 (= b,c when quoted) = {:?}   [expected b,c]", if with_tombstone { "tombstone in front of b:" } else { "control, no tombstone:  " },
            a1.iter(&t).map(|v| v.to_string(&t)).collect::<Vec<_>>(), unq(&link, &t));
    }
    // start index == len()
    for trailing in [true, false] {
        let doc = Doc::with_client_id(1);
        let a = doc.get_or_insert_array("array");
        if trailing {
            a.insert_range(&mut doc.transact_mut(), 0, ["a", "b", "X"]);
            a.remove(&mut doc.transact_mut(), 2);
        } else {
            a.insert_range(&mut doc.transact_mut(), 0, ["a", "b"]);
        }
        let txn = doc.transact();
        println!("Q3d {} quote(2..) = {:?}   [expected Err: index 2 == len]", if trailing { "[a,b,(X)]" } else { "[a,b]    " }, a.quote(&txn, 2..).map(|p| p.unquote(&txn).map(|v| v.to_string(&txn)).collect::<Vec<_>>()).map_err(|e| e.to_string()));
    }
}

fn q4() {
    let mut o = Options::default();
    o.offset_kind = OffsetKind::Bytes;
    let doc = Doc::with_options(o);
    let text = doc.get_or_insert_text("text");
    text.insert(&mut doc.transact_mut(), 0, "a\u{e9}b"); // bytes: a (1), e-acute (2), b (1): len 4; index 2 is inside the character
    for r in [(1u32, 1u32), (1, 2), (2, 3), (3, 3)] {
        let res = catch_unwind(AssertUnwindSafe(|| {
            let txn = doc.transact();
            text.quote(&txn, r.0..=r.1).map(|p| format!("{:?}", p.source())).map_err(|e| e.to_string())
        }));
        println!("Q4 Bytes text a-e_acute-b (len {}) quote {}..={} : {:?}", text.len(&doc.transact()), r.0, r.1, res.unwrap_or(Ok("PANIC".into())));
    }
}

fn main() {
    std::panic::set_hook(Box::new(|i| println!("    panic: {}", i)));
    println!("== controls (correct)");
    case("one block", one_block, 1..=3, "1,2,3");
    case("one block", one_block, 1..3, "1,2");
    case("one block", one_block, 2..2, "empty");
    case("one block", one_block, (Bound::Excluded(1u32), Bound::Included(3u32)), "2,3");
    case("three blocks, start on last unit", three_blocks, (Bound::Excluded(1u32), Bound::Included(4u32)), "2,3,4");
    case("three blocks, end on first unit", three_blocks, 1..2, "1");
    println!("== FINDING Q1: exclusive start and end anchored at the same element (empty range)");
    case("Q1a one block", one_block, (Bound::Excluded(1u32), Bound::Included(1u32)), "empty");
    case("Q1b one block", one_block, (Bound::Excluded(1u32), Bound::Excluded(1u32)), "empty");
    case("Q1c one block, first unit", one_block, (Bound::Excluded(0u32), Bound::Excluded(0u32)), "empty");
    case("Q1d three blocks, last unit of blk", three_blocks, (Bound::Excluded(1u32), Bound::Included(1u32)), "empty");
    case("Q1e three blocks, last unit of blk", three_blocks, (Bound::Excluded(1u32), Bound::Excluded(1u32)), "empty");
    println!("== OBSERVATION O3: materialize with an exclusive start on the last unit of a block");
    events(2..=4);
    events((Bound::Excluded(1u32), Bound::Included(4u32)));
    println!("== FINDING Q3: the start anchor is a tombstone in front of the element at the index");
    q3();
    println!("== OBSERVATION Q4: Bytes documents, index inside a multi-byte character");
    q4();
    println!("== FINDING Q2: inverted range in Quotable::quote");
    case("Q2 one block", one_block, 3..=2, "empty or QuoteError");
    case("Q2 one block", one_block, 3..1, "empty or QuoteError");
}
