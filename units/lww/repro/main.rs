// Public-API CROSS-CHECK for unit `lww` (NO FINDING: the unit reports none).  Three replicas, explicit delivery orders; checks on the
// REAL crate what the pure theorems of the unit say about one key of a map:
//   D2  two concurrent writes on the same current entry: the write of the HIGHER client id is the value on every replica, in both
//       delivery orders                                                           (theorem_d2_concurrent_writes)
//   D3  a write concurrent with a removal survives it, whichever arrives first   (theorem_d3_write_survives_removal)
//   D1  an overwritten value never comes back; a stale concurrent write with a lower client id than the overwriting one is
//       deleted on arrival (example_overwrite_then_stale_arrival); one with a higher client id is placed right of the
//       overwriting write AND its successors by conflict resolution and wins -- on every replica (it is concurrent with them)
// Stand-alone (throw-away cargo project, path dependency on /repo/yrs):
//     CARGO_NET_OFFLINE=true cargo run --offline --target-dir /tmp/lww-repro-target
// Observed on the pinned tree (2026-09-26):
//   D2 order 0/1: a = b = c = "w2"           D3 (4 combinations): a = b = c = "w"
//   before stale: "w2"; after stale (client 9, concurrent with w1): a = b = c = "stale"
//   stale lower id (client 2 vs 3): a = b = c = "b"
use yrs::updates::decoder::Decode;
use yrs::{Doc, Map, Options, ReadTxn, StateVector, Transact, Update, Out, Any};

fn doc(id: u64) -> Doc {
    let mut o = Options::with_client_id(yrs::block::ClientID::new(id));
    o.skip_gc = true;
    Doc::with_options(o)
}

fn diff(d: &Doc, sv: &StateVector) -> Vec<u8> {
    d.transact().encode_state_as_update_v1(sv)
}

fn sv(d: &Doc) -> StateVector {
    let t = d.transact();
    t.state_vector()
}

fn sync(from: &Doc, to: &Doc) {
    let v = sv(to);
    let u = diff(from, &v);
    apply(to, &u);
}

fn apply(d: &Doc, u: &[u8]) {
    d.transact_mut().apply_update(Update::decode_v1(u).unwrap()).unwrap();
}

fn get(d: &Doc) -> Option<Out> {
    let m = d.get_or_insert_map("m");
    let t = d.transact();
    m.get(&t, "k")
}

fn main() {
    // D2: two concurrent writes on the same current entry v; every delivery order; winner = higher client id
    for order in 0..2 {
        let a = doc(1);
        let b = doc(2);
        let c = doc(3);
        let ma = a.get_or_insert_map("m");
        let mb = b.get_or_insert_map("m");
        let _mc = c.get_or_insert_map("m");
        ma.insert(&mut a.transact_mut(), "k", "v");
        let base = diff(&a, &StateVector::default());
        apply(&b, &base);
        apply(&c, &base);
        let sva = sv(&a);
        let svb = sv(&b);
        ma.insert(&mut a.transact_mut(), "k", "w1");
        mb.insert(&mut b.transact_mut(), "k", "w2");
        let ua = diff(&a, &sva);
        let ub = diff(&b, &svb);
        if order == 0 { apply(&c, &ua); apply(&c, &ub); } else { apply(&c, &ub); apply(&c, &ua); }
        apply(&a, &ub);
        apply(&b, &ua);
        println!("D2 order {}: a={:?} b={:?} c={:?}", order, get(&a), get(&b), get(&c));
        assert_eq!(get(&a), Some(Out::Any(Any::from("w2"))));
        assert_eq!(get(&b), get(&a));
        assert_eq!(get(&c), get(&a));
    }
    // D3: removal concurrent with a write
    for order in 0..2 {
        for (wr, rm) in [(1u64, 2u64), (2, 1)] {
            let a = doc(wr);
            let b = doc(rm);
            let c = doc(3);
            let ma = a.get_or_insert_map("m");
            let mb = b.get_or_insert_map("m");
            let _mc = c.get_or_insert_map("m");
            ma.insert(&mut a.transact_mut(), "k", "v");
            let base = diff(&a, &StateVector::default());
            apply(&b, &base);
            apply(&c, &base);
            let sva = sv(&a);
            let svb = sv(&b);
            ma.insert(&mut a.transact_mut(), "k", "w");
            mb.remove(&mut b.transact_mut(), "k");
            let ua = diff(&a, &sva);
            let ub = diff(&b, &svb);
            if order == 0 { apply(&c, &ua); apply(&c, &ub); } else { apply(&c, &ub); apply(&c, &ua); }
            apply(&a, &ub);
            apply(&b, &ua);
            println!("D3 order {} writer {} remover {}: a={:?} b={:?} c={:?}", order, wr, rm, get(&a), get(&b), get(&c));
            assert_eq!(get(&a), Some(Out::Any(Any::from("w"))));
            assert_eq!(get(&b), get(&a));
            assert_eq!(get(&c), get(&a));
        }
    }
    // D1: overwritten value never resurfaces: stale write arriving late
    {
        let a = doc(1);
        let b = doc(2);
        let c = doc(9);
        let ma = a.get_or_insert_map("m");
        let mb = b.get_or_insert_map("m");
        let mc = c.get_or_insert_map("m");
        ma.insert(&mut a.transact_mut(), "k", "v");
        let base = diff(&a, &StateVector::default());
        apply(&b, &base);
        apply(&c, &base);
        // c (highest id) writes concurrently, seeing only v
        let svc = sv(&c);
        mc.insert(&mut c.transact_mut(), "k", "stale");
        let uc = diff(&c, &svc);
        // a overwrites v by w1, b sees w1 and overwrites by w2
        ma.insert(&mut a.transact_mut(), "k", "w1");
        sync(&a, &b);
        mb.insert(&mut b.transact_mut(), "k", "w2");
        sync(&b, &a);
        println!("before stale: a={:?} b={:?}", get(&a), get(&b));
        apply(&a, &uc);
        apply(&b, &uc);
        sync(&a, &c);
        println!("after stale (client 9, concurrent with w1): a={:?} b={:?} c={:?}", get(&a), get(&b), get(&c));
        assert_eq!(get(&a), get(&b));
        assert_eq!(get(&a), get(&c));
    }
    // the unit's `example_overwrite_then_stale_arrival`: a (client 1), overwritten by b (client 3); stale c (client 2) had seen only a
    {
        let a = doc(1);
        let b = doc(3);
        let c = doc(2);
        let ma = a.get_or_insert_map("m");
        let mb = b.get_or_insert_map("m");
        let mc = c.get_or_insert_map("m");
        ma.insert(&mut a.transact_mut(), "k", "a");
        sync(&a, &b);
        sync(&a, &c);
        let svc = sv(&c);
        mc.insert(&mut c.transact_mut(), "k", "c-stale");
        let uc = diff(&c, &svc);
        mb.insert(&mut b.transact_mut(), "k", "b");
        sync(&b, &a);
        apply(&a, &uc);
        apply(&b, &uc);
        sync(&b, &c);
        println!("stale lower id (client 2 vs 3): a={:?} b={:?} c={:?}", get(&a), get(&b), get(&c));
        assert_eq!(get(&a), Some(Out::Any(Any::from("b"))));
        assert_eq!(get(&a), get(&b));
        assert_eq!(get(&a), get(&c));
    }
    println!("ok");
}
